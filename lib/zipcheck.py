"""Shared by C05 / C12 / C17 (module zip files): one specification (ModZip), one generator (ModZipGen),
one trace specification (ModZipTrace), one harness world (modzip).  Each property keeps the violation
signatures that belong to it (prefix c05: / c12: / c17:)."""
import os
from vcore import gen_and_replay, record_and_validate, finish, replay_one


def scratch(ctx):
    d = os.path.join(ctx.work, "scratch")
    os.makedirs(d, exist_ok=True)
    os.environ["VERIF_SCRATCH"] = d
    return d


def run(ctx, prefix, files_cfgs, zip_cfgs, nrec, rule, floor_files=2000, floor_zip=500, assumptions=()):
    ctx.build_harness()
    scratch(ctx)
    for cfg in files_cfgs:
        gen_and_replay(ctx, "modzip", "ModZipGen", cfg, floor=40 if cfg.endswith("_sizes") else floor_files, workers=16, timeout=3400, heap="12g", xss="256m")
    for cfg in zip_cfgs:
        gen_and_replay(ctx, "modzip", "ModZipGen", cfg, floor=floor_zip, workers=16, timeout=3400, heap="12g", xss="256m")
    record_and_validate(ctx, "modzip", "ModZipTrace", "ModZipTrace", nrec, shards=14, timeout=3000)
    ctx.violations = [v for v in ctx.violations if v.get("sig", "").startswith(prefix)]
    ctx.assumptions += list(assumptions)
    return finish(ctx, replay_fn=replay, rule=rule)


def replay(ctx, path, verbose=False):
    scratch(ctx)
    return replay_one(ctx, path, verbose)
