"""C05 - a created module zip always extracts to exactly the files that belong in it."""
import zipcheck

RULE = ("E1: ModZip - the documented classification of a file list (Classify), the archive check (CheckZip) and extraction (UnzipOK / "
        "UnzipTree) over paths as character sequences; TLC checks on every generated list that whatever creation produces "
        "(prefix + valid files) passes CheckZip with nothing invalid, extracts, and extracts to exactly the valid files "
        "(CreateRoundTrip), and that valid files are sound (ValidAreSound: clean, relative, well-formed, not vendored, not in a nested "
        "module, go.mod only at the root in lower case, pairwise collision free). E2: every list of up to 2 (quick: 2 over the core "
        "path set, thorough: 3 over the core set - 65 file variants, 275 k lists) files over a curated path set x modes x sizes x go versions is given to the real "
        "zip.CheckFiles / zip.Create; creation must succeed exactly when the specification reports nothing invalid; the produced "
        "bytes are written out, passed through the real zip.CheckZip and zip.Unzip, and the extracted tree is compared name by name "
        "and byte for byte with the source files reported valid, and the archive's content with the files the specification says belong in it; "
        "the total-size rule (one budget of 500 MiB charged in list order) on lists of three 170 MiB files in every order, alone and with a small "
        "file at every place, and on two lists of two that fit (created, extracted, compared). E3: random lists of up to 30 files (paths of up to 4 elements over a "
        "30-element vocabulary, half of them benign so that creation succeeds) recorded from the real code and re-derived by "
        "ModZipTrace. Non-trivial = list of at least two files.")


def run(ctx):
    q = ctx.quick()
    return zipcheck.run(ctx, "c05:", ["ModZipGen_files_full2", "ModZipGen_sizes"] if q else ["ModZipGen_files_full2", "ModZipGen_sizes", "ModZipGen_files_small3"], [],
                        3000 if q else 60000, RULE,
                        assumptions=["module example.com/m at v1.0.0; sizes are classes (small = a few bytes, big = 16 MiB + 1 byte); archive/zip and the file system are trusted"])


replay = zipcheck.replay
