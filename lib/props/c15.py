"""C15 - the parsed file structure and its syntax tree never diverge under edits."""
import modfilecheck

RULE = ("Same generated behaviours and recorded sessions as C08, different predicate: after every prefix followed by Cleanup the exported "
        "fields of modfile.File / WorkFile (module, go, toolchain, godebug, require with indirect flag, exclude, replace, retract with "
        "rationale, tool, use) equal, as multisets, the strict parse of the formatted file (StructSyntaxAgree = ModfileModel!Differ on the "
        "two projections), and no list holds a cleared placeholder entry. Session visibility follows from C08's model comparison over "
        "operation pairs and longer sequences on one File object. Non-trivial = every session.")


def run(ctx):
    return modfilecheck.run(ctx, "c15:", RULE)


def replay(ctx, path, verbose=False):
    return modfilecheck.replay_session(ctx, path, verbose, keep="c15:")
