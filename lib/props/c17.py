"""C17 - which files belong in a module zip is a fixed function of the tree."""
import zipcheck

RULE = ("E1: ModZip.Classify - the documented rules in their documented order (unclean, absolute, vendored with the pre-1.24 and "
        "1.24+ variants, nested module, .hg_archival.txt, ill-formed path, mis-cased go.mod, Lstat failure, collision, symlink, "
        "irregular, oversized go.mod / LICENSE); TLC checks on every generated list that each path given once lands in exactly one "
        "list (ExactlyOneList) and that the lists as sets do not depend on the order of the input when nothing collides "
        "(OrderIndependentClass, list against its reverse). E2: every list of up to 2 files over the full path set (thorough: also 3 over the core set, 275 k lists) "
        "set x modes x sizes x go versions (absent, old, 1.24+, unparsable) is given to the real zip.CheckFiles and the three lists "
        "compared with Classify; every list made only of regular files and directories is also materialized as a directory tree "
        "and zip.CheckDir / zip.CreateFromDir compared with zip.CheckFiles / zip.Create on the list of its files (same verdict, "
        "same entries, same bytes, same valid and invalid reports). E3: random lists of up to 30 files recorded from the real "
        "code and re-derived by ModZipTrace, including the directory-versus-list flag. Non-trivial = list of at least two files.")


def run(ctx):
    q = ctx.quick()
    return zipcheck.run(ctx, "c17:", ["ModZipGen_files_full2"] if q else ["ModZipGen_files_full2", "ModZipGen_files_small3"], [],
                        3000 if q else 60000, RULE,
                        assumptions=["directory trees are compared only when the list is materializable: regular files and directories, clean relative names "
                                     "the file system accepts, no VCS metadata directories"])


replay = zipcheck.replay
