"""C18 - pseudo-versions round-trip and sort between their base and the next release."""
from vcore import gen_and_replay, record_and_validate, finish, replay_one

RULE = ("E1: Pseudo over Semver - Make by the five documented forms with decimal increment on digit strings, IsPseudo from the documented "
        "shape, BaseOf/TimeOf/RevOf as inverses; TLC checks for every (base, time, revision): recognised, base with build suffix / time / "
        "revision recovered, base < pseudo < next release (no base: below vX.0.0), and a later time gives a higher version for all revision "
        "pairs. Bases: none, v1.2.3, shortened, v0.0.0, patch 9 / 99 / 25 nines, prereleases (pre, 0, a-b, pre.1, 0.0), +incompatible, "
        "+meta, two-digit fields, invalid strings; times at the year edges 1, 999, 1000, 9999, equal and adjacent seconds; zones -13h..+13h "
        "with half hours; sub-second parts. E2: each case replayed into PseudoVersion, IsPseudoVersion, PseudoVersionBase/Time/Rev and "
        "semver.Compare; the placeholder ZeroPseudoVersion(major) and IsZeroPseudoVersion of every generated version are compared as well. E3: random bases from the semver generator, random times and zones, recomputed by PseudoTrace. "
        "Non-trivial = case with a valid base version.")


def run(ctx):
    ctx.build_harness()
    q = ctx.quick()
    gen_and_replay(ctx, "pseudo", "PseudoGen", "PseudoGen_small" if q else "PseudoGen_full", floor=500, workers=16, timeout=3000)
    record_and_validate(ctx, "pseudo", "PseudoTrace", "PseudoTrace", 5000 if q else 100000, shards=12)
    ctx.assumptions += ["time zone arithmetic and calendar conversion are Go's (the case carries UTC civil fields; the harness builds the local time)",
                        "TLC integers are 32-bit: patch numbers are digit strings"]
    return finish(ctx, replay_fn=replay_one, rule=RULE)


def replay(ctx, path, verbose=False):
    return replay_one(ctx, path, verbose)
