"""C16 - bulk requirement and use setters produce exactly the requested set."""
import json
import os
import re

from vcore import finish, read_tlc_json, Infra, log

RULE = ("E1/E2: ModfileBulkGen - requirement layouts (none, line, block, two blocks, line+block, commented block, per-line comments, "
        "duplicates, indirect markers with text) x go versions x requested lists (all subsets of 3-4 paths x version choice x marking "
        "pattern) for SetRequire and SetRequireSeparateIndirect, use layouts x subsets for SetUse, with unsorted exclude/retract/replace "
        "blocks present; TLC checks exactness on the model and prints each case. The harness applies the setter (Cleanup before and "
        "after), compares the set, and records the output's block structure, which TLC judges with the predicates ExactSet, BlockSorted "
        "(three comparators, semantic versions through Semver.tla), OnePerPath, CommentsKept, Separated (ModfileBulkTrace). "
        "E3: random files with up to 24 requirements and random requests, same predicates. Non-trivial = every case.")


def validate(ctx, trace, name):
    lines = open(trace).read().splitlines()
    if not lines:
        raise Infra("no bulk events recorded for " + name)
    shards = 8
    per = (len(lines) + shards - 1) // shards
    import concurrent.futures as cf
    parts = []
    for i in range(shards):
        chunk = lines[i * per:(i + 1) * per]
        if chunk:
            p = "%s.%d" % (trace, i)
            open(p, "w").write("\n".join(chunk) + "\n")
            parts.append((i, p, chunk))
    with cf.ThreadPoolExecutor(max_workers=len(parts)) as ex:
        results = list(ex.map(lambda part: ctx.tlc("ModfileBulkTrace", "ModfileBulkTrace", workers=1, files={"trace.ndjson": part[1]},
                                                   name="%s#%d" % (name, part[0]), timeout=1500, xss="256m"), parts))
    good = 0
    for (i, p, chunk), r in zip(parts, results):
        objs = read_tlc_json(r.outfile)
        done = [o for o in objs if o.get("k") == "done"]
        if not done or done[-1]["in"]["n"] != len(chunk):
            raise Infra("bulk trace shard %d of %s not consumed\n%s" % (i, name, r.tail[-1500:]))
        for o in objs:
            if o.get("k") != "bad":
                continue
            ev = json.loads(chunk[o["in"]["l"] - 1])
            failed = sorted(o["in"]["failed"])
            sig = "c16:" + "+".join(failed)
            if failed == ["sorted"]:
                sig += ":" + "+".join(sorted(o["in"].get("unsorted", [])))
                if re.search(r"(rc|beta)\d*$", ev["in"].get("gov", "")):
                    sig += ":go-prerelease"
            case = {"w": "modfile", "k": "bulkrec", "in": {"kind": ev["in"]["kind"], "text": ev["in"]["text"],
                                                            "op": {"name": ev["in"]["op"], "a": ["", "", "", ""], "b": False, "l": ev["in"]["req"]},
                                                            "separable": ev["in"]["separable"], "gov": ev["in"]["gov"], "kept": ev["in"]["kept"]}}
            ctx.violations.append({"sig": sig, "what": "%s with request %s: output violates %s (go %r) on\n%s" % (
                ev["in"]["op"], json.dumps(ev["in"]["req"])[:300], failed, ev["in"].get("gov"), ev["in"]["text"][:1200]), "case": case})
        good += len(chunk) - done[-1]["in"]["nbad"]
    ctx.traces += good
    ctx.engines[name] = {"events": len(lines), "accepted": good}
    if len(ctx.samples) < 12:
        ctx.samples.append({"recorded_bulk_event": json.loads(lines[len(lines) // 2])})
    return good


def run(ctx):
    ctx.build_harness()
    q = ctx.quick()
    cfg = "ModfileBulkGen_small" if q else "ModfileBulkGen_full"
    r = ctx.tlc("ModfileBulkGen", cfg, workers=16, timeout=3000)
    trace = os.path.join(ctx.work, "bulk-gen.ndjson")
    rep = ctx.vh(["replay", "modfile", r.outfile], env_extra={"VERIF_BULK_TRACE": trace})
    rep["violations"] = [v for v in rep.get("violations", []) if v.get("sig", "").startswith("c16:")]
    ctx.add_report(rep, floor=1500 if q else 5000, engine=cfg + ":replay")
    validate(ctx, trace, "ModfileBulkTrace:generated")
    trace2 = os.path.join(ctx.work, "bulk-rec.ndjson")
    rep2 = ctx.vh(["record", "modfilebulk", trace2, "-n", str(1500 if q else 20000)])
    ctx.evaluations += rep2.get("cases", 0)
    ctx.nontrivial += rep2.get("cases", 0)
    validate(ctx, trace2, "ModfileBulkTrace:recorded")
    ctx.assumptions += ["'one uncommented line or block' is read as: exactly one require statement, no comment on it or on any of its lines "
                        "other than indirect markers", "layout renderer and block-structure projection of the harness are trusted"]
    return finish(ctx, replay_fn=lambda c, p: replay(c, p), rule=RULE)


def replay(ctx, path, verbose=False):
    """Re-run the case in the harness, record the block structure again and let TLC judge it."""
    trace = os.path.join(ctx.work, "bulk-replay.ndjson")
    if os.path.exists(trace):
        os.remove(trace)
    rep = ctx.vh(["one", path], env_extra={"VERIF_BULK_TRACE": trace})
    if any(v.get("sig", "").startswith("c16:") for v in rep.get("violations", [])):
        return True
    if not os.path.exists(trace):
        return False
    r = ctx.tlc("ModfileBulkTrace", "ModfileBulkTrace", workers=1, files={"trace.ndjson": trace}, name="ModfileBulkTrace:replay", timeout=600)
    bad = [o for o in read_tlc_json(r.outfile) if o.get("k") == "bad"]
    if verbose:
        for b in bad:
            log("  reproduced: output violates %s" % b["in"]["failed"])
    return len(bad) > 0
