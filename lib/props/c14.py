"""C14 - concurrent lookups behave like sequential ones and fetch each record once."""
import json
import os
import subprocess

import sumdbmc
from vcore import finish, replay_one, replay_run, record_and_monitor, Infra, BUILD, GOENV, log

RULE = ("E1: SumdbClient with several threads and clients, every separately atomic region of the implementation a separate action "
        "(sync.Once initialisation, record-cache claim/wait, cache and network reads, snapshot of the in-memory head, compare-and-set "
        "install with retry, configuration read and compare-and-swap write with retry, checkRecord snapshot, cache write), an honest "
        "server whose signed head grows while lookups are in flight: all interleavings of 1x2, 2x1 (quick) and 2x2, 1x3, 3x1 (thorough) "
        "threads with invariants ResultAuthentic, HonestLive, FetchExclusive, SkipSilentState, QuiescentConfig, ConfigChain, MemChain; "
        "LatestMerge (the head-merging core alone, integers only) proved by TLAPS for any number of goroutines and confirmed by Apalache as an "
        "inductive invariant over unbounded integers: neither the in-memory nor the stored head moves backwards. "
        "E2: schedules drawn by TLC -simulate are replayed deterministically into the real client: every ClientOps call and every verif "
        "hook point is a gate, the scheduler releases exactly the goroutine the model's next step names (thread identity by goroutine id) "
        "and waits for quiescence (runtime.Stack polling). E3: 8-64 goroutines x 1-3 clients against the repository's Server/TestServer "
        "under the race detector, events ordered by a sequence number taken under the recorder's lock, validated by SumdbMonitor. "
        "The honest server of E3 has a specification of its own (SumdbServer: append-only log without duplicates, lookups covered by the "
        "head they carry, tiles that exist exactly when the log has their hashes); every session of 4/5 requests is replayed over HTTP "
        "against sumdb.Server / TestServer and 24-way concurrent lookups are recorded. Non-trivial = every schedule (at least two concurrent lookups).")

KEEP = ("c14:", "server:", "conc:", "storage:", "counter:")


def split_file(path, n):
    lines = [l for l in open(path) if l.startswith('"')]
    parts = []
    for i in range(n):
        chunk = lines[i::n]
        if chunk:
            p = "%s.part%d" % (path, i)
            open(p, "w").writelines(chunk)
            parts.append(p)
    return parts


def run(ctx):
    ctx.build_harness()
    q = ctx.quick()
    # E1: exhaustive interleavings
    sumdbmc.run_configs(ctx, sumdbmc.c14_mc_configs(ctx.tier), workers_each=5 if q else 8, parallel=3 if q else 2, timeout=3400, label="C14mc")
    # unbounded: the merge of tree heads for any number of goroutines and heads of any size (TLAPS, Apalache, TLC on small constants)
    ctx.prove("LatestMerge", apalache_args=["--cinit=CInit", "--init=IndInit", "--inv=IndInv", "--next=Next", "--length=1"])
    if not q:
        ctx.tlc("LatestMerge", "LatestMerge", workers=8, timeout=1800, name="LatestMerge(3 threads, heads 0..3)")
    # the honest server of E3 is the repository's Server over TestServer: its own specification, sessions replayed over HTTP
    from vcore import gen_and_replay, record_and_validate
    gen_and_replay(ctx, "sumserver", "SumdbServerGen", "SumdbServerGen_h2" if q else "SumdbServerGen_h1", floor=5000, workers=6, timeout=1800)
    record_and_validate(ctx, "sumserver", "SumdbServerTrace", "SumdbServerTrace", 60 if q else 600, shards=2)
    # the transactional store a production server sits on (sumdb/storage): serializable transactions, repeated attempts leave no trace
    gen_and_replay(ctx, "storage", "StorageGen", "StorageGen_2", floor=20000, workers=6, timeout=1800)
    record_and_validate(ctx, "storage", "StorageTrace", "StorageTrace", 60 if q else 600, shards=2)
    # E2: simulated schedules replayed deterministically
    nsim = 80 if q else 2500
    out, res = sumdbmc.run_configs(ctx, sumdbmc.c14_sim_configs(ctx.tier), workers_each=1, parallel=4, timeout=3000, label="C14sim",
                                   simulate=nsim, depth=600)
    out2, res2 = sumdbmc.run_configs(ctx, sumdbmc.c14_race_configs(ctx.tier), workers_each=1, parallel=4, timeout=3000, label="C14race",
                                     simulate=nsim * (4 if q else 10), depth=600)
    # schedules of particular shapes, found exhaustively
    out3, res3 = sumdbmc.run_configs(ctx, sumdbmc.c14_scenario_configs(ctx.tier), workers_each=8, parallel=2, timeout=3000, label="C14scenario")
    nscen = sum(1 for l in open(out3) if l.startswith('"'))
    if nscen == 0:
        raise Infra("the scenario search produced no schedule")
    with open(out, "a") as fo:
        fo.writelines(l for l in open(out2) if l.startswith('"'))
        fo.writelines(l for l in open(out3) if l.startswith('"'))
    import concurrent.futures as cf
    parts = split_file(out, 12)
    with cf.ThreadPoolExecutor(max_workers=len(parts)) as ex:
        reps = list(ex.map(lambda p: ctx.vh(["replay", "client", p, "-workers", "1"], timeout=3400), parts))
    rep = {"cases": sum(r["cases"] for r in reps), "nontrivial": sum(r["nontrivial"] for r in reps), "drift": sum(r["drift"] for r in reps),
           "violations": [v for r in reps for v in r.get("violations", []) if v.get("sig", "").startswith(KEEP)],
           "samples": reps[0].get("samples", [])[:2], "_wall": max(r["_wall"] for r in reps),
           "notes": [n for r in reps for n in (r.get("notes") or [])][:3]}
    for n in rep["notes"]:
        log("[DRIFT] " + str(n)[:400])
    ctx.add_report(rep, floor=200 if q else 5000, engine="C14sim:replay")
    # E3: free-running goroutines against the real Server/TestServer, race detector on
    ctx.build_harness(race=True)
    os.environ["GORACE"] = "halt_on_error=1 exitcode=66"
    try:
        record_and_monitor(ctx, "clientc14", "SumdbMonitor", "SumdbMonitor", 60 if q else 2000, ("C14", "C13 stored head", "C01 stored head"),
                           shards=12, race=True)
    except Infra as e:
        if "DATA RACE" in str(e):
            ctx.violations.append({"sig": "c14:data-race", "what": "the Go race detector reported a data race during concurrent lookups:\n" + str(e)[-3000:],
                                   "case": {"w": "clientc14", "k": "run", "in": {"seed": 0, "run": 0}}})
        else:
            raise
    ctx.extra["race_detector"] = "vh-race (go build -race), GORACE=halt_on_error=1"
    ctx.assumptions += ["'without data races' is decided by the Go race detector on the recorded workload, not by TLC (atomic steps by construction)",
                        "tile fetches are atomic and honest in the concurrent model configurations (tile authentication is C10/C01)"]
    return finish(ctx, replay_fn=lambda c, p: replay(c, p), rule=RULE)


def race_run(ctx, runs):
    """Re-run the concurrent recorder under the race detector; True if it reports a data race."""
    exe = ctx.exe(race=True)
    env = dict(os.environ)
    env.update(GOENV)
    env["GORACE"] = "halt_on_error=1 exitcode=66"
    env["VERIF_SEED"] = str(ctx.seed)
    p = subprocess.run([exe, "record", "clientc14", os.path.join(ctx.work, "race-replay.ndjson"), "-n", str(runs)], cwd=ctx.work, env=env,
                       stdout=subprocess.PIPE, stderr=subprocess.PIPE, text=True, timeout=3000)
    if "DATA RACE" in p.stderr:
        log(p.stderr[-2500:])
        return True
    return False


def replay(ctx, path, verbose=False):
    v = json.load(open(path))
    if v.get("sig") == "c14:data-race":
        ctx.build_harness(race=True)
        return any(race_run(ctx, 200) for _ in range(3))
    # free-running goroutines: the same seed does not give the same interleaving; try several times
    return replay_run(ctx, path, verbose, attempts=12)
