"""C19 - the module content hash is the documented formula over names and bytes only."""
from vcore import gen_and_replay, record_and_validate, finish, replay_one
import zipcheck

RULE = ("E1: DirHash - summary = lines (digest, two spaces, name, newline) sorted by name, with an abstract injective content digest of "
        "fixed width; TLC checks on every set of up to 3/4 files over names with spaces, double spaces, case variants, slashes, "
        "non-ASCII, a digest-like prefix and a newline, and two contents: order independence under all permutations, sortedness, "
        "injectivity of the rendering against every one-file change or removal, refusal of newlines. E2: each set is hashed by "
        "dirhash.Hash1 in every listing order and compared with the formula written out independently in the harness over the "
        "specification's summary order. E3: random sets of 1-8 files recomputed by DirHashTrace. The zip/directory clause is decided on the archives "
        "the ModZip generator's file lists produce through the real zip.Create: HashZip of the archive = HashDir of its extraction "
        "= the formula over the extracted names and bytes. Non-trivial = at least two files.")


def run(ctx):
    ctx.build_harness()
    q = ctx.quick()
    gen_and_replay(ctx, "dirhash", "DirHashGen", "DirHashGen_3" if q else "DirHashGen_4", floor=1000, workers=16, timeout=3000, xss="512m")
    record_and_validate(ctx, "dirhash", "DirHashTrace", "DirHashTrace", 4000 if q else 60000, shards=8)
    zipcheck.scratch(ctx)
    gen_and_replay(ctx, "modzip", "ModZipGen", "ModZipGen_files_small2" if q else "ModZipGen_files_full2", floor=1000, workers=16, timeout=3000, xss="256m")
    ctx.violations = [v for v in ctx.violations if v.get("sig", "").startswith(("set:", "c19:"))]
    ctx.assumptions += ["SHA-256, hexadecimal and base64 renderings are trusted; content digests are an abstract injective function in the specification"]
    return finish(ctx, replay_fn=replay_one, rule=RULE)


def replay(ctx, path, verbose=False):
    zipcheck.scratch(ctx)
    return replay_one(ctx, path, verbose)
