"""C07 - a signed note opens only with verified signatures over exactly its text."""
from vcore import gen_and_replay, record_and_validate, finish, replay_one

RULE = ("E1: Note - Sign and Open at line level (split at the last blank line, one outcome per documented case: malformed, unverified, "
        "invalid signature, ambiguous or mismatched verifier, ok with the verified/unverified partition, duplicate handling, 100-line cap), "
        "signatures as facts; TLC checks for every text of up to 2/3 lines (plain, blank, signature-like), 8 signer sequences and 17 "
        "known-verifier sets: sign/open round trip with the documented partition, NoForeignText and TextChangeRejected over every single "
        "structural mutation (alter / delete / insert a line, insert / remove a blank line, forge / rename / truncate / garble / duplicate "
        "a signature line, control character, drop the final newline, append text). E2: every message with its predicted outcome is made "
        "concrete with real Ed25519 keys (a second key under the same name and key hash for ambiguity, a lying Verifiers) behind recording "
        "verifiers and opened by note.Open. E3: byte-level mutation sweep of signed messages, abstracted to lines by an independent splitter "
        "and crypto/ed25519, validated by NoteTrace. Non-trivial = mutated message.")


def run(ctx):
    ctx.build_harness()
    q = ctx.quick()
    gen_and_replay(ctx, "note", "NoteGen", "NoteGen_2" if q else "NoteGen_3", floor=80000, workers=16, timeout=3400, heap="16g", xss="512m")
    record_and_validate(ctx, "note", "NoteTrace", "NoteTrace", 6000 if q else 200000, shards=12)
    ctx.assumptions += ["signatures are facts (Ed25519 unforgeability); base64 and UTF-8 decoding trusted",
                        "key-string parsing (NewVerifier/NewSigner/GenerateKey) is outside this property: verifiers are built from raw keys"]
    return finish(ctx, replay_fn=replay_one, rule=RULE)


def replay(ctx, path, verbose=False):
    return replay_one(ctx, path, verbose)
