"""C01 - the checksum-database client never returns or caches unauthenticated data."""
import sumdbmc
from vcore import Infra, finish, replay_one, replay_run, record_and_monitor

RULE = ("E1: SumdbClient - the client as a state machine (Lookup, record cache, ReadCache/ReadRemote, ParseRecord, mergeLatest with the "
        "configuration compare-and-swap loop, checkRecord, per-tile fetch/authenticate/save) against an adversary that corrupts up to "
        "1-3 responses of any kind (forged record, other record, stale/bad-signature/garbage head, malformed, network error; tile junk, "
        "swap, truncate, extend, forged leaf tile; cache poisoning), for log sizes 1-6/1-12, tile heights 1-2/1-3, cold and warm cache, "
        "restarts, stored heads older/equal/ahead, growing server: invariants ResultAuthentic, CacheAuthentic, ConfigAuthentic, "
        "HonestLive, ConfigChain, MemChain. E2: every complete behaviour is replayed into the real sumdb.Client against an "
        "independently built world (real SHA-256 tiles, Ed25519-signed heads), with ground-truth observers on every ClientOps call. "
        "Honest liveness also with other honest processes winning the compare-and-swap of the configuration three times in a row "
        "(EnvStore; schedules found exhaustively, replayed through the gate scheduler) and on a log of 2004-2006 records at height 1 (tiles "
        "number 999-1001). E3: random multi-fault runs on trees up to 300/2000 records and heights 1-8, validated by SumdbMonitor. "
        "Non-trivial = behaviour with at least one corrupted response.")


def run(ctx):
    ctx.build_harness()
    cfgs = sumdbmc.c01_configs(ctx.tier)
    out, _ = sumdbmc.run_configs(ctx, cfgs, workers_each=2, parallel=8, timeout=3000, label="C01")
    # honest server, honest cache, and other honest processes that win the compare-and-swap of the configuration three times in a
    # row (EnvStore): schedules found exhaustively, replayed through the gate scheduler - the lookup still succeeds
    out2, _ = sumdbmc.run_configs(ctx, sumdbmc.env_writer_configs(ctx.tier), workers_each=4, parallel=2, timeout=3000, label="C01env")
    if sum(1 for l in open(out2) if l.startswith('"')) == 0:
        raise Infra("the search for three lost compare-and-swaps produced no schedule")
    with open(out, "a") as fo:
        fo.writelines(l for l in open(out2) if l.startswith('"'))
    rep = ctx.vh(["replay", "client", out])
    rep["violations"] = [v for v in rep.get("violations", []) if v.get("sig", "").startswith(("c01:", "behaviour:"))]
    ctx.add_report(rep, floor=2000 if ctx.quick() else 20000, engine="C01:replay")
    record_and_monitor(ctx, "clientc01", "SumdbMonitor", "SumdbMonitor", 200 if ctx.quick() else 3000, "C01", shards=12)
    ctx.assumptions += ["hashes as free terms; signatures as facts (Ed25519 unforgeability); the world is built by harness/internal/sumworld",
                        "at most 1-3 corrupted responses per behaviour in the exhaustive part; E3 lifts the bound with random placements"]
    return finish(ctx, replay_fn=replay_run, rule=RULE)


def replay(ctx, path, verbose=False):
    return replay_run(ctx, path, verbose)
