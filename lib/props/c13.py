"""C13 - the client follows one consistent timeline of signed tree heads."""
import sumdbmc
from vcore import finish, replay_one, replay_run, record_and_monitor, Infra

RULE = ("E1: SumdbClient with two timelines A and B sharing a prefix of 0-3 records and diverging by 1-3 records each, a server "
        "that answers every request (records, signed heads, tiles) from its current timeline and switches timeline up to twice, one "
        "client across a restart or two clients sharing configuration and cache, cold and warm stored heads: ConfigChain, MemChain, "
        "SecurityIsReal, SecurityHasBoth, CacheAuthentic. E2: every behaviour replayed into the real client; observers: stored head only "
        "moves to a signed extension, no two inconsistent heads ever stored, a presented fork makes the lookup fail and leaves the "
        "stored head alone, security reports carry both signed notes; plus schedules in which a split-view server meets two "
        "goroutines of one client (responses from both timelines and an install that had to be retried; found exhaustively under a "
        "view, replayed through the gate scheduler): no two successful lookups carry mutually inconsistent heads; and behaviours in which other honest processes sharing the configuration "
        "(EnvStore: a newer head of the served timeline is stored while a thread stands between reading the file and its compare-and-swap) win the "
        "swap three times in a row around a restart and a change of view: no lookup succeeds with a head inconsistent with an earlier "
        "accepted one or with what the shared configuration holds. E3: random forks at sizes up to 500 and heights up to 8. "
        "Non-trivial = every behaviour (all involve two timelines).")


def run(ctx):
    ctx.build_harness()
    cfgs = sumdbmc.c13_configs(ctx.tier)
    out, _ = sumdbmc.run_configs(ctx, cfgs, workers_each=2, parallel=8, timeout=3000, label="C13")
    # a split view meets two goroutines of one client: schedules of that shape, found exhaustively, replayed deterministically
    out2, _ = sumdbmc.run_configs(ctx, sumdbmc.c13_scenario_configs(ctx.tier) + sumdbmc.c14_scenario_configs(ctx.tier), workers_each=6, parallel=3,
                                  timeout=3000, label="C13scenario")
    nscen = sum(1 for l in open(out2) if l.startswith('"'))
    if nscen == 0:
        raise Infra("the fork-race scenario search produced no schedule")
    with open(out, "a") as fo:
        fo.writelines(l for l in open(out2) if l.startswith('"'))
    # outside writers (EnvStore) win the swap three times in a row around a restart and a change of view
    out3, _ = sumdbmc.run_configs(ctx, sumdbmc.c13_env_configs(ctx.tier), workers_each=8, parallel=1, timeout=3000, label="C13env")
    if sum(1 for l in open(out3) if l.startswith('"')) == 0:
        raise Infra("the search for three lost compare-and-swaps around a restart produced no behaviour")
    with open(out, "a") as fo:
        fo.writelines(l for l in open(out3) if l.startswith('"'))
    rep = ctx.vh(["replay", "client", out])
    rep["violations"] = [v for v in rep.get("violations", []) if v.get("sig", "").startswith(("c13:", "behaviour:"))]
    ctx.add_report(rep, floor=1000 if ctx.quick() else 20000, engine="C13:replay")
    record_and_monitor(ctx, "clientc13", "SumdbMonitor", "SumdbMonitor", 200 if ctx.quick() else 3000, "C13", shards=12)
    ctx.assumptions += ["hashes as free terms; signatures as facts (Ed25519 unforgeability); the world is built by harness/internal/sumworld",
                        "at most 1-3 corrupted responses per behaviour in the exhaustive part; E3 lifts the bound with random placements"]
    return finish(ctx, replay_fn=replay_run, rule=RULE)


def replay(ctx, path, verbose=False):
    return replay_run(ctx, path, verbose)
