"""C12 - extraction enforces every zip restriction and never writes outside its directory."""
import zipcheck

RULE = ("E1: ModZip - CheckZip (prefix, clean valid relative path, case-fold and file/directory collisions, go.mod placement, size "
        "limits) and UnzipOK / UnzipTree; TLC checks on every generated archive that whenever extraction is allowed every extracted "
        "name is clean, relative and well-formed (NoEscape). E2: every archive of up to 2 (quick: 3, thorough: 4) raw entries over 28 "
        "entry variants (.., absolute, backslash, empty, trailing slash, invalid UTF-8, wrong / case-varied / missing prefix, "
        "duplicates and case-fold pairs, file versus directory, go.mod variants, declared sizes that lie in both directions, "
        "oversized go.mod and LICENSE) is written with archive/zip (raw headers) and given to the real zip.CheckZip and zip.Unzip "
        "inside a sentinel directory: verdict and lists must equal the specification's, the extracted tree must equal the file "
        "entries, and the sentinel directory (parent and siblings of the target) must be byte-identical afterwards, on success and on "
        "failure. E3: random archives of up to 12 entries recorded from the real code and re-derived by ModZipTrace. "
        "Non-trivial = archive with at least two entries.")


def run(ctx):
    q = ctx.quick()
    return zipcheck.run(ctx, "c12:", [], ["ModZipGen_zip3"] if q else ["ModZipGen_zip3", "ModZipGen_zip4"],
                        3000 if q else 60000, RULE,
                        assumptions=["an archive whose content is larger or smaller than its header declares is not accepted by extraction although "
                                     "the header-only zip check accepts it; the property's 'sizes match their declarations' is read as part of what extraction enforces",
                                     "the file system outside the sentinel directory is not observed"])


replay = zipcheck.replay
