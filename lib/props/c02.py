"""C02 - formatting a go.mod/go.work file preserves its meaning and is idempotent."""
import syntaxcheck

RULE = ("E1: ModfileSyntax - lexer (with positions) and statement parser of the syntax layer; PositionsConsistent on every generated "
        "input. E2: (a) every sequence of up to 4/5 lexical items over a 12-class alphabet and up to 3/4 items over the full 28-item "
        "alphabet (identifiers, strings with escapes, raw strings, unterminated string, brackets, comma, LF/CRLF/CR, space/tab, comments, "
        "non-ASCII, invalid byte, /*, NBSP, control), (b) a transition cover (one input per context x next item) reaching longer inputs, "
        "each with the specification's verdict, statements, tokens, comment texts and positions; the harness parses with the real syntax "
        "parser (verif export), formats, re-parses and demands that the re-parse equals the SPECIFICATION's reading of the input, and that a "
        "second Format changes nothing; (c) well-formed go.mod/go.work layouts in 5 text variants (LF/CRLF, blank lines, quoted paths) "
        "x with/without version fixer: directive values identical before and after formatting; (d) the quoting rule (ModfileQuote: MustQuote / AutoQuote over strconv.Quote, and parseString over strconv.Unquote): for every string of up to 3/4 characters over 25 classes (5 over 10 in the thorough tier) TLC checks that the text AutoQuote writes is read by the specification's lexer as exactly one token whose value is the string (OneToken, OneTokenDir, NoComment), and the harness compares the real MustQuote / AutoQuote and pushes the string through AddUse / AddReplace + Format + strict parse + Format. E3: byte-level mutations of the "
        "repository's fixtures and token soups, parsed by the specification in ModfileSyntaxTrace. Non-trivial = input accepted by the parser.")


def run(ctx):
    return syntaxcheck.run(ctx, "c02:", RULE)


def replay(ctx, path, verbose=False):
    return syntaxcheck.replay_keep(ctx, path, ("c02:", "syn:"), verbose)
