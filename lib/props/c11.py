"""C11 - path and version escaping is a lossless, case-collision-free encoding."""
from vcore import gen_and_replay, record_and_validate, finish, replay_one

RULE = ("E1: Escape - Esc / Unesc with the validity predicates; TLC checks on every generated string: no upper-case letter in the "
        "output, Unesc(Esc(s)) = s (hence injectivity ignoring case, since outputs have no upper-case letters), unescaping succeeds "
        "only on the escape of a valid input. E2: every string over a 12-letter alphabet (a z A Z ! . / 1 - + e-acute space) up to "
        "length 4/6, bare and behind the prefix x.y/, taken as path, version, escaped path and escaped version, replayed into "
        "EscapePath, EscapeVersion, UnescapePath, UnescapeVersion; the harness also hashes the lower-cased escape of every valid "
        "input to detect collisions directly. E3: mutated real-world paths and their escapes, re-evaluated by ModulePathTrace. "
        "Non-trivial = string that is a valid input of some escape function.")


def run(ctx):
    ctx.build_harness()
    q = ctx.quick()
    gen_and_replay(ctx, "modpath", "EscapeGen", "EscapeGen_4" if q else "EscapeGen_6", floor=40000, workers=16, timeout=3400, heap="16g")
    gen_and_replay(ctx, "modpath", "ModulePathGen", "ModulePathGen_2", floor=50000, workers=16, timeout=3000, name="ModulePathGen_2(context)")
    record_and_validate(ctx, "modpath", "ModulePathTrace", "ModulePathTrace", 6000 if q else 150000, shards=12)
    ctx.violations = [v for v in ctx.violations if v.get("sig", "").startswith("esc")]
    ctx.assumptions += ["'allowed version' = valid file-path element, ASCII, no exclamation mark"]
    return finish(ctx, replay_fn=replay_one, rule=RULE)


def replay(ctx, path, verbose=False):
    return replay_one(ctx, path, verbose)
