"""C03 - Merkle inclusion and consistency proofs are complete and sound (RFC 6962 / 9162)."""
from vcore import gen_and_replay, record_and_validate, finish, replay_one

RULE = ("E1: TlogProofGen - for every (t,n) up to TMax and every member of the mutation family, the iterative RFC 9162 "
        "verifier and the recursive RFC 6962 verifier of the specification agree; completeness; soundness with the true root. "
        "E2: every tuple of the family with the RFC verdict is replayed into tlog.CheckRecord/CheckTree, every RFC 6962 proof "
        "is compared hash by hash with ProveRecord/ProveTree. E3: proofs on random trees of 200-2000 records recorded as "
        "stored-hash positions and mutation fates, recomputed by TlogProofTrace. Beyond TLC's 32-bit integers: TlogBig states the RFC 6962 "
        "definitions over binary numerals for uniform logs (cross-checked against the integer-level definitions on every size up to 40); "
        "sizes 2^e and 2^e +- 1 for e up to 63 with boundary indexes and six proof mutations each go to CheckRecord / CheckTree "
        "(all sizes) and ProveRecord / ProveTree / TreeHash (logs up to 2^61 records, served by a computed reader), each call under "
        "a watchdog: a call that does not return is a violation. Non-trivial = mutated tuple or proof comparison.")


def run(ctx):
    ctx.build_harness()
    q = ctx.quick()
    gen_and_replay(ctx, "tlog", "TlogProofGen", "TlogProofGen_d16" if q else "TlogProofGen_d64", floor=20000, workers=16, timeout=3000, heap="12g")
    gen_and_replay(ctx, "tlog", "TlogProofGen", "TlogProofGen_two5" if q else "TlogProofGen_two7", floor=50000, workers=16, timeout=3000, heap="12g")
    record_and_validate(ctx, "tlogproof", "TlogProofTrace", "TlogProofTrace", 3000 if q else 40000, shards=12)
    # the 63-bit range: sizes and indexes as binary numerals, uniform logs, calls under a watchdog
    gen_and_replay(ctx, "tlogbig", "TlogBigGen", "TlogBigGen", floor=800, workers=8, timeout=1800, xss="512m")
    ctx.violations = [v for v in ctx.violations if not v.get("sig", "").startswith("index:")]
    ctx.assumptions += ["hashes are terms of a free algebra (SHA-256 collision resistance, RFC 6962 leaf/node domain separation)",
                        "range descriptors are concretized with an independent RFC 6962 reference (harness/internal/refmerkle)"]
    return finish(ctx, replay_fn=replay_one, rule=RULE)


def replay(ctx, path, verbose=False):
    return replay_one(ctx, path, verbose)
