"""C06 - path validity rules and path/version matching follow the documented rules."""
from vcore import gen_and_replay, record_and_validate, finish, replay_one

RULE = ("E1: ModulePath - declarative rules for module, import and file paths (character classes, dots, Windows reserved names and "
        "short names, first-element domain rules), the major-version suffix split with gopkg.in conventions, path/version "
        "correspondence and prefix-glob matching (path.Match as a recursive definition); TLC checks module <= import <= file, "
        "prefix+suffix = path with a documented suffix shape, Check = conjunction, on every generated string. E2: every concatenation of "
        "up to 3/4 fragments of a 37-fragment vocabulary, a sweep of every printable ASCII character at five positions, glob lists of up "
        "to 3 pieces x 10 targets, each printed with the verdicts and replayed into CheckPath, CheckImportPath, CheckFilePath, "
        "SplitPathVersion, Check, CheckPathMajor, MatchPathMajor, PathMajorPrefix (no panic), MatchPrefixPatterns. E3: mutations of "
        "real-world module paths and random glob lists, re-evaluated by ModulePathTrace. Non-trivial = string that is a valid file path.")


def run(ctx):
    ctx.build_harness()
    q = ctx.quick()
    gen_and_replay(ctx, "modpath", "ModulePathGen", "ModulePathGen_3" if q else "ModulePathGen_4", floor=100000, workers=16, timeout=3400, heap="16g")
    record_and_validate(ctx, "modpath", "ModulePathTrace", "ModulePathTrace", 6000 if q else 150000, shards=12)
    for v in ctx.violations:
        if v.get("sig", "").startswith("esc"):
            v["sig"] = "other-property:" + v["sig"]
    ctx.violations = [v for v in ctx.violations if not v.get("sig", "").startswith("other-property:")]
    ctx.assumptions += ["interior double dots in a path element are accepted (pinned by module_test.go although the doc comment forbids them)",
                        "gopkg.in: .v0-unstable is not a valid suffix (implementation behaviour; the documentation only points to the server's conventions)",
                        "unicode.IsLetter is transcribed only for the non-ASCII characters the generators use"]
    return finish(ctx, replay_fn=replay_one, rule=RULE)


def replay(ctx, path, verbose=False):
    return replay_one(ctx, path, verbose)
