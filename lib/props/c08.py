"""C08 - go.mod and go.work edit operations do what a simple set/map model says."""
import modfilecheck

RULE = ("E1: ModfileModel - keyed collections with the documented effect of every edit operation (first entry updated / later removed, "
        "add-if-absent, replace-all-versions, de-duplication priorities, bulk setters, validation errors change nothing); TLC checks "
        "model-level laws on every generated behaviour. E2: ModfileGen enumerates initial layouts (focus verb x entry pattern with "
        "duplicates x lines/block/commented block/split blocks x comment decoration, surrounded by other directives) x every operation "
        "instance, all ordered pairs on mixed layouts, and simulated sequences of up to 6 operations, with the model state after each "
        "prefix; the harness renders, parses, applies (Cleanup before bulk setters and at the end), formats, re-parses strictly and "
        "compares directives as multisets and comment identities of untouched entries; arbitrary string arguments (every string of up to 3/4 characters over 25 classes, specification ModfileQuote) go through AddUse / AddReplace of go.work and go.mod, Format and the strict parser and must read back unchanged. E3: random sessions of 3-15 operations over seed "
        "files, replayed through the model by ModfileModelTrace. Non-trivial = every session (at least one operation).")


def run(ctx):
    return modfilecheck.run(ctx, "c08:", RULE)


def replay(ctx, path, verbose=False):
    return modfilecheck.replay_session(ctx, path, verbose, keep="c08:")
