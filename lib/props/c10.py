"""C10 - hashes read through tiles are authenticated against the tree head."""
from vcore import gen_and_replay, record_and_validate, finish, replay_one, Infra

RULE = ("E1: TilesRead - the tile reader as a state machine (Plan, Corrupt*, Fetch, AuthTree, AuthChildren, Save, Return) for every "
        "n<=12/20, h in {1,2}/{1,2,3}, every single position (pairs for small n), every corruption (junk, swap, dup, truncate, extend, "
        "other tile) of one planned tile (two for small n): honest reads succeed, successful reads return true hashes, saved tiles are "
        "true; the faulty variant AuthFrom=lenStx must produce TLC's counterexample (non-vacuity). TilePathGen: path bijection on a "
        "coordinate domain with all single-character mutations. TilesPublish: published tiles suffice along growth sequences. "
        "E2: every terminal reader state, path string and growth sequence replayed into tlog (real SHA-256 trees, real tile bytes). "
        "E3: random trees up to 3000 records, heights 1..8, every fetched tile corrupted in turn, validated by TilesTrace. "
        "Non-trivial = at least one corrupted tile / every path string.")


def run(ctx):
    ctx.build_harness()
    q = ctx.quick()
    # non-vacuity: the invariants are able to fail - TLC must find the counterexample in the faulty variant
    r = ctx.tlc("TilesRead", "TilesRead_faulty", workers=8, timeout=600, allow_invariant=True)
    if r.invariant_violated not in ("OkImpliesTruth", "SavedAreTrue"):
        raise Infra("the faulty tile-authentication variant did not produce a counterexample (vacuous invariants?)")
    ctx.extra["faulty_variant_counterexample"] = r.invariant_violated
    gen_and_replay(ctx, "tiles", "TilesRead", "TilesRead_quick" if q else "TilesRead_thorough", floor=20000, workers=16, timeout=3400, heap="16g")
    gen_and_replay(ctx, "tiles", "TilePathGen", "TilePathGen_small" if q else "TilePathGen_full", floor=50000, workers=16, timeout=3000)
    gen_and_replay(ctx, "tiles", "TilesPublish", "TilesPublish" if q else "TilesPublish_thorough", floor=500, workers=8, timeout=3000)
    record_and_validate(ctx, "tiles", "TilesTrace", "TilesTrace", 3000 if q else 50000, shards=12)
    ctx.assumptions += ["hashes are terms of a free algebra (SHA-256 collision resistance)", "records of a tree are pairwise distinct",
                        "tile numbers above 2^31 are outside TLC's integers: only the accept/reject verdict of such paths is predicted"]
    return finish(ctx, replay_fn=replay_one, rule=RULE)


def replay(ctx, path, verbose=False):
    return replay_one(ctx, path, verbose)
