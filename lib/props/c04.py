"""C04 - version comparison is the SemVer 2.0.0 total preorder on the documented grammar."""
from vcore import gen_and_replay, record_and_validate, finish, replay_one

RULE = ("E1: SemverVocab - preorder laws of the specification's Cmp on a version vocabulary (all pairs, triples on a "
        "sub-vocabulary). E2: (a) every string over a 10-letter alphabet up to length L with validity and all accessors, "
        "(b) one string per (grammatical position x next token) transition, (c) vocabulary with ranks, Compare checked on all "
        "pairs by the harness, (d) module.Sort, which orders by Compare (specification ModuleSort: strict partial order laws; every list of up "
        "to 2/3 distinct (path, version[/file]) records over 36 records with its sorted form where the order is total on the list). E3: random/mutated versions, pairs and sorts recorded from the real code and re-evaluated by "
        "SemverTrace. Non-trivial = valid version.")


def run(ctx):
    ctx.build_harness()
    q = ctx.quick()
    # E1 + E2c: vocabulary
    gen_and_replay(ctx, "semver", "SemverVocab", "SemverVocab_small" if q else "SemverVocab_full",
                   floor=500, workers=16, timeout=3000, heap="8g")
    # E2a: all short strings
    gen_and_replay(ctx, "semver", "SemverGen", "SemverGen_chars5" if q else "SemverGen_chars6",
                   floor=800, workers=16, timeout=3000)
    # E2b: transition cover with long tokens
    gen_and_replay(ctx, "semver", "SemverGen", "SemverGen_tokens", floor=2000, workers=8, timeout=1200)
    # growth: module.Sort (specification ModuleSort) - every list of up to 2/3 distinct (path, version[/file]) records
    gen_and_replay(ctx, "semver", "ModuleSort", "ModuleSort_2" if q else "ModuleSort_3", floor=500, workers=16, timeout=3000)
    # E3
    record_and_validate(ctx, "semver", "SemverTrace", "SemverTrace", 8000 if q else 100000, shards=12)
    ctx.exhaustive = False
    ctx.assumptions += ["TLC integers are 32-bit: numeric fields are compared as padded digit strings in the specification",
                        "alphabet of the exhaustive string enumeration: v 0 1 9 . - + a A x"]
    return finish(ctx, replay_fn=replay_one, rule=RULE)


def replay(ctx, path, verbose=False):
    return replay_one(ctx, path, verbose)
