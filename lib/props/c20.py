"""C20 - parsing is total, positioned, and lax mode accepts everything strict mode does."""
import syntaxcheck

RULE = ("Same generated and recorded inputs as C02 (all inputs, not only accepted ones, including the error-directed items: unterminated "
        "string, newline in string, /*, stray brackets, control and invalid bytes, NBSP; 64 KiB lines and 10000-line blocks), different "
        "predicates: no panic, hang (5 s watchdog) or internal error; every position in the syntax tree and in errors agrees with the input "
        "(line and column recomputed from the byte offset, the token or comment text starts there) and with the positions the "
        "specification's lexer predicts; on well-formed layouts ParseLax accepts what Parse accepts with the same module, go, require and "
        "retract values, also after an unknown directive or block is appended; ModulePath agrees with the strict module path. "
        "Non-trivial = input accepted by the parser / every layout.")


def run(ctx):
    return syntaxcheck.run(ctx, "c20:", RULE)


def replay(ctx, path, verbose=False):
    return syntaxcheck.replay_keep(ctx, path, ("c20:", "syn:"), verbose)
