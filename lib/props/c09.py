"""C09 - the log's tree hash and stored-hash layout are exactly RFC 6962 for every log."""
from vcore import gen_and_replay, record_and_validate, finish, replay_one

RULE = ("E1: Tlog - every record sequence over two contents up to length 8/10 and all-distinct sequences up to 32/64: layout "
        "bijection, closed form = order of writes, every stored hash = RFC 6962 MTH of its subtree, count = 2n-popcount(n), tree hash "
        "of every prefix. E2: each state printed with the appended hashes and all prefix tree hashes as hash terms, replayed into "
        "tlog.StoredHashes/TreeHash/StoredHashIndex/SplitStoredHashIndex/StoredHashCount; record texts over a 6-letter alphabet up "
        "to length 6 and a tree-head text family into FormatRecord/ParseRecord/ParseTree/FormatTree. E3: logs of thousands of appends "
        "recorded as positions and recomputed by TlogTrace; TlogBig: stored positions, counts and tree hashes of uniform logs of up to "
        "2^61 records over binary numerals (the layout beyond 32 bits). Non-trivial = at least two records / accepted text.")


def run(ctx):
    ctx.build_harness()
    q = ctx.quick()
    gen_and_replay(ctx, "tlog", "TlogGen", "TlogGen_two" if q else "TlogGen_two10", floor=500, workers=8, timeout=1800)
    gen_and_replay(ctx, "tlog", "TlogGen", "TlogGen_distinct32" if q else "TlogGen_distinct64", floor=32, workers=8, timeout=1800, xss="512m")
    gen_and_replay(ctx, "tlog", "TlogTextGen", "TlogTextGen", floor=50000, workers=8, timeout=1800)
    record_and_validate(ctx, "tlog", "TlogTrace", "TlogTrace", 3000 if q else 10000, shards=8)
    # positions and counts for logs of up to 2^61 records (binary numerals), tree hash of uniform logs of that size
    gen_and_replay(ctx, "tlogbig", "TlogBigGen", "TlogBigGen", floor=800, workers=8, timeout=1800, xss="512m")
    ctx.violations = [v for v in ctx.violations if not v.get("sig", "").startswith(("tree:", "range:", "record:verdict", "record:proof", "record:hang", "record:panic"))]
    ctx.assumptions += ["hashes are terms of a free algebra (SHA-256 collision resistance)",
                        "TLC integers are 32-bit: coordinates above 2^30 are not evaluated by the model",
                        "base64/decimal renderings are trusted (encoding/base64, strconv)"]
    return finish(ctx, replay_fn=replay_one, rule=RULE)


def replay(ctx, path, verbose=False):
    return replay_one(ctx, path, verbose)
