"""Single source for MANIFEST.json (bin/mkmanifest)."""

HOOK_COMMITS = ["99fd8c0", "15c9526", "0ab4dce"]

ENGINES = [
    {"name": "tlc", "path": "/verif/spec", "kind_free_text": "TLA+ specifications checked with TLC: E1 design check, E2 case/behaviour generation, E3 trace validation",
     "serves_properties": []},
    {"name": "vh", "path": "/verif/harness", "kind_free_text": "Go harness: replays TLC-generated cases into golang.org/x/mod and records real executions as ndjson traces",
     "serves_properties": []},
]

NOTES = ("Every check: TLC explores the TLA+ specification (E1), TLC-generated cases/behaviours are replayed into the real "
         "packages (E2), executions recorded from the real packages are validated against the specification by TLC (E3). "
         "VIOLATION only for behaviour of the real code, reproduced in a fresh process. See DESIGN.md.")

TLA = "explicit TLA+ specification model-checked with TLC; "

CHECKS = {
    "C04": {
        "text": "Bounded-exhaustive: the specification's SemVer preorder is model-checked on a version vocabulary (all pairs, triples on a sub-vocabulary); every string over a 10-letter alphabet up to length 5/6, a transition cover of the grammar and the ranked vocabulary are replayed into semver/module (Compare on all pairs); recorded random calls are re-evaluated by TLC.",
        "note": "Trusted: the TLA+ transcription of the documented grammar and SemVer section 11; TLC; numbers compared as padded digit strings. Bounds: alphabet and length of enumerated strings, vocabulary size.",
        "technique": TLA + "spec-generated cases replayed into the code and recorded calls trace-validated against the spec",
    },
    "C03": {
        "text": "Bounded-exhaustive: for every tree size t<=16/64 (distinct records) and t<=5/7 (all two-content sequences), every n, and every member of a mutation family over proof hashes, length, order, index, sizes, leaf and roots, TLC checks that the RFC 9162 iterative verifier and the RFC 6962 recursive verifier of the specification agree, and the verdicts and proofs are replayed into tlog.CheckRecord/CheckTree/ProveRecord/ProveTree; proofs on random trees up to 2000 records are trace-validated by position. Beyond 32-bit integers: TlogBig states RFC 6962 over binary numerals for uniform logs (cross-checked against the integer-level definitions on sizes up to 40); sizes 2^e and 2^e +- 1 up to 2^63 - 1 with six proof mutations each go to CheckRecord / CheckTree, the provers and TreeHash (logs up to 2^61 records served by a computed reader), every call under a watchdog.",
        "note": "Trusted: the TLA+ transcription of RFC 6962 2.1.1-2.1.2 and RFC 9162 2.1.3.2/2.1.4.2; hashes as free terms (SHA-256 collision resistance); refmerkle concretization. Bounds: tree sizes, mutation family.",
        "technique": TLA + "spec-generated (proof, sizes, index, hashes) tuples with RFC verdicts replayed into the checkers; recorded proofs trace-validated",
    },
    "C09": {
        "text": "Bounded-exhaustive: TLC explores the append-only log specification (all two-content sequences to length 8/10, distinct sequences to 32/64) with the layout bijection, stored-hash = MTH, count and tree-hash invariants; every state is replayed into tlog with hash terms concretized; record/tree text encodings over a small alphabet; recorded logs of thousands of appends are trace-validated by position. Stored positions, counts and tree hashes of uniform logs of up to 2^61 records are specified over binary numerals (TlogBig) and compared with StoredHashIndex / SplitStoredHashIndex / StoredHashCount / TreeHash; recorded long logs sweep record lengths and sizes around powers of two and multiples of 256.",
        "note": "Trusted: TLA+ transcription of RFC 6962 2.1 and of the documented write order; hashes as free terms; 32-bit TLC integers bound coordinates to < 2^30; base64/strconv trusted.",
        "technique": TLA + "state-by-state replay of the log specification into tlog and trace validation of recorded appends",
    },
    "C10": {
        "text": "Bounded-exhaustive fault enumeration by model checking: the tile reader is a TLA+ state machine against an adversarial tile server; TLC explores every tree size <=12/20, height 1-3, every requested position (pairs for small trees) and every corruption of one (two) planned tile(s), checks the three observer invariants, and the faulty authentication variant must yield a counterexample; every terminal state is replayed into tlog.TileHashReader with real trees and bytes; path bijection and publisher sufficiency likewise; random reads on trees up to 3000 records and heights 1-8 are trace-validated.",
        "note": "Trusted: TLA+ transcription of the tile layout; hashes as free terms; distinct records; refmerkle builds the honest world. Bounds: tree size, heights, one or two corrupted tiles per read.",
        "technique": TLA + "adversarial reader state machine explored by TLC, terminal states replayed into the code, recorded reads trace-validated",
    },
    "C01": {
        "text": "Model checking with fault enumeration: the client is a TLA+ state machine (one action per external operation or critical section, tiles fetched and authenticated one by one with Tiles.tla) against an adversary corrupting 1-3 responses of any kind from network or cache; TLC checks ResultAuthentic, CacheAuthentic, ConfigAuthentic, HonestLive and the chain properties over log sizes 1-6/1-12, heights 1-2/1-3, cold/warm caches, restarts, growing server. Every complete behaviour is replayed into the real sumdb.Client against an independently built world with ground-truth observers on every ClientOps call (zero protocol drift on the unchanged tree); random multi-fault runs on trees up to 300/2000 records, heights 1-8, are trace-validated by SumdbMonitor. Further configuration families: a server that has moved on (head smaller than its log, partial tiles gone, damaged full tile served instead) a cache left by a client that went further (complete tiles present, partial ones not), a record cache kept from an earlier run under a stored head that was lost or is older (InitLookups), other honest processes winning the compare-and-swap of the configuration three times in a row (EnvStore), and an honest run at the far end of a 2004-record log (tile numbers 999-1001).",
        "note": "Trusted: hashes as free terms, signatures as facts (SHA-256, Ed25519), the sumworld builder and its labels. Bound: number of corrupted responses per behaviour and log size in the exhaustive part.",
        "technique": TLA + "adversarial client state machine explored by TLC, behaviours replayed into the real client, recorded runs trace-validated by an observer specification",
    },
    "C13": {
        "text": "Model checking: the same client specification with two timelines sharing a prefix of 0-3 records, a server that answers from either timeline and switches up to twice, one client across a restart or two clients sharing configuration and cache; TLC checks ConfigChain, MemChain, SecurityIsReal, SecurityHasBoth, CacheAuthentic. Every behaviour is replayed into the real client with observers for: stored head only moves to a signed extension, no two inconsistent heads stored, a presented fork fails the lookup and leaves the stored head alone, security reports carry both signed notes. Random forks at sizes up to 500 and heights up to 8 are trace-validated. Schedules of particular shapes are found exhaustively under a view that keeps one history per state and scenario flag and replayed through the gate scheduler: a split view meeting two goroutines of one client (ForkRace), a thread overtaken between install and flush (OvertakenFlush), a lost compare-and-swap between two clients (CasLost). Further families: lookup responses and cache files that carry a genuine head of the other view (otherview), and other honest writers of the shared configuration winning the swap three times in a row around a restart and a change of view (EnvStore); observer: heads accepted by successful lookups are consistent with each other and with the stored head.",
        "note": "Trusted: as C01. Fine-grained interleavings of clients writing the shared configuration are explored under C14's configurations; here multi-client histories are sequential per lookup.",
        "technique": TLA + "two-timeline client state machine explored by TLC, behaviours replayed into the real client, recorded fork runs trace-validated",
    },
    "C14": {
        "text": "Model checking of interleavings: the client specification with every separately atomic region of the implementation as its own action (sync.Once, record-cache claim and wait, snapshot / compare-and-set install with retry, configuration compare-and-swap with retry) is explored exhaustively by TLC for 1x2 and 2x1 (quick) and 2x2, 1x3, 3x1 (thorough) threads against an honest growing server. Schedules drawn by TLC (plain and race-directed: only behaviours with a write conflict or an install retry) are replayed deterministically into the real client through gates at every ClientOps call and verif hook point, with zero drift on the unchanged tree; 8-64 free-running goroutines x 1-3 clients against the repository's Server/TestServer are recorded under the race detector and validated by SumdbMonitor. The head-merging core alone (LatestMerge, integers only) is proved by TLAPS for any number of goroutines and confirmed by Apalache as an inductive invariant over unbounded integers. Scenario schedules (OvertakenFlush, CasLost) are found exhaustively and replayed; every external operation during a private-path lookup is attributed by goroutine.",
        "note": "The 'no data races' clause is decided by the Go race detector, not by TLC. Tile fetches are atomic and honest in these configurations. Trusted: goroutine-state polling for quiescence (a wrong quiescence verdict costs drift, not soundness).",
        "technique": TLA + "exhaustive interleaving exploration, TLC-simulated schedules replayed through a gate scheduler into the real client, recorded concurrent runs trace-validated",
    },
    "C08": {
        "text": "Model-based: the documented effect of every go.mod / go.work edit operation is a TLA+ operator on keyed collections (ModfileModel!Apply). TLC enumerates initial layouts x operations (singles on every layout, all ordered pairs on mixed layouts, simulated sequences up to 6) with the model state after each prefix; each is replayed into modfile (render, parse, apply, Cleanup, Format, strict re-parse) and compared as multisets with comment identities of untouched entries; random sessions of 3-15 operations are replayed through the model by TLC (ModfileModelTrace).",
        "note": "Trusted: the transcription of the documented operation semantics, the layout renderer, the small argument vocabulary. Directive order inside a file is not compared (keyed collections). A rationale is compared by containment (collapse of a commented block may add the block's comment).",
        "technique": TLA + "operation model, spec-generated sessions replayed into the code and recorded sessions trace-validated",
    },
    "C15": {
        "text": "Same behaviours as C08 with the predicate StructSyntaxAgree: after each prefix + Cleanup the exported fields of File/WorkFile equal, as multisets including indirect flags and rationales, the strict parse of the formatted file, and no list holds a cleared placeholder; evaluated by the harness on generated sessions and by TLC (ModfileModel!Differ) on recorded sessions. Two rationale divergences are recorded as known findings, four defects were repaired.",
        "note": "Trusted: the projection functions of the harness (exported fields / re-parse). Bounds as C08.",
        "technique": TLA + "struct-versus-reparse predicate over spec-generated and recorded edit sessions",
    },
    "C16": {
        "text": "Model-based: the bulk setters are operators of ModfileModel (exact requested set, one entry per path); TLC enumerates requirement/use layouts x go versions x requested lists, checks exactness on the model and prints each case; the harness applies the real setter and records the output's block structure, which TLC judges with the property's predicates (ExactSet, BlockSorted with the three documented comparators over Semver.tla, OnePerPath, CommentsKept, Separated); random files with up to 24 requirements likewise. One finding recorded (go directives with a pre-release suffix), the SetUse defect repaired.",
        "note": "Trusted: layout renderer, block-structure projection, the reading of 'one uncommented line or block'. Bounds: path/version vocabulary, layout family.",
        "technique": TLA + "spec-generated (layout, request) cases replayed into the setters, output block structures trace-validated against TLA+ layout predicates",
    },
    "C02": {
        "text": "Model-based with an independent oracle: ModfileSyntax.tla is a character-level lexer (with positions) and statement parser written from the grammar; TLC enumerates every sequence of up to 4/5 lexical items (12 classes) and 3/4 items (28 items) plus a transition cover, printing the specification's verdict, statements, tokens and comment texts; the harness requires that the real parser's re-parse of its own formatted output equals the specification's reading of the input and that formatting is idempotent (4 M inputs replayed with zero drift on the unchanged tree). Well-formed layouts in five text variants, with and without a version fixer, must keep their directive values through formatting. Mutated fixtures are parsed by the specification under TLC. The directive-layer inputs of ModfileDirectiveGen go through the same round trip; well-formed layouts are also rendered with directory arguments ending in comment openers, comments with trailing blanks, short versions and the module directive as a block.",
        "note": "Trusted: the transcription of the lexical grammar and of unicode.IsSpace/IsPrint for the generated character set. Not modelled: comment attachment and the printer's layout (the property lets attachment move).",
        "technique": TLA + "independent lexer/parser specification; spec-generated inputs replayed through parse-format-parse; recorded mutated inputs trace-validated",
    },
    "C20": {
        "text": "Same inputs as C02 including all rejected ones and an error-directed item family, with the predicates of C20: no panic / hang / internal error (watchdog and recover), every position in trees and errors recomputed from the byte offset and compared with the specification lexer's positions, ParseLax accepts every layout Parse accepts with the same module/go/require/retract values and ignores appended unknown directives and blocks, ModulePath agrees with the strict parser (one known finding: a block line whose first token is 'module'). Directive layer: every verb followed by every sequence of up to 3/4 words, as a line, as a one-line block and after a module line (ModfileDirectiveGen); Parse, ParseLax and ParseWork are called on every generated and recorded input under a watchdog.",
        "note": "Trusted: as C02. Strict acceptance of the layouts is observed from the code, not predicted by a directive-level specification; the lax/strict and ModulePath clauses are relations between functions of the code, checked on spec-generated layouts.",
        "technique": TLA + "spec-generated inputs (accepted and rejected) with predicted positions replayed into the parsers; recorded mutated inputs trace-validated",
    },
    "C06": {
        "text": "Bounded-exhaustive with an independent oracle: ModulePath.tla states the documented rules declaratively at character level; TLC checks the inclusions module <= import <= file, the split laws and Check = conjunction on every concatenation of up to 3/4 fragments of a rule-directed vocabulary, sweeps every printable ASCII character at five positions, enumerates glob lists, and every case is replayed into the module package; mutated real-world paths and random globs are re-evaluated under TLC. One defect found and repaired (gopkg.in/x.v-unstable).",
        "note": "Trusted: the transcription of the documentation (with the pinned-test reading for interior double dots), path.Match as a recursive definition, unicode.IsLetter for the generated characters only.",
        "technique": TLA + "declarative path rules; spec-generated strings replayed into the code, recorded calls trace-validated",
    },
    "C11": {
        "text": "Bounded-exhaustive: Escape.tla defines Esc/Unesc and validity; TLC checks no-upper-case, Unesc(Esc(s)) = s and 'unescaping succeeds only on escapes of valid inputs' on every string over a 12-letter alphabet up to length 4/6 (bare and as a path below x.y/), and each string is replayed into the four escape functions as path, version, escaped path and escaped version; the harness additionally hashes lower-cased escapes of all valid inputs for collisions; recorded calls are re-evaluated under TLC.",
        "note": "Injectivity ignoring case is derived (outputs have no upper-case letters and Unesc inverts Esc) and cross-checked by hashing on the Go side. Bounds: alphabet and length.",
        "technique": TLA + "escape encoding specification; spec-generated strings replayed into the code, recorded calls trace-validated",
    },
    "C18": {
        "text": "Bounded-exhaustive: Pseudo.tla builds pseudo-versions by the five documented forms and inverts them; TLC checks recognition, recovery of base (with build suffix), time and revision, base < pseudo < next release and time monotonicity for all revision pairs over 19 bases x 5/8 times x 6 revisions; each case is replayed into PseudoVersion, IsPseudoVersion, PseudoVersionBase/Time/Rev and semver.Compare with zones and sub-second parts added by the harness; random bases, times (years 1-9999) and zones are recomputed under TLC.",
        "note": "Trusted: Go's calendar and time-zone arithmetic; the Semver specification (C04). Bounds: the base/time/revision vocabulary of the exhaustive part.",
        "technique": TLA + "pseudo-version specification over the semver specification; generated cases replayed, recorded calls trace-validated",
    },
    "C05": {
        "text": "Bounded-exhaustive: ModZip.tla models classification, creation, the archive check and extraction over paths as character sequences; TLC checks the create / check / extract round trip and soundness of valid files on every list of up to 2/3 files over a curated path set x modes x sizes x go versions; each list goes through the real zip.Create, and the bytes produced through the real zip.CheckZip and zip.Unzip, with the extracted tree compared byte for byte with the files reported valid; random lists of up to 30 files are recorded and re-derived under TLC. Every creatable list is also created for a second module (upper-case letters, /v2, pre-release version); the produced archive is checked against the documented restrictions with strings.EqualFold as an oracle independent of the package's collision checker.",
        "note": "Module example.com/m v1.0.0 only; sizes are classes (a few bytes / 16 MiB + 1); archive/zip and the file system are trusted.",
        "technique": TLA + "module-zip specification; generated file lists replayed through Create, CheckZip, Unzip; recorded random lists trace-validated",
    },
    "C12": {
        "text": "Bounded-exhaustive: ModZip.tla models CheckZip and extraction; TLC checks that whatever may be extracted has clean relative well-formed names; every archive of up to 3/4 raw entries over 28 hostile entry variants is written with raw headers and given to the real zip.CheckZip and zip.Unzip inside a sentinel directory whose content (parent and siblings of the target) must be unchanged afterwards, with verdicts, lists and extracted tree equal to the specification's; random archives of up to 12 entries are recorded and re-derived under TLC. Total-size limit (declared sizes of 500 MiB + 1 and 2^63), zero-size lies, and a non-empty target whose names are links leading out of it.",
        "note": "Size lies are rejected by extraction but not by the header-only zip check (read as part of what extraction enforces). Only the sentinel directory is observed, not the whole file system. The 500 MiB total limit is not exercised.",
        "technique": TLA + "module-zip specification; generated hostile archives replayed through CheckZip and Unzip in a sentinel directory; recorded random archives trace-validated",
    },
    "C17": {
        "text": "Bounded-exhaustive: ModZip.Classify is the documented rule list in order, with both vendor variants; TLC checks exactly-one-list and order independence on every list of up to 2/3 files; each list is classified by the real zip.CheckFiles and compared; lists of regular files and directories are also materialized as trees and CheckDir / CreateFromDir compared with CheckFiles / Create on the list (verdict, entries, bytes, reports); random lists of up to 30 files are recorded and re-derived under TLC. The directory is also given in four unclean spellings.",
        "note": "Directory side only for materializable lists without VCS metadata; which of two colliding files is reported depends on order by design (set equality is checked when nothing collides).",
        "technique": TLA + "module-zip classification specification; generated lists replayed through CheckFiles, CheckDir, Create, CreateFromDir; recorded random lists trace-validated",
    },
    "C19": {
        "text": "Bounded-exhaustive: DirHash.tla models the summary at text level with an abstract fixed-width digest; TLC checks order independence under all permutations, sortedness, injectivity against every one-file change/removal and newline refusal for all sets of up to 3/4 files over stress names; each set is hashed by dirhash.Hash1 in every listing order and compared with the formula written out in the harness over the specification's summary; random sets are recomputed under TLC; HashZip = HashDir = formula is evaluated on the archives produced in the module-zip replays. Two hashes over overlapping views of one listing, the second started from the first one's open callback; names with newlines in first and last position, percent signs, and unclean forms.",
        "note": "Trusted: SHA-256, hex and base64; the harness's independent rendering of the documented formula.",
        "technique": TLA + "summary specification; generated file sets replayed in every listing order, recorded hashes trace-validated",
    },
    "C07": {
        "text": "Bounded-exhaustive: Note.tla models Sign and Open at line level with signatures as facts; TLC checks the sign/open round trip with the documented partition and, over every single structural mutation of every signed message, that a verified signature was made by a known key over exactly the returned text and that the text never changes; all messages (89 k quick) are made concrete with real Ed25519 keys, an ambiguous key pair and a lying Verifiers, behind recording verifiers, and opened by note.Open; a byte-level mutation sweep is abstracted to lines independently and validated by NoteTrace, with the property-level flag (every listed signature was accepted by its verifier over the returned text) taken from the recorders. Re-signing an opened note (Resign) is generated and replayed through the real Sign and Open; the limit of 100 signature lines is probed on both sides.",
        "note": "Trusted: Ed25519, base64, the harness's independent line splitter used for abstraction. Bounds: text shapes, key sets, one mutation per message in the exhaustive part.",
        "technique": TLA + "line-level note specification; spec-generated messages made concrete and opened by the code; recorded byte-mutated opens trace-validated",
    },
}

NOT_APPLICABLE = {}
for _p in ["C%02d" % i for i in range(1, 21)]:
    if _p not in CHECKS:
        NOT_APPLICABLE[_p] = "check under construction in this round (specification planned in DESIGN.md section 5); not claimed until its quick command runs green"

for e in ENGINES:
    e["serves_properties"] = sorted(CHECKS)
