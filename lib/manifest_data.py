"""Single source for MANIFEST.json (bin/mkmanifest)."""

HOOK_COMMITS = []

ENGINES = [
    {"name": "tlc", "path": "/verif/spec", "kind_free_text": "TLA+ specifications checked with TLC: E1 design check, E2 case/behaviour generation, E3 trace validation",
     "serves_properties": []},
    {"name": "vh", "path": "/verif/harness", "kind_free_text": "Go harness: replays TLC-generated cases into golang.org/x/mod and records real executions as ndjson traces",
     "serves_properties": []},
]

NOTES = ("Every check: TLC explores the TLA+ specification (E1), TLC-generated cases/behaviours are replayed into the real "
         "packages (E2), executions recorded from the real packages are validated against the specification by TLC (E3). "
         "VIOLATION only for behaviour of the real code, reproduced in a fresh process. See DESIGN.md.")

TLA = "explicit TLA+ specification model-checked with TLC; "

CHECKS = {
    "C04": {
        "text": "Bounded-exhaustive: the specification's SemVer preorder is model-checked on a version vocabulary (all pairs, triples on a sub-vocabulary); every string over a 10-letter alphabet up to length 5/6, a transition cover of the grammar and the ranked vocabulary are replayed into semver/module (Compare on all pairs); recorded random calls are re-evaluated by TLC.",
        "note": "Trusted: the TLA+ transcription of the documented grammar and SemVer section 11; TLC; numbers compared as padded digit strings. Bounds: alphabet and length of enumerated strings, vocabulary size.",
        "technique": TLA + "spec-generated cases replayed into the code and recorded calls trace-validated against the spec",
    },
}

NOT_APPLICABLE = {}
for _p in ["C%02d" % i for i in range(1, 21)]:
    if _p not in CHECKS:
        NOT_APPLICABLE[_p] = "check under construction in this round (specification planned in DESIGN.md section 5); not claimed until its quick command runs green"

for e in ENGINES:
    e["serves_properties"] = sorted(CHECKS)
