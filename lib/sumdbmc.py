"""Generates model-checking wrappers (module + cfg) for SumdbClient.tla and runs them in parallel."""
import concurrent.futures as cf
import json
import os

from vcore import Infra, log

ALL_FAULTS = ["forged", "otherid", "stale", "badsig", "garbage", "malformed", "neterr",  # ("otherview" is used by C13's configurations only)
              "tjunk", "tswap", "ttruncate", "textend", "tforged", "cache"]


def tla_set(xs, quote=True):
    return "{" + ", ".join(('"%s"' % x) if quote and isinstance(x, str) else str(x) for x in xs) + "}"


def tla_fun(d, val=lambda v: str(v)):
    items = ['"%s" :> %s' % (k, val(v)) for k, v in d.items()]
    return "(" + " @@ ".join(items) + ")"


def tla_seq(xs):
    return "<<" + ", ".join(str(x) for x in xs) + ">>"


def head(h):
    if h is None:
        return "EmptyMsg"
    return 'GoodHead("%s", %d)' % (h[0], h[1])


INVS_SAFETY = ["ResultAuthentic", "CacheAuthentic", "ConfigAuthentic", "HonestLive", "SecurityIsReal", "SecurityHasBoth"]


def make(name, clients, client_of, lookups, h, prefix, size_a, size_b, served, max_grow=0, serve_tls=("A",), max_switch=0, coarse=True,
         max_faults=0, fault_kinds=(), tile_detail=True, partial_gone=False, max_restarts=0, init_cfgs=(None,), skip=(),
         invariants=INVS_SAFETY, properties=("ConfigChain", "MemChain"), emit=True, view=False, extra_invs=(), kind="behaviour", emit_cond="TRUE",
         scenario=None, init_disk_full=False, max_env=0, init_lookups=()):
    """Returns (module_text, cfg_text)."""
    mod = ["---- MODULE %s ----" % name, "EXTENDS SumdbClient, Json",
           "MC_ClientOf == " + tla_fun(client_of, lambda v: '"%s"' % v),
           "MC_Lookups == " + tla_fun(lookups, tla_seq),
           "MC_InitServed == " + tla_fun(served),
           "MC_InitCfgs == {" + ", ".join(head(x) for x in init_cfgs) + "}",
           'Interesting == \\E i \\in 1..Len(hist) : (hist[i].op = "WriteConfig" /\\ hist[i].conflict) \\/ (hist[i].op = "Hook" /\\ hist[i].point = "install" /\\ ~hist[i].ok)',
           # scenarios: shapes of history that random simulation rarely produces; explored exhaustively under a view that
           # keeps one history per (state, scenario flag)
           # a thread flushes its head to the configuration although the configuration already holds a larger one than the
           # thread itself installed (it was overtaken between its install and its flush)
           'OvertakenFlush == \\E j \\in 1..Len(hist) : hist[j].op = "WriteConfig" /\\ ~hist[j].conflict /\\',
           '    \\E i \\in 1..(j - 1) : hist[i].op = "Hook" /\\ hist[i].point = "install" /\\ hist[i].ok /\\ hist[i].t = hist[j].t /\\ hist[i].n < hist[j].old.n /\\',
           '        ~\\E k \\in (i + 1)..(j - 1) : hist[k].op = "Hook" /\\ hist[k].point = "install" /\\ hist[k].ok /\\ hist[k].t = hist[j].t',
           # a split view meets concurrency inside one client: responses from two timelines and an install that had to be retried
           'ForkRace == (\\E i \\in 1..Len(hist) : hist[i].op = "Hook" /\\ hist[i].point = "install" /\\ ~hist[i].ok) /\\',
           '    \\E i, j \\in 1..Len(hist) : hist[i].op = "ReadRemote" /\\ hist[j].op = "ReadRemote" /\\ hist[i].data.kind = "resp" /\\ hist[j].data.kind = "resp" /\\',
           '        hist[i].data.head.tl # hist[j].data.head.tl',
           # a compare-and-swap of the configuration that lost, after which the file holds a larger head than the loser wanted to write
           'CasLost == \\E i \\in 1..Len(hist) : hist[i].op = "WriteConfig" /\\ hist[i].conflict /\\',
           '    \\E j \\in (i + 1)..Len(hist) : hist[j].op = "ReadConfig" /\\ hist[j].t = hist[i].t /\\ hist[j].file = "latest" /\\ hist[j].head.n > hist[i].new.n',
           # the same thread loses its compare-and-swap three times (to writers outside the clients of the model)
           'CasLostThrice == \\E t \\in Threads : Cardinality({i \\in 1..Len(hist) : hist[i].op = "WriteConfig" /\\ hist[i].conflict /\\ hist[i].t = t}) >= 3',
           'ConflictCount == Cardinality({i \\in 1..Len(hist) : hist[i].op = "WriteConfig" /\\ hist[i].conflict})',
           'ScenView == <<View, %s>>' % (scenario or "TRUE"),
           'Emit == (AllDone /\\ %s) => PrintT(ToJson([w |-> "client", k |-> "%s",' % (emit_cond, kind),
           '    in |-> [h |-> H, prefix |-> Prefix, sizeA |-> SizeA, sizeB |-> SizeB, served |-> InitServed, cfg0 |-> hist[1].head,',
           '            clientOf |-> ClientOf, skip |-> Skip, disk0 |-> InitDiskFull, lookups0 |-> InitLookups, ops |-> hist],',
           '    exp |-> [results |-> results, cfg |-> cfg, files |-> DOMAIN disk]]))',
           "===="]
    invs = list(invariants) + list(extra_invs) + (["Emit"] if emit else [])
    cfg = ["CONSTANTS",
           "  Clients = " + tla_set(clients),
           "  Threads = " + tla_set(list(client_of)),
           "  H = %d" % h, "  Prefix = %d" % prefix, "  SizeA = %d" % size_a, "  SizeB = %d" % size_b,
           "  MaxGrow = %d" % max_grow, "  ServeTls = " + tla_set(serve_tls), "  MaxSwitch = %d" % max_switch, "  MaxEnv = %d" % max_env, "  Coarse = %s" % ("TRUE" if coarse else "FALSE"), "  MaxFaults = %d" % max_faults,
           "  FaultKinds = " + tla_set(fault_kinds), "  TileDetail = %s" % ("TRUE" if tile_detail else "FALSE"), "  PartialMayBeGone = %s" % ("TRUE" if partial_gone else "FALSE"), "  InitDiskFull = %s" % ("TRUE" if init_disk_full else "FALSE"), "  InitLookups = " + tla_set(init_lookups, quote=False),
           "  MaxRestarts = %d" % max_restarts, "  Skip = " + tla_set(skip, quote=False),
           "  ClientOf <- MC_ClientOf", "  Lookups <- MC_Lookups", "  InitServed <- MC_InitServed", "  InitCfgs <- MC_InitCfgs",
           "INIT Init", "NEXT Next"]
    if scenario:
        cfg.append("VIEW ScenView")
    elif view:
        cfg.append("VIEW View")
    if invs:
        cfg.append("INVARIANTS " + " ".join(invs))
    if properties:
        cfg.append("PROPERTIES " + " ".join(properties))
    return "\n".join(mod) + "\n", "\n".join(cfg) + "\n"


def run_configs(ctx, configs, workers_each=2, parallel=8, timeout=1800, label="SC", simulate=None, depth=None):
    """configs: list of dicts of keyword arguments for make() (without name). Runs TLC on each; returns
    the path of a file with all printed behaviours concatenated, and the list of TlcResults."""
    gen = os.path.join(ctx.work, "gen-" + label)
    os.makedirs(gen, exist_ok=True)
    jobs = []
    for i, kw in enumerate(configs):
        name = "%s%03d" % (label, i)
        mod, cfg = make(name, **kw)
        mp, cp = os.path.join(gen, name + ".tla"), os.path.join(gen, name + ".cfg")
        open(mp, "w").write(mod)
        open(cp, "w").write(cfg)
        jobs.append((name, mp, cp))

    def run(job):
        name, mp, cp = job
        return ctx.tlc(name, name, workers=workers_each, files={name + ".tla": mp, name + ".cfg": cp}, timeout=timeout,
                       name=name, simulate=simulate, depth=depth)

    with cf.ThreadPoolExecutor(max_workers=parallel) as ex:
        results = list(ex.map(run, jobs))
    out = os.path.join(ctx.work, "behaviours-%s.out" % label)
    with open(out, "w") as fo:
        for r in results:
            with open(r.outfile, errors="replace") as fi:
                for line in fi:
                    if line.startswith('"'):
                        fo.write(line)
    # fold the per-config engine entries into one
    gen_total = sum(r.generated for r in results)
    dist_total = sum(r.distinct for r in results)
    for job in jobs:
        ctx.engines.pop(job[0], None)
    ctx.engines[label] = {"configs": len(jobs), "generated": gen_total, "distinct": dist_total,
                          "wall_s": round(max(r.wall for r in results), 1) if results else 0}
    del ctx.tlc_cmds[-len(jobs) + 1:]
    return out, results


# ---------------------------------------------------------------- configuration families
def one(lookups, h, na, **kw):
    d = dict(clients=["c1"], client_of={"t1": "c1"}, lookups={"t1": list(lookups)}, h=h, prefix=0, size_a=na, size_b=0,
             served={"A": na})
    d.update(kw)
    return d


def keys_of(na):
    if na <= 4:
        return list(range(na))
    return sorted({0, 1, na // 2, na - 2, na - 1})


def c01_configs(tier):
    q = tier == "quick"
    cfgs = []
    sizes = range(1, 7) if q else range(1, 13)
    heights = (1, 2) if q else (1, 2, 3)
    # (a) one lookup, one corrupted response anywhere (network or cache), every fault kind
    for na in sizes:
        for h in heights:
            for k in keys_of(na):
                cfgs.append(one([k], h, na, max_faults=1, fault_kinds=ALL_FAULTS))
    # (b) two lookups with a restart between them (warm cache and stored head), a server that drops partial tiles
    for na in ((3, 5) if q else (3, 4, 5, 6, 7, 9)):
        for h in heights:
            ks = keys_of(na)
            pairs = [(ks[0], ks[-1]), (ks[-1], ks[0]), (ks[len(ks) // 2], ks[len(ks) // 2])]
            for a, b in pairs:
                cfgs.append(one([a, b], h, na, max_faults=1, fault_kinds=ALL_FAULTS, max_restarts=1, partial_gone=True))
    # (c) two corrupted responses: forged record together with a forged or damaged tile
    two = ["forged", "tforged", "tjunk", "stale", "cache", "ttruncate"]
    for na in ((4, 7) if q else (3, 4, 5, 6, 7, 8)):
        for h in ((2,) if q else (1, 2, 3)):
            for k in ((0,) if q else (0, na - 1)):
                cfgs.append(one([k], h, na, max_faults=2, fault_kinds=two))
    if not q:
        for na in (4, 6, 7):
            cfgs.append(one([0], 2, na, max_faults=3, fault_kinds=["forged", "tforged", "tjunk"]))
    # (d) a stored head from an earlier run: older than, equal to, or ahead of what the server presents; log grows meanwhile
    for na, m in (((5, 2), (5, 5)) if q else ((5, 2), (5, 4), (5, 5), (8, 3), (8, 7), (9, 9))):
        for h in heights:
            cfgs.append(one([0, na - 1], h, na, max_faults=1, fault_kinds=ALL_FAULTS, init_cfgs=[("A", m)]))
    for na, served in (((6, 4),) if q else ((6, 4), (9, 5), (7, 6))):
        for h in heights:
            # stored head ahead of the served one; the served one grows while lookups run
            cfgs.append(dict(clients=["c1"], client_of={"t1": "c1"}, lookups={"t1": [0, 1]}, h=h, prefix=0, size_a=na, size_b=0,
                             served={"A": served}, max_grow=2, max_faults=1, fault_kinds=["stale", "forged", "tjunk", "cache"],
                             init_cfgs=[("A", na), None]))
    # (e) a server that has moved on: it signs a head smaller than its log, no longer has the partial tiles of that size, and
    #     the full tile it serves instead is damaged (possibly only beyond the part the client needs)
    tilefaults = ["tjunk", "tswap", "ttruncate", "textend", "tforged"]
    for na, served, h, k in (((8, 6, 2, 5), (5, 3, 1, 2)) if q else ((8, 6, 2, 5), (8, 7, 2, 6), (5, 3, 1, 2), (9, 5, 2, 4), (12, 10, 3, 9))):
        cfgs.append(dict(clients=["c1"], client_of={"t1": "c1"}, lookups={"t1": [k]}, h=h, prefix=0, size_a=na, size_b=0,
                         served={"A": served}, max_faults=1, fault_kinds=tilefaults, partial_gone=True))
    # (f) a cache left by a client that went further: every complete tile is there, the partial tiles this client needs are not
    for na, served, h, k in (((8, 6, 2, 5), (5, 3, 1, 2), (8, 7, 2, 0)) if q else ((8, 6, 2, 5), (8, 7, 2, 6), (8, 7, 2, 0), (5, 3, 1, 2), (9, 5, 2, 4), (12, 10, 3, 9), (16, 13, 2, 12))):
        cfgs.append(dict(clients=["c1"], client_of={"t1": "c1"}, lookups={"t1": [k, 0]}, h=h, prefix=0, size_a=na, size_b=0,
                         served={"A": served}, max_faults=0, fault_kinds=[], init_disk_full=True, max_restarts=1))
    # (g) a record cache kept from an earlier run while the stored head was lost or restored from an older copy: honest lookup files
    #     under a head the configuration does not know yet (with and without one corrupted response)
    for na, h in (((3, 1), (5, 2)) if q else ((3, 1), (5, 2), (4, 2), (7, 2), (9, 3))):
        cfgs.append(one([na - 1, 0, 1], h, na, init_lookups=(0, na - 1), init_cfgs=[None, ("A", 1)], max_faults=0, fault_kinds=[], max_restarts=1))
        cfgs.append(one([na - 1, 0], h, na, init_lookups=(0, na - 1), init_cfgs=[None, ("A", 1)], max_faults=1, fault_kinds=ALL_FAULTS))
    return cfgs


def c13_configs(tier):
    q = tier == "quick"
    cfgs = []
    forks = [(0, 2, 2), (1, 3, 3), (2, 3, 4)] if q else [(p, p + a, p + b) for p in range(0, 4) for a in (1, 2, 3) for b in (1, 2, 3)]
    heights = (1, 2)
    for (p, na, nb) in forks:
        top = min(na, nb) - 1
        for h in heights:
            base = dict(h=h, prefix=p, size_a=na, size_b=nb, served={"A": na, "B": nb}, serve_tls=("A", "B"), max_switch=2)
            # one client across a restart, cold and warm stored head (from either timeline)
            lk = [0, top] if top > 0 else [0, 0]
            cfgs.append(dict(clients=["c1"], client_of={"t1": "c1"}, lookups={"t1": lk + ([top] if not q else [])}, max_restarts=1,
                             init_cfgs=[None, ("A", na)] + ([("B", nb)] if not q else []), **base))
            # two clients sharing the configuration and the cache, strictly one lookup at a time
            cfgs.append(dict(clients=["c1", "c2"], client_of={"t1": "c1", "t2": "c2"}, lookups={"t1": [0, top], "t2": [top]},
                             init_cfgs=[None], **base))
    # a cache shared with a process that followed the other view: every complete tile of view A is on disk, the client's
    # stored head is on A, the server presents B (tile contents of the two views meet in the client's tile reader)
    for (p, n, h, m) in ([(2, 11, 2, 3)] if q else [(2, 11, 2, 3), (2, 7, 2, 3), (1, 7, 1, 2), (3, 13, 2, 5), (2, 15, 2, 3)]):
        cfgs.append(dict(clients=["c1"], client_of={"t1": "c1"}, lookups={"t1": [0, 1]}, h=h, prefix=p, size_a=n, size_b=n, served={"A": n, "B": n},
                         serve_tls=("B",), max_switch=0, init_cfgs=[("A", m)], init_disk_full=True))
    # a record cache written by a process that followed the other view (and one response from the other view): the stored head is on
    # A, the server serves A, the cached lookup file carries a genuine head of B - also for records inside the common prefix
    for (p, na, nb) in ([(2, 4, 5)] if q else [(2, 4, 5), (1, 3, 3), (3, 5, 4)]):
        cfgs.append(dict(clients=["c1"], client_of={"t1": "c1"}, lookups={"t1": [0, p]}, h=2, prefix=p, size_a=na, size_b=nb, served={"A": na, "B": nb},
                         serve_tls=("A",), max_switch=0, init_cfgs=[("A", na), None], max_faults=1, fault_kinds=("otherview", "cache")))
    if not q:
        # smaller served heads that grow while the fork is presented
        for (p, na, nb) in [(1, 3, 3), (2, 4, 4)]:
            for h in heights:
                cfgs.append(dict(clients=["c1"], client_of={"t1": "c1"}, lookups={"t1": [0, 1, 0]}, h=h, prefix=p, size_a=na, size_b=nb,
                                 served={"A": p + 1, "B": p + 1}, serve_tls=("A", "B"), max_switch=2, max_grow=2, max_restarts=1,
                                 init_cfgs=[None]))
    return cfgs


def c13_scenario_configs(tier):
    """A split-view server and two goroutines of one client (schedules, replayed deterministically)."""
    q = tier == "quick"
    cfgs = []
    for (p, na, nb) in ([(1, 2, 3), (1, 3, 2)] if q else [(1, 2, 3), (1, 3, 2), (1, 3, 3), (2, 3, 4), (0, 2, 2), (2, 4, 3)]):
        top = min(na, nb) - 1
        cfgs.append(dict(clients=["c1"], client_of={"t1": "c1", "t2": "c1"}, lookups={"t1": [top], "t2": [0]}, h=2, prefix=p, size_a=na, size_b=nb,
                         served={"A": na, "B": nb}, serve_tls=("A", "B"), max_switch=1, coarse=False, tile_detail=False, kind="schedule",
                         scenario="ForkRace", emit_cond="ForkRace"))
    return cfgs


def c13_env_configs(tier):
    """Outside writers win the swap three times while the stored head is still inside the common prefix of a split view; then the
    client restarts and the server shows the other view: the head the client accepted before the restart must have reached the file."""
    return [dict(clients=["c1"], client_of={"t1": "c1"}, lookups={"t1": [0, 1]}, h=2, prefix=3, size_a=5, size_b=5,
                 served={"A": 5, "B": 5}, serve_tls=("A", "B"), max_switch=1, max_restarts=1, max_env=3, coarse=True, tile_detail=True,
                 kind="behaviour", scenario="ConflictCount",
                 emit_cond='CasLostThrice /\\ (\\E i \\in 1..Len(hist) : hist[i].op = "Restart")')]


INVS_C14 = ["ResultAuthentic", "HonestLive", "ConfigAuthentic", "FetchExclusive", "SkipSilentState", "QuiescentConfig", "CacheAuthentic"]


def c14_config(threads, lookups, na, served, h=2, max_grow=2, skip=(), **kw):
    clients = sorted(set(threads.values()))
    d = dict(clients=clients, client_of=threads, lookups=lookups, h=h, prefix=0, size_a=na, size_b=0, served={"A": served},
             max_grow=max_grow, tile_detail=False, coarse=False, skip=skip, invariants=INVS_C14, kind="schedule")
    d.update(kw)
    return d


def c14_mc_configs(tier):
    """Exhaustive interleaving exploration (E1): VIEW hides the history, nothing is printed."""
    q = tier == "quick"
    cfgs = [
        # one client, two threads: same key (fetch once), different keys (install race)
        c14_config({"t1": "c1", "t2": "c1"}, {"t1": [0], "t2": [0]}, 3, 1, view=True, emit=False),
        c14_config({"t1": "c1", "t2": "c1"}, {"t1": [0], "t2": [1]}, 2, 1, max_grow=0, view=True, emit=False),
        c14_config({"t1": "c1", "t2": "c1"}, {"t1": [0, 1], "t2": [1, 2]}, 3, 2, max_grow=1, view=True, emit=False, skip=(2,)),
        # two clients, one thread each: configuration compare-and-swap race
        c14_config({"t1": "c1", "t2": "c2"}, {"t1": [0, 1], "t2": [1, 0]}, 3, 2, max_grow=1, view=True, emit=False),
    ]
    if not q:
        cfgs += [
            # two clients with two goroutines each (5 M distinct states with a fixed head; with a growing head the
            # search did not finish in an hour)
            c14_config({"t1": "c1", "t2": "c1", "t3": "c2", "t4": "c2"}, {"t1": [0], "t2": [1], "t3": [1], "t4": [0]}, 2, 2, max_grow=0, view=True, emit=False),
            c14_config({"t1": "c1", "t2": "c1", "t3": "c1"}, {"t1": [0], "t2": [1], "t3": [0]}, 3, 1, max_grow=2, view=True, emit=False),
            c14_config({"t1": "c1", "t2": "c2", "t3": "c3"}, {"t1": [0], "t2": [1], "t3": [2]}, 3, 1, max_grow=2, view=True, emit=False),
        ]
    return cfgs


def c14_race_configs(tier):
    """Schedules in which a configuration write conflicts or an install has to be retried (printed only then)."""
    return [
        c14_config({"t1": "c1", "t2": "c2"}, {"t1": [0], "t2": [1]}, 3, 2, max_grow=1, emit_cond="Interesting"),
        c14_config({"t1": "c1", "t2": "c2"}, {"t1": [0, 1], "t2": [1, 2]}, 4, 2, max_grow=2, emit_cond="Interesting"),
        c14_config({"t1": "c1", "t2": "c1"}, {"t1": [0], "t2": [1]}, 3, 2, max_grow=1, emit_cond="Interesting"),
        c14_config({"t1": "c1", "t2": "c1", "t3": "c2"}, {"t1": [0], "t2": [1], "t3": [2]}, 4, 2, max_grow=2, emit_cond="Interesting"),
        # heads that do not yet cover the other lookup's record (served head of size 1, grown on demand)
        c14_config({"t1": "c1", "t2": "c1"}, {"t1": [0], "t2": [1]}, 2, 1, max_grow=0, emit_cond="Interesting"),
        c14_config({"t1": "c1", "t2": "c1", "t3": "c1"}, {"t1": [0], "t2": [1], "t3": [2]}, 3, 1, max_grow=0, emit_cond="Interesting"),
        c14_config({"t1": "c1", "t2": "c1"}, {"t1": [0, 0], "t2": [0, 1]}, 2, 1, max_grow=1),
    ]


def c14_scenario_configs(tier):
    """Schedules of a given shape, found by exhaustive search under a view (one history per state and scenario flag)."""
    return [
        # t1 is overtaken between installing its head and flushing it: t2 completes a lookup with a larger head and starts another
        c14_config({"t1": "c1", "t2": "c1"}, {"t1": [0], "t2": [1, 2]}, 4, 2, max_grow=2, scenario="OvertakenFlush", emit_cond="OvertakenFlush"),
        # two clients sharing the configuration file: a compare-and-swap that loses against a larger head, a smaller one, an equal one
        c14_config({"t1": "c1", "t2": "c2"}, {"t1": [0], "t2": [1]}, 3, 2, max_grow=1, scenario="CasLost", emit_cond="CasLost"),
        c14_config({"t1": "c1", "t2": "c2"}, {"t1": [0], "t2": [1, 2]}, 4, 2, max_grow=2, scenario="CasLost", emit_cond="CasLost"),
    ] + env_writer_configs(tier)


def env_writer_configs(tier):
    """Other honest processes (outside the model's clients) win the compare-and-swap of the configuration three times in a row
    while a thread stands between its read and its swap (EnvStore): the lookup still succeeds and the file ends at its head."""
    return [
        c14_config({"t1": "c1"}, {"t1": [0]}, 5, 5, max_grow=0, init_cfgs=[("A", 1)], max_env=3, scenario="ConflictCount", emit_cond="CasLostThrice"),
        c14_config({"t1": "c1", "t2": "c1"}, {"t1": [0], "t2": [1]}, 5, 5, max_grow=0, init_cfgs=[None], max_env=3, scenario="ConflictCount", emit_cond="CasLostThrice"),
    ]


def c14_sim_configs(tier):
    """Schedules for replay (E2): random behaviours by TLC -simulate, each printed when all lookups are done."""
    return [
        c14_config({"t1": "c1", "t2": "c1"}, {"t1": [0, 1], "t2": [1, 0]}, 4, 2, max_grow=2),
        c14_config({"t1": "c1", "t2": "c2"}, {"t1": [0, 2], "t2": [1, 0]}, 4, 2, max_grow=2),
        c14_config({"t1": "c1", "t2": "c1", "t3": "c2", "t4": "c2"}, {"t1": [0, 3], "t2": [1], "t3": [1, 0], "t4": [2]}, 5, 2, max_grow=3, skip=(3,)),
        c14_config({"t1": "c1", "t2": "c1", "t3": "c1", "t4": "c2"}, {"t1": [0], "t2": [0, 1], "t3": [2, 0], "t4": [2, 1]}, 6, 3, max_grow=3),
        # a private path is the first thing a client is asked for (before the client has initialised itself)
        c14_config({"t1": "c1", "t2": "c1", "t3": "c2"}, {"t1": [2, 0], "t2": [2, 1], "t3": [2]}, 3, 2, max_grow=1, skip=(2,)),
    ]
