"""Core of the /verif orchestrator: TLC runner, harness runner, verdicts, evidence.

Verdict policy (DESIGN.md 3.4):
  exit 0  every engine ran, nothing the real code did violates the property
  exit 1  VIOLATION property=<id> replay=<path>   (real code, reproduced)
  exit 2  infrastructure failure (TLC/SANY error, build failure, dead generator, ...)
"""
import json
import os
import re
import shutil
import subprocess
import sys
import time

VERIF = os.path.dirname(os.path.dirname(os.path.abspath(__file__)))
REPO = os.environ.get("VERIF_REPO", "/repo")
SPEC = os.path.join(VERIF, "spec")
BUILD = os.path.join(VERIF, ".build")
# evidence/ and replays/ of runs against scratch trees (seeded changes) go elsewhere
OUT = os.environ.get("VERIF_OUT", VERIF)
WORK = os.path.join(VERIF, ".work")
TLA_CP = "/opt/veriftools/tla/tla2tools.jar:/opt/veriftools/tla/CommunityModules-deps.jar"

GOENV = {
    "GOFLAGS": "-mod=mod",
    "GOPROXY": "off",
    "GOSUMDB": "off",
    "GOTOOLCHAIN": "local",
}


class Infra(Exception):
    """Infrastructure failure -> exit 2 (never a violation)."""


def log(*a):
    print(*a, file=sys.stderr, flush=True)


class TlcResult:
    def __init__(self):
        self.generated = 0
        self.distinct = 0
        self.depth = 0
        self.outfile = None
        self.errors = []          # lines starting with Error:
        self.invariant_violated = None
        self.postcondition_failed = False
        self.rc = None
        self.wall = 0.0
        self.cmd = ""
        self.coverage_zero = []
        self.tail = ""

    @property
    def clean(self):
        return not self.errors and self.rc == 0


class Ctx:
    def __init__(self, prop, tier, seed):
        self.prop = prop
        self.tier = tier
        self.seed = seed
        self.t0 = time.time()
        self.work = os.path.join(WORK, "%s-%s-%d" % (prop, tier, os.getpid()))
        shutil.rmtree(self.work, ignore_errors=True)
        os.makedirs(self.work)
        self.states = 0
        self.transitions = 0
        self.traces = 0
        self.samples = []
        self.engines = {}
        self.tlc_cmds = []
        self.violations = []      # dicts: sig, what, case
        self.known_hits = []
        self.drift = 0
        self.assumptions = []
        self.extra = {}
        self.evaluations = 0
        self.nontrivial = 0
        self.exhaustive = False

    # ------------------------------------------------------------------ util
    def quick(self):
        return self.tier == "quick"

    def pick(self, q, t):
        return q if self.tier == "quick" else t

    def cleanup(self):
        shutil.rmtree(self.work, ignore_errors=True)

    # --------------------------------------------------------------- harness
    def exe(self, race=False):
        return os.path.join(self.work, "vh-race" if race else "vh")

    def build_harness(self, race=False):
        """Build the harness against the repository's current working tree.  The binary and the module
        file (with the replace directive for the tree under test) are private to this run, so that checks
        can run side by side and against scratch trees (VERIF_REPO) without sharing anything mutable."""
        out = self.exe(race)
        env = dict(os.environ)
        env.update(GOENV)
        hdir = os.path.join(VERIF, "harness")
        modfile = os.path.join(self.work, "harness.mod")
        txt = open(os.path.join(hdir, "go.mod")).read()
        open(modfile, "w").write(re.sub(r"replace golang.org/x/mod => .*", "replace golang.org/x/mod => " + REPO, txt))
        try:
            shutil.copyfile(os.path.join(REPO, "go.sum"), os.path.join(self.work, "harness.sum"))
        except OSError:
            pass
        cmd = ["go", "build", "-modfile", modfile, "-tags", "verif"]
        if race:
            cmd.append("-race")
        cmd += ["-o", out, "./cmd/vh"]
        t = time.time()
        p = subprocess.run(cmd, cwd=hdir, env=env, stdout=subprocess.PIPE, stderr=subprocess.STDOUT, text=True)
        if p.returncode != 0:
            raise Infra("harness build failed:\n" + p.stdout[-4000:])
        log("[build] %s %.1fs" % (os.path.basename(out), time.time() - t))
        return out

    def vh(self, args, race=False, timeout=3600, stdin=None, env_extra=None):
        """Run the harness; returns parsed JSON report from its stdout (last line)."""
        exe = self.exe(race)
        if not os.path.exists(exe):
            self.build_harness(race)
        env = dict(os.environ)
        env.update(GOENV)
        env["VERIF_SEED"] = str(self.seed)
        env["VERIF_TIER"] = self.tier
        mark = None
        if args and args[0] == "replay":
            # several replays may run side by side from this directory: each gets its own marker files
            with _MARK_LOCK:
                _MARK_COUNT[0] += 1
                mark = os.path.join(self.work, "mark%d" % _MARK_COUNT[0])
            env["VERIF_MARK"] = mark
        if env_extra:
            env.update(env_extra)
        t = time.time()
        try:
            p = subprocess.run([exe] + [str(a) for a in args], cwd=self.work, env=env, stdin=stdin,
                               stdout=subprocess.PIPE, stderr=subprocess.PIPE, text=True, timeout=timeout)
        except subprocess.TimeoutExpired:
            raise Infra("harness timeout: vh " + " ".join(map(str, args)))
        if p.returncode not in (0,):
            err = p.stderr or ""
            m = re.search(r"^(fatal error: .*|panic: .*|runtime: goroutine stack exceeds.*)$", err, re.M)
            if m and not getattr(self, "_in_crash_probe", False):
                # the Go runtime went down: the harness itself is panic-safe, so this is most likely the code under test
                raise HarnessCrash(list(map(str, args)), m.group(1)[:160], err[-3000:], race, mark)
            raise Infra("harness failed rc=%d: vh %s\n%s" % (p.returncode, " ".join(map(str, args)), err[-4000:]))
        lines = [l for l in p.stdout.splitlines() if l.strip()]
        if not lines:
            raise Infra("harness printed nothing: vh " + " ".join(map(str, args)))
        try:
            rep = json.loads(lines[-1])
        except ValueError:
            raise Infra("harness report is not JSON: " + lines[-1][:500])
        rep["_wall"] = time.time() - t
        if p.stderr.strip():
            for l in p.stderr.strip().splitlines()[-5:]:
                log("[vh] " + l)
        return rep

    # ------------------------------------------------------------------- TLC
    def tlc(self, module, cfg=None, workers=8, simulate=None, depth=None, timeout=900,
            files=None, coverage=False, xss=None, heap=None, name=None, dfs=False,
            allow_invariant=False, seed=None):
        """Run TLC on spec/<module>.tla with spec/<cfg>.cfg in a scratch copy of spec/.

        files: {relative name: path} copied into the scratch dir (trace inputs).
        Returns TlcResult; printed JSON lines stay in result.outfile (raw TLC stdout).
        """
        name = name or (cfg or module)
        d = os.path.join(self.work, "tlc-" + re.sub(r"[^A-Za-z0-9_.-]", "_", name))
        shutil.rmtree(d, ignore_errors=True)
        os.makedirs(d)
        for root in (SPEC, os.path.join(SPEC, "lib")):
            for f in os.listdir(root):
                if f.endswith(".tla") or f.endswith(".cfg"):
                    shutil.copyfile(os.path.join(root, f), os.path.join(d, f))
        for rel, src in (files or {}).items():
            shutil.copyfile(src, os.path.join(d, rel))
        cfgfile = (cfg or module) + ".cfg"
        jopts = []
        if heap:
            jopts.append("-Xmx" + heap)
        if xss:
            jopts.append("-Xss" + xss)
        if dfs:
            jopts.append("-Dtlc2.tool.queue.IStateQueue=StateDeque")
        gc = "-XX:+UseParallelGC"
        if workers == 1 and not simulate:
            # trace validation: many single-worker JVMs side by side; the parallel collector's threads
            # and default heap sizing made them spend most of their time in the kernel
            gc = "-XX:+UseSerialGC"
            if not heap:
                jopts.append("-Xmx4g")
        # SANY unpacks the standard modules into a temporary directory per JVM: keep that inside the run's scratch directory
        tmpd = os.path.join(d, "tmp")
        os.makedirs(tmpd, exist_ok=True)
        jopts = jopts + ["-Djava.io.tmpdir=" + tmpd]
        cmd = ["java", gc] + jopts + ["-cp", TLA_CP, "tlc2.TLC",
               "-workers", str(workers), "-metadir", os.path.join(d, "md"), "-noGenerateSpecTE",
               "-deadlock", "-config", cfgfile]
        if coverage:
            cmd += ["-coverage", "1"]
        if simulate:
            cmd += ["-simulate", "num=%d" % simulate, "-depth", str(depth or 20), "-seed", str(seed if seed is not None else self.seed)]
        cmd += [module + ".tla"]
        out = os.path.join(d, "tlc.out")
        r = TlcResult()
        r.cmd = " ".join(cmd[cmd.index("tlc2.TLC"):]).replace(d + "/", "")
        r.outfile = out
        t = time.time()
        with open(out, "w") as fo:
            try:
                p = subprocess.run(["timeout", str(timeout)] + cmd, cwd=d, stdout=fo, stderr=subprocess.STDOUT)
            except Exception as e:  # pragma: no cover
                raise Infra("cannot start TLC: %s" % e)
        r.rc = p.returncode
        r.wall = time.time() - t
        if p.returncode == 124:
            raise Infra("TLC timeout after %ds: %s" % (timeout, r.cmd))
        tail = []
        with open(out, errors="replace") as fi:
            for line in fi:
                if line.startswith('"'):
                    continue
                tail.append(line)
                if len(tail) > 400:
                    del tail[:200]
                if line.startswith("Error:") or "Parse Error" in line or "Could not parse" in line or "Semantic error" in line or "*** Errors" in line:
                    r.errors.append(line.strip())
                    m = re.match(r"Error: Invariant (\S+) is violated", line)
                    if m:
                        r.invariant_violated = m.group(1)
                    if "ostcondition" in line:
                        r.postcondition_failed = True
                m = re.match(r"(\d+) states generated, (\d+) distinct states found", line)
                if m:
                    r.generated = int(m.group(1))
                    r.distinct = int(m.group(2))
                m = re.match(r"The depth of the complete state graph search is (\d+)", line)
                if m:
                    r.depth = int(m.group(1))
                if coverage:
                    m = re.match(r"\s*<(\w+) line .*>: (\d+):(\d+)", line)
                    if m and m.group(2) == "0" and m.group(3) == "0":
                        r.coverage_zero.append(m.group(1))
        r.tail = "".join(tail[-60:])
        self.states += r.distinct
        self.transitions += r.generated
        self.tlc_cmds.append(r.cmd)
        self.engines[name] = {"generated": r.generated, "distinct": r.distinct, "wall_s": round(r.wall, 1)}
        log("[tlc] %-28s gen=%d distinct=%d rc=%d %.1fs" % (name, r.generated, r.distinct, r.rc, r.wall))
        if r.errors and not (allow_invariant and (r.invariant_violated or r.postcondition_failed)
                             and all(("Invariant" in e or "ostcondition" in e or "behavior up to" in e or "The behavior" in e) for e in r.errors)):
            if not allow_invariant or not (r.invariant_violated or r.postcondition_failed):
                raise Infra("TLC reported errors for %s:\n%s\n--- tail ---\n%s" % (name, "\n".join(r.errors[:10]), r.tail))
        if r.rc not in (0,) and not r.errors:
            raise Infra("TLC rc=%d for %s\n%s" % (r.rc, name, r.tail))
        return r

    def prove(self, module, apalache_args=None, timeout=600):
        """Unbounded part of a specification: TLAPS proves the theorems of spec/<module>.tla, Apalache checks its inductive
        invariant over unbounded integers.  A failure is a failure of the specification work (exit 2), never a violation."""
        d = os.path.join(self.work, "prove-" + module)
        shutil.rmtree(d, ignore_errors=True)
        os.makedirs(d)
        for root in (SPEC, os.path.join(SPEC, "lib")):
            for f in os.listdir(root):
                if f.endswith(".tla"):
                    shutil.copyfile(os.path.join(root, f), os.path.join(d, f))
        t0 = time.time()
        p = subprocess.run(["timeout", str(timeout), "tlapm", "--threads", "8", module + ".tla"], cwd=d, stdout=subprocess.PIPE, stderr=subprocess.STDOUT, text=True)
        m = re.search(r"All (\d+) obligations? proved", p.stdout)
        if p.returncode != 0 or not m:
            raise Infra("TLAPS did not prove %s:\n%s" % (module, p.stdout[-1500:]))
        res = {"tlaps_obligations": int(m.group(1)), "tlaps_s": round(time.time() - t0, 1)}
        if apalache_args:
            t1 = time.time()
            p = subprocess.run(["timeout", str(timeout), "apalache-mc", "check"] + list(apalache_args) + [module + ".tla"], cwd=d,
                               stdout=subprocess.PIPE, stderr=subprocess.STDOUT, text=True)
            if p.returncode != 0 or "EXITCODE: OK" not in p.stdout:
                raise Infra("Apalache did not confirm the inductive invariant of %s:\n%s" % (module, p.stdout[-1500:]))
            res["apalache_s"] = round(time.time() - t1, 1)
        log("[prove] %s: %d obligations (TLAPS %.1fs)%s" % (module, res["tlaps_obligations"], res["tlaps_s"],
                                                            ", inductive invariant confirmed by Apalache %.1fs" % res["apalache_s"] if "apalache_s" in res else ""))
        self.engines["prove:" + module] = res
        return res

    def mc(self, module, cfg, **kw):
        """E1: design check; any invariant violation in the model is an infrastructure failure
        (the model is wrong or the design is), never a VIOLATION of the code."""
        r = self.tlc(module, cfg, **kw)
        if r.distinct < 1:
            raise Infra("E1 %s explored no states" % cfg)
        return r

    # ---------------------------------------------------------------- report
    def add_report(self, rep, floor=0, engine=None):
        """Merge a harness report: cases, nontrivial, violations[], drift, samples[]."""
        n = rep.get("cases", 0)
        if n < floor:
            raise Infra("%s: only %d cases, floor is %d (dead generator?)" % (engine or "harness", n, floor))
        self.evaluations += n
        self.nontrivial += rep.get("nontrivial", 0)
        self.traces += rep.get("traces", 0) + (n if (engine or "").endswith(":replay") else 0)
        self.drift += rep.get("drift", 0)
        for s in rep.get("samples", [])[:3]:
            if len(self.samples) < 12:
                self.samples.append(s)
        for v in rep.get("violations", []):
            self.violations.append(v)
        if engine:
            e = self.engines.setdefault(engine, {})
            e.update({"cases": n, "violations": len(rep.get("violations", [])), "wall_s": round(rep.get("_wall", 0), 1)})
            for k in ("nontrivial", "drift", "traces", "notes"):
                if k in rep:
                    e[k] = rep[k]


import threading
_MARK_LOCK = threading.Lock()
_MARK_COUNT = [0]


class HarnessCrash(Exception):
    """The harness process was brought down by the Go runtime (fatal error, unrecovered panic)."""
    def __init__(self, args, first, stderr, race=False, mark=None):
        Exception.__init__(self, first)
        self.vh_args, self.first, self.stderr, self.race, self.mark = args, first, stderr, race, mark


def crashes(ctx, args, race=False, env_extra=None):
    """Run the harness once more; True if the Go runtime brings it down again."""
    ctx._in_crash_probe = False
    try:
        ctx.vh(args, race=race, env_extra=env_extra)
    except HarnessCrash:
        return True
    except Infra:
        return False
    return False


def crash_to_violation(ctx, e):
    """Localise a crash of the harness process and confirm it.  replay: the cases that were in progress (marker files)
    are re-run alone, each in a fresh process; record: the recorder is run again with the same seed and length.
    Returns a violation (dict) if the crash comes back, else None (infrastructure failure)."""
    a = e.vh_args
    sig = "crash:" + re.sub(r"[^A-Za-z0-9]+", "-", e.first)[:70]
    if a and a[0] == "replay":
        world, batch = a[1], a[2]
        lines = set()
        mbase = os.path.basename(e.mark or "mark") + "."
        for f in os.listdir(ctx.work):
            if f.startswith(mbase):
                try:
                    lines.add(int(open(os.path.join(ctx.work, f)).read().split()[0]))
                except (ValueError, IndexError):
                    pass
        wanted = sorted(x for x in lines if x > 0)
        if not wanted:
            return None
        got = {}
        with open(batch, errors="replace") as fi:
            for no, line in enumerate(fi, 1):
                if no in lines:
                    got[no] = line
                if no > wanted[-1]:
                    break
        for no in wanted:
            line = got.get(no, "").strip()
            try:
                case = json.loads(json.loads(line)) if line.startswith('"') else json.loads(line)
            except ValueError:
                continue
            path = os.path.join(ctx.work, "crash-case-%d.json" % no)
            json.dump(case, open(path, "w"))
            if crashes(ctx, ["one", path], race=e.race):
                return {"sig": sig, "what": "the code under test brings the process down on this case (%s)\n%s" % (e.first, e.stderr[-1200:]), "case": case}
        return None
    if a and a[0] == "record":
        world, n = a[1], a[a.index("-n") + 1] if "-n" in a else "0"
        case = {"w": world, "k": "recordcrash", "in": {"n": int(n), "seed": ctx.seed}}
        out = os.path.join(ctx.work, "crash-record.ndjson")
        if crashes(ctx, ["record", world, out, "-n", n], race=e.race):
            return {"sig": sig, "what": "the code under test brings the recorder down (%s); vh record %s -n %s with VERIF_SEED=%s\n%s" % (e.first, world, n, ctx.seed, e.stderr[-1200:]), "case": case}
    return None


def crash_replay(ctx, path, verbose=False):
    v = json.load(open(path))
    case = v.get("case") or {}
    if case.get("k") == "recordcrash":
        old = ctx.seed
        ctx.seed = case["in"].get("seed", ctx.seed)
        try:
            return crashes(ctx, ["record", case["w"], os.path.join(ctx.work, "crash-replay.ndjson"), "-n", str(case["in"]["n"])])
        finally:
            ctx.seed = old
    return crashes(ctx, ["one", path])


# ------------------------------------------------------------------ findings
def load_known():
    path = os.path.join(VERIF, "known_findings.txt")
    known = {}
    if os.path.exists(path):
        for line in open(path):
            line = line.strip()
            m = re.match(r"finding:\s+property=(\S+)\s+key=(\S+)\s*(.*)", line)
            if m:
                known[(m.group(1), m.group(2))] = m.group(3)
    return known


def finish(ctx, replay_fn=None, level="model_checking", rule=""):
    """Decide the verdict, write evidence, print VIOLATION/KNOWN-FINDING lines, return exit code."""
    known = load_known()
    new = []
    seen_known = {}
    for v in ctx.violations:
        key = (ctx.prop, v.get("sig", ""))
        if key in known:
            seen_known.setdefault(key, v)
        else:
            new.append(v)
    rc = 0
    for (p, k), v in sorted(seen_known.items()):
        print("KNOWN-FINDING: property=%s key=%s %s" % (p, k, known[(p, k)]), flush=True)
    reported = {}
    for v in new:
        reported.setdefault(v.get("sig", ""), v)
    os.makedirs(os.path.join(OUT, "replays"), exist_ok=True)
    confirmed = 0
    for sig, v in sorted(reported.items()):
        safe = re.sub(r"[^A-Za-z0-9_.=-]", "_", sig)[:80]
        path = os.path.join(OUT, "replays", "%s-%s-%s.json" % (ctx.prop, safe, ctx.seed))
        with open(path, "w") as f:
            json.dump(v, f, indent=1, sort_keys=True)
        ok = True
        if replay_fn is not None:
            try:
                ok = replay_fn(ctx, path)
            except Infra as e:
                log("[replay] infrastructure failure while re-running %s: %s" % (path, e))
                ok = None
        if not ok and ok is not None and v.get("_batch") and os.path.exists(v["_batch"].get("file", "")):
            # not reproducible alone: keep the batch and see whether it shows the violation again
            shutil.copyfile(v["_batch"]["file"], path + ".batch")
            try:
                ok = replay_batch(ctx, path)
            except Infra as e:
                log("[replay] infrastructure failure while re-running the batch of %s: %s" % (path, e))
                ok = None
            if ok:
                log("  (reproduces only when the generated cases are replayed side by side: shared state in the code under test)")
            else:
                os.remove(path + ".batch")
        if ok:
            confirmed += 1
            print("VIOLATION property=%s replay=%s" % (ctx.prop, path), flush=True)
            log("  what: %s" % v.get("what", ""))
            rc = 1
        else:
            log("[replay] %s did not reproduce in a fresh process; treating as infrastructure failure" % path)
            if rc == 0:
                rc = 2
    if ctx.drift:
        log("[DRIFT] %d protocol-level differences between the specification's exact predictions and the code (never a violation; "
            "on the unchanged tree: something to look at in the model or the harness)" % ctx.drift)
    write_evidence(ctx, level, rule, violations=confirmed, known=len(seen_known))
    return rc


def write_evidence(ctx, level, rule, violations=0, known=0):
    cov = {
        "states": max(ctx.states, 0),
        "transitions": max(ctx.transitions, 0),
        "traces_validated_against_impl": ctx.traces,
        "samples": ctx.samples or ["(no sample recorded)"],
        "evaluations": ctx.evaluations,
        "distinct_nontrivial": ctx.nontrivial,
        "rule": rule,
        "exhaustive": bool(ctx.exhaustive),
        "engines": ctx.engines,
        "tlc_commands": ctx.tlc_cmds,
        "drift": ctx.drift,
        "known_findings_seen": known,
    }
    cov.update(ctx.extra)
    ev = {
        "property_id": ctx.prop,
        "tier": ctx.tier,
        "seed": int(ctx.seed),
        "level": level,
        "coverage": cov,
        "assumptions": ctx.assumptions,
        "wall_s": round(time.time() - ctx.t0, 1),
        "violations": violations,
    }
    os.makedirs(os.path.join(OUT, "evidence"), exist_ok=True)
    path = os.path.join(OUT, "evidence", ctx.prop + ".json")
    tmp = path + ".tmp%d" % os.getpid()
    with open(tmp, "w") as f:
        json.dump(ev, f, indent=1, sort_keys=True)
        f.write("\n")
    os.replace(tmp, path)


# ------------------------------------------------------------ common drivers
def readable(x):
    """Render specification strings (lists of code points) as text for messages."""
    def conv(v):
        if isinstance(v, list) and v and all(isinstance(i, int) and (i >= 32 or i < 0) for i in v) and any(i > 57 or i < 0 for i in v):
            return "".join(chr(i) if i >= 0 else "\\x%02x" % -i for i in v)
        if isinstance(v, list):
            return [conv(i) for i in v]
        if isinstance(v, dict):
            return {k: conv(i) for k, i in v.items()}
        return v
    return json.dumps(conv(x), ensure_ascii=False)


def replay_one(ctx, path, verbose=False):
    """Re-run one saved violation in a fresh harness process; True if it reproduces."""
    rep = ctx.vh(["one", path])
    if verbose:
        for v in rep.get("violations", []):
            log("  reproduced: %s: %s" % (v.get("sig"), v.get("what")))
    return len(rep.get("violations", [])) > 0


def replay_run(ctx, path, verbose=False, module="SumdbMonitor", cfg="SumdbMonitor", attempts=1, race=False):
    """Replay of a finding of the TLA+ monitor on a recorded run: the run is executed again with its events written
    out, and the monitor judges them again (the Go-side observers run as well).  Concurrent runs are not
    deterministic: several attempts."""
    v = json.load(open(path))
    case = v.get("case") or {}
    if case.get("k") != "run":
        return replay_one(ctx, path, verbose)
    clause_sig = v.get("sig", "")
    for a in range(attempts):
        trace = os.path.join(ctx.work, "replay-run-%d.ndjson" % a)
        if os.path.exists(trace):
            os.remove(trace)
        rep = ctx.vh(["one", path], env_extra={"VERIF_RUN_TRACE": trace}, race=race)
        if rep.get("violations"):
            if verbose:
                for x in rep["violations"]:
                    log("  reproduced: %s: %s" % (x.get("sig"), x.get("what")))
            return True
        if not os.path.exists(trace) or os.path.getsize(trace) == 0:
            continue
        r = ctx.tlc(module, cfg, workers=1, files={"trace.ndjson": trace}, name="%s:replay%d" % (cfg, a), timeout=600, xss="256m")
        done = [o for o in read_tlc_json(r.outfile) if o.get("k") == "done"]
        for (l, clause) in (done[-1]["in"].get("bad", []) if done else []):
            sig = "monitor:" + re.sub(r"[^a-z0-9]+", "-", clause.lower())[:60]
            if verbose:
                log("  reproduced by the monitor: %s" % clause)
            if sig == clause_sig or not clause_sig.startswith("monitor:"):
                return True
    return False


def replay_batch(ctx, path, verbose=False, tries=3):
    """Some violations only show when cases are replayed side by side (shared state in the code under test): the case
    alone passes in a fresh process.  The batch of generated cases that showed it is kept next to the replay file and
    replayed again, with the harness's usual parallelism; the violation counts as reproduced if the same signature
    comes up again."""
    batch = path + ".batch"
    if not os.path.exists(batch):
        return False
    v = json.load(open(path))
    b = v.get("_batch") or {}
    for _ in range(tries):
        rep = ctx.vh(["replay", b.get("world", (v.get("case") or {}).get("w", "")), batch] + list(b.get("args", [])))
        same = [x for x in rep.get("violations", []) if x.get("sig") == v.get("sig")]
        if same:
            if verbose:
                log("  reproduced when the batch is replayed with parallel workers: %s: %s" % (same[0].get("sig"), same[0].get("what", "")[:400]))
            return True
    return False


def gen_and_replay(ctx, world, module, cfg, floor=1, name=None, vh_args=(), **kw):
    """E2: TLC generates cases (printed JSON), the harness replays them into the real code."""
    r = ctx.tlc(module, cfg, name=name or cfg, **kw)
    rep = ctx.vh(["replay", world, r.outfile] + list(vh_args))
    for v in rep.get("violations", []):
        v["_batch"] = {"world": world, "file": r.outfile, "args": list(vh_args)}
    ctx.add_report(rep, floor=floor, engine=(name or cfg) + ":replay")
    return r, rep


def read_tlc_json(path, kinds=None):
    """Decode the JSON objects printed by PrintT(ToJson(..)) in a TLC output file."""
    out = []
    with open(path, errors="replace") as f:
        for line in f:
            if not line.startswith('"'):
                continue
            try:
                o = json.loads(json.loads(line))
            except ValueError:
                continue
            if kinds is None or o.get("k") in kinds:
                out.append(o)
    return out


def record_and_validate(ctx, world, module, cfg, n, shards=8, name=None, timeout=900, xss="256m", record_args=()):
    """E3: the harness records n events from the real code; TLC re-evaluates each event with the
    specification (independent events: all mismatches are collected, not just the first)."""
    name = name or cfg
    trace = os.path.join(ctx.work, "trace-%s.ndjson" % name)
    rep = ctx.vh(["record", world, trace, "-n", str(n)] + list(record_args))
    lines = open(trace).read().splitlines()
    if len(lines) < max(1, n // 2):
        raise Infra("recorder produced %d events, wanted %d" % (len(lines), n))
    shards = max(1, min(shards, len(lines) // 50 or 1))
    per = (len(lines) + shards - 1) // shards
    import concurrent.futures as cf
    parts = []
    for i in range(shards):
        chunk = lines[i * per:(i + 1) * per]
        if not chunk:
            continue
        p = os.path.join(ctx.work, "trace-%s-%d.ndjson" % (name, i))
        with open(p, "w") as f:
            f.write("\n".join(chunk) + "\n")
        parts.append((i, p, chunk))

    def run(part):
        i, p, chunk = part
        return ctx.tlc(module, cfg, workers=1, files={"trace.ndjson": p}, name="%s#%d" % (name, i), timeout=timeout, xss=xss)

    with cf.ThreadPoolExecutor(max_workers=len(parts)) as ex:
        results = list(ex.map(run, parts))
    validated = 0
    for (i, p, chunk), r in zip(parts, results):
        objs = read_tlc_json(r.outfile)
        done = [o for o in objs if o.get("k") == "done"]
        if not done or done[-1]["in"]["n"] != len(chunk):
            raise Infra("trace shard %d of %s was not consumed completely (%s)" % (i, name, done[-1:] if done else "no done record"))
        for o in objs:
            if o.get("k") == "drift":
                ctx.drift += 1
                if ctx.drift <= 3:
                    ev = json.loads(chunk[o["in"]["l"] - 1])
                    log("[DRIFT] %s event %s: recorded %s, protocol-level model expects %s" % (
                        name, json.dumps(ev["in"])[:200], json.dumps(ev.get("drift"))[:200], json.dumps(o.get("exp"))[:200]))
            if o.get("k") != "bad":
                continue
            ev = json.loads(chunk[o["in"]["l"] - 1])
            case = {"w": ev.get("w", world), "k": ev["k"], "in": ev["in"], "exp": o.get("exp")}
            for sig in (o.get("sigs") or ["%s:trace" % ev["k"]]):
                ctx.violations.append({"sig": sig,
                                       "what": "recorded %s event on input %s: the real code returned %s, the specification expects %s" % (
                                           ev["k"], readable(ev["in"])[:300], readable(ev.get("obs"))[:300], readable(o.get("exp"))[:300]),
                                       "case": case, "obs": ev.get("obs")})
        validated += len(chunk) - done[-1]["in"]["nbad"]
    ctx.traces += validated
    ctx.evaluations += len(lines)
    if len(ctx.samples) < 12 and lines:
        ctx.samples.append({"recorded_event": json.loads(lines[len(lines) // 2])})
    ctx.engines[name + ":record"] = {"events": len(lines), "validated": validated, "shards": len(parts)}
    return validated


def _keep(clause, keep_prefix):
    return clause.startswith(tuple(keep_prefix) if isinstance(keep_prefix, (tuple, list)) else keep_prefix)


def record_and_monitor(ctx, world, module, cfg, runs, keep_prefix, shards=8, name=None, timeout=1200, race=False, record_args=()):
    """E3 for stateful worlds: the harness records `runs` randomized runs of the real code as one labelled event
    trace (runs separated by Reset events); TLC validates it against the observer specification `module`.
    A clause flagged by the monitor becomes a violation whose replay re-executes that run."""
    name = name or cfg
    trace = os.path.join(ctx.work, "trace-%s.ndjson" % name)
    rep = ctx.vh(["record", world, trace, "-n", str(runs)] + list(record_args), race=race)
    lines = open(trace).read().splitlines()
    if not lines:
        raise Infra("recorder produced no events")
    # split into runs
    runs_l, curr = [], []
    for ln in lines:
        if '"k":"Reset"' in ln and curr:
            runs_l.append(curr)
            curr = []
        curr.append(ln)
    runs_l.append(curr)
    shards = max(1, min(shards, len(runs_l)))
    per = (len(runs_l) + shards - 1) // shards
    import concurrent.futures as cf
    parts = []
    for i in range(shards):
        chunk = [ln for r in runs_l[i * per:(i + 1) * per] for ln in r]
        if not chunk:
            continue
        p = os.path.join(ctx.work, "trace-%s-%d.ndjson" % (name, i))
        open(p, "w").write("\n".join(chunk) + "\n")
        parts.append((i, p, chunk))

    def run(part):
        i, p, chunk = part
        return ctx.tlc(module, cfg, workers=1, files={"trace.ndjson": p}, name="%s#%d" % (name, i), timeout=timeout, xss="256m")

    with cf.ThreadPoolExecutor(max_workers=len(parts)) as ex:
        results = list(ex.map(run, parts))
    accepted = 0
    for (i, p, chunk), r in zip(parts, results):
        done = [o for o in read_tlc_json(r.outfile) if o.get("k") == "done"]
        if not done or done[-1]["in"]["n"] != len(chunk):
            raise Infra("trace shard %d of %s was not consumed completely by the monitor: an event has no matching action\n%s" % (i, name, r.tail[-1500:]))
        badruns = set()
        for (l, clause) in done[-1]["in"].get("bad", []):
            # find the run this event belongs to
            j = l - 1
            while j > 0 and '"k":"Reset"' not in chunk[j]:
                j -= 1
            reset = json.loads(chunk[j])["in"]
            badruns.add((reset.get("seed"), reset.get("run")))
            if not _keep(clause, keep_prefix):
                continue
            ev = json.loads(chunk[l - 1])
            ctx.violations.append({"sig": "monitor:" + re.sub(r"[^a-z0-9]+", "-", clause.lower())[:60],
                                   "what": "%s (event %s in run seed=%s run=%s)" % (clause, json.dumps(ev)[:300], reset.get("seed"), reset.get("run")),
                                   "case": {"w": world, "k": "run", "in": {"seed": reset.get("seed"), "run": reset.get("run"),
                                                                            "forked": reset.get("forked", False), "big": ctx.tier == "thorough"}}})
        nruns = sum(1 for ln in chunk if '"k":"Reset"' in ln)
        accepted += nruns - len(badruns)
    ctx.traces += accepted
    ctx.evaluations += len(lines)
    ctx.nontrivial += len(runs_l)
    if len(ctx.samples) < 12:
        ctx.samples.append({"recorded_events": [json.loads(x) for x in lines[1:6]]})
    ctx.engines[name + ":record"] = {"runs": len(runs_l), "events": len(lines), "accepted_runs": accepted, "shards": len(parts)}
    return accepted
