"""Shared driver for the syntax-layer properties C02 and C20."""
from vcore import gen_and_replay, record_and_validate, finish, replay_one, log


def replay_keep(ctx, path, keep, verbose=False):
    rep = ctx.vh(["one", path])
    vs = [v for v in rep.get("violations", []) if v.get("sig", "").startswith(keep)]
    if verbose:
        for v in vs:
            log("  reproduced: %s: %s" % (v.get("sig"), v.get("what", "")[:500]))
    return len(vs) > 0


def run(ctx, keep, rule):
    ctx.build_harness()
    q = ctx.quick()
    gens = [("ModfileSyntaxGen", "ModfileSyntaxGen_items_r4" if q else "ModfileSyntaxGen_items_r5", 20000, "modsyntax"),
            ("ModfileSyntaxGen", "ModfileSyntaxGen_items_f3" if q else "ModfileSyntaxGen_items_f4", 20000, "modsyntax"),
            ("ModfileSyntaxGen", "ModfileSyntaxGen_cover2" if q else "ModfileSyntaxGen_cover", 50000, "modsyntax"),
            # directive layer: every verb x every sequence of up to 3/4 words, as a line, as a one-line block, after a module line
            ("ModfileDirectiveGen", "ModfileDirectiveGen_3" if q else "ModfileDirectiveGen_4", 50000, "modsyntax"),
            ("ModfileGen", "ModfileGen_mod_wf", 400, "modsyntax"),
            ("ModfileGen", "ModfileGen_work_wf", 200, "modsyntax")]
    if keep == "c02:":
        # the quoting rule: every string of up to 3/4 characters over 25 classes (and 5 over 10), OneToken as invariant,
        # MustQuote/AutoQuote compared, the string pushed through AddUse/AddReplace + Format + strict parse
        gens.append(("ModfileQuoteGen", "ModfileQuoteGen_3" if q else "ModfileQuoteGen_4", 10000, "modsyntax"))
        if not q:
            gens.append(("ModfileQuoteGen", "ModfileQuoteGen_s5", 100000, "modsyntax"))
    for module, cfg, floor, world in gens:
        r = ctx.tlc(module, cfg, name=cfg, workers=16, timeout=3400, heap="16g")
        rep = ctx.vh(["replay", world, r.outfile], timeout=3400)
        rep["violations"] = [v for v in rep.get("violations", []) if v.get("sig", "").startswith(keep)]
        ctx.add_report(rep, floor=floor, engine=cfg + ":replay")
    before = len(ctx.violations)
    record_and_validate(ctx, "modsyntax", "ModfileSyntaxTrace", "ModfileSyntaxTrace", 3000 if q else 150000, shards=12, xss="1g")
    ctx.assumptions += ["Go's unicode.IsSpace/IsPrint are transcribed for the characters the generators and recorders use; other runes are not generated",
                        "recorded inputs are at most 1200 bytes (deeper recursion than TLC's stack allows otherwise); 64 KiB lines and 10000-line "
                        "blocks are exercised for totality and round trip on the Go side with their flags validated by the trace specification",
                        "comment attachment and the printer's exact layout are not modelled (the property allows attachment to move)"]
    return finish(ctx, replay_fn=lambda c, p: replay_keep(c, p, (keep, "syn:")), rule=rule)
