"""Shared driver for the modfile edit-operation properties (C08, C15)."""
import json
import os

from vcore import gen_and_replay, finish, replay_one, read_tlc_json, Infra, log


def trace_sessions(ctx, keep, nsessions, shards=8):
    """E3: random edit sessions recorded from the real package, validated by ModfileModelTrace."""
    trace = os.path.join(ctx.work, "trace-modfile.ndjson")
    ctx.vh(["record", "modfile", trace, "-n", str(nsessions)])
    lines = open(trace).read().splitlines()
    if not lines:
        raise Infra("modfile recorder produced no events")
    sessions, cur = [], []
    for ln in lines:
        if '"k":"Reset"' in ln and cur:
            sessions.append(cur)
            cur = []
        cur.append(ln)
    sessions.append(cur)
    shards = max(1, min(shards, len(sessions)))
    per = (len(sessions) + shards - 1) // shards
    import concurrent.futures as cf
    parts = []
    for i in range(shards):
        chunk = [ln for s in sessions[i * per:(i + 1) * per] for ln in s]
        if chunk:
            p = os.path.join(ctx.work, "trace-modfile-%d.ndjson" % i)
            open(p, "w").write("\n".join(chunk) + "\n")
            parts.append((i, p, chunk))
    results = []
    with cf.ThreadPoolExecutor(max_workers=len(parts)) as ex:
        results = list(ex.map(lambda part: ctx.tlc("ModfileModelTrace", "ModfileModelTrace", workers=1, files={"trace.ndjson": part[1]},
                                                   name="ModfileModelTrace#%d" % part[0], timeout=1500, xss="256m"), parts))
    ok_sessions = 0
    for (i, p, chunk), r in zip(parts, results):
        objs = read_tlc_json(r.outfile)
        done = [o for o in objs if o.get("k") == "done"]
        if not done or done[-1]["in"]["n"] != len(chunk):
            raise Infra("modfile trace shard %d not consumed completely\n%s" % (i, r.tail[-1500:]))
        badsessions = set()
        for o in objs:
            if o.get("k") != "bad":
                continue
            l = o["in"]["l"]
            j = l - 1
            while j > 0 and '"k":"Reset"' not in chunk[j]:
                j -= 1
            badsessions.add(j)
            cols = [c for c in (["c08:" + x for x in o["in"]["c08"]] + ["c15:" + x for x in o["in"]["c15"]]) if c.startswith(keep)]
            if not cols:
                continue
            reset = json.loads(chunk[j])["in"]
            steps = [json.loads(x) for x in chunk[j + 1:l]]
            ops = [s["in"]["op"] for s in steps]
            case = {"w": "modfile", "k": "session", "in": {"kind": reset["kind"], "text": reset["text"], "ops": ops},
                    "exp": {"init": reset["init"], "after": o["exp"]["after"]}}
            col = cols[0].split(":", 1)[1]
            sig = "%s:recorded:%s" % (keep.rstrip(":"), col)
            if col == "rationale":
                # same classification as the harness (rationaleKind): which way do the rationales differ
                ev = json.loads(chunk[l - 1])["obs"]
                a = ev["struct"]["retract"] if keep.startswith("c15") else o["exp"]["after"][-1]["m"]["retract"]
                sig = "%s:Cleanup:rationale:%s" % (keep.rstrip(":"), rationale_kind(a, ev["file"]["retract"]))
            ctx.violations.append({"sig": sig,
                                   "what": "recorded session: %s after %s on %r" % (cols, json.dumps(ops[-1]), reset["text"][:300]), "case": case})
        ok_sessions += sum(1 for ln in chunk if '"k":"Reset"' in ln) - len(badsessions)
    ctx.traces += ok_sessions
    ctx.evaluations += len(lines)
    ctx.nontrivial += len(sessions)
    if len(ctx.samples) < 12:
        ctx.samples.append({"recorded_session_events": [json.loads(x) for x in lines[1:3]]})
    ctx.engines["ModfileModelTrace:record"] = {"sessions": len(sessions), "events": len(lines), "accepted_sessions": ok_sessions}


def rationale_kind(a, b):
    """a: expected / in-memory retractions, b: those of the strict parse of the formatted file."""
    ka, kb = {}, {}
    for it in a:
        ka.setdefault((it["lo"], it["hi"]), []).append(it["rat"])
    for it in b:
        kb.setdefault((it["lo"], it["hi"]), []).append(it["rat"])
    kind = ""
    for k, ra in ka.items():
        rb = sorted(kb.get(k, []))
        ra = sorted(ra)
        for i, x in enumerate(ra):
            if i >= len(rb) or x == rb[i]:
                continue
            if x == "" and rb[i] != "":
                kind = "inherits-block-comment"
            elif rb[i].endswith("\n" + x):
                kind = kind or "block-comment-prepended"
            else:
                return "differs"
    return kind or "differs"


def replay_session(ctx, path, verbose=False, keep=None):
    """A recorded or generated session is re-run; only violations of the property at hand count."""
    rep = ctx.vh(["one", path])
    vs = [v for v in rep.get("violations", []) if keep is None or v.get("sig", "").startswith(keep)]
    if verbose:
        for v in vs:
            log("  reproduced: %s: %s" % (v.get("sig"), v.get("what", "")[:600]))
    return len(vs) > 0


def run(ctx, keep, rule):
    ctx.build_harness()
    q = ctx.quick()
    reports = []
    gens = [("ModfileGen_mod_small" if q else "ModfileGen_mod_full", 10000, {}),
            ("ModfileGen_work_small" if q else "ModfileGen_work_full", 2000, {}),
            ("ModfileGen_mod_pairs", 10000, {}),
            ("ModfileGen_work_pairs", 500, {})]
    # (in simulation mode TLC evaluates the invariants, hence Emit, on every candidate successor: each random
    #  behaviour of 6 operations contributes several hundred sessions)
    nsim = 6 if q else 250
    gens += [("ModfileGen_mod_sim", 1000, {"simulate": nsim, "depth": 9}),
             ("ModfileGen_mod_simmixed", 1000, {"simulate": nsim, "depth": 9}),
             ("ModfileGen_work_sim", 300, {"simulate": max(2, nsim // 2), "depth": 9})]
    for cfg, floor, kw in gens:
        r = ctx.tlc("ModfileGen", cfg, name=cfg, workers=16 if not kw else 4, timeout=3400, **kw)
        rep = ctx.vh(["replay", "modfile", r.outfile])
        rep["violations"] = [v for v in rep.get("violations", []) if v.get("sig", "").startswith(keep)]
        ctx.add_report(rep, floor=floor, engine=cfg + ":replay")
    if keep in ("c08:", "c15:"):
        # arbitrary string arguments: the quoting rule (specification ModfileQuote) through AddUse / AddReplace + Format + strict parse
        r = ctx.tlc("ModfileQuoteGen", "ModfileQuoteGen_3" if q else "ModfileQuoteGen_4", name="ModfileQuoteGen", workers=16, timeout=3400)
        rep = ctx.vh(["replay", "modsyntax", r.outfile])
        rep["violations"] = [v for v in rep.get("violations", []) if v.get("sig", "").startswith(keep)]
        ctx.add_report(rep, floor=10000, engine="ModfileQuoteGen:replay")
    trace_sessions(ctx, keep, 300 if q else 20000)
    ctx.assumptions += ["layouts are rendered to text by a 30-line renderer in the harness (trusted)",
                        "operation arguments come from a small vocabulary of paths, versions, keys and rationales",
                        "directives are compared as multisets (keyed collections), comments by identity on the entry with the same value"]
    return finish(ctx, replay_fn=lambda c, p: replay_session(c, p, keep=keep), rule=rule)
