// Package sched is a gate-based deterministic scheduler for goroutines of the
// code under test: every external operation and every blocking hook point
// calls Gate and stays there until the driver releases it.  After a release
// the driver waits for quiescence: no goroutine of interest is runnable
// (decided by polling goroutine states through runtime.Stack, twice stable).
package sched

import (
	"bytes"
	"fmt"
	"runtime"
	"sort"
	"strings"
	"sync"
	"time"
)

// Pending describes one goroutine blocked at a gate.
type Pending struct {
	ID     int
	Client string
	Op     string
	File   string
	rel    chan struct{}
}

func (p Pending) String() string { return fmt.Sprintf("%s:%s:%s", p.Client, p.Op, p.File) }

// Sched holds the blocked goroutines.
type Sched struct {
	mu      sync.Mutex
	pending []*Pending
	next    int
	Markers []string // substrings identifying stack frames of goroutines of interest
	Free    bool     // true: gates do not block (free-running mode)
	steps   int
}

// New returns a scheduler watching goroutines whose stacks contain one of the markers.
func New(markers ...string) *Sched { return &Sched{Markers: markers} }

// Gate blocks the calling goroutine until the driver releases it.
func (s *Sched) Gate(client, op, file string) {
	if s == nil || s.Free {
		return
	}
	p := &Pending{Client: client, Op: op, File: file, rel: make(chan struct{})}
	s.mu.Lock()
	s.next++
	p.ID = s.next
	s.pending = append(s.pending, p)
	s.mu.Unlock()
	<-p.rel
}

// Pending returns the blocked goroutines in order of arrival.
func (s *Sched) Pending() []Pending {
	s.mu.Lock()
	defer s.mu.Unlock()
	out := make([]Pending, len(s.pending))
	for i, p := range s.pending {
		out[i] = *p
	}
	return out
}

// Release lets the goroutine with the given gate id continue.
func (s *Sched) Release(id int) bool {
	s.mu.Lock()
	defer s.mu.Unlock()
	for i, p := range s.pending {
		if p.ID == id {
			s.pending = append(s.pending[:i], s.pending[i+1:]...)
			close(p.rel)
			s.steps++
			return true
		}
	}
	return false
}

// ReleaseAll opens every gate and switches to free-running mode.
func (s *Sched) ReleaseAll() {
	s.mu.Lock()
	s.Free = true
	for _, p := range s.pending {
		close(p.rel)
	}
	s.pending = nil
	s.mu.Unlock()
}

// Steps is the number of releases so far.
func (s *Sched) Steps() int { s.mu.Lock(); defer s.mu.Unlock(); return s.steps }

var blockedStates = []string{"chan receive", "chan send", "select", "semacquire", "sync.Mutex.Lock", "sync.RWMutex",
	"sync.WaitGroup.Wait", "sync.Cond.Wait", "IO wait", "sync.Once"}

// (a goroutine of interest in "GC assist wait", "sleep" or similar will run again by itself: it counts as running)

// snapshot returns (number of runnable goroutines of interest, signature of the pending set).
func (s *Sched) snapshot(buf []byte) (int, string) {
	n := runtime.Stack(buf, true)
	running := 0
	for _, g := range bytes.Split(buf[:n], []byte("\n\n")) {
		interesting := false
		for _, m := range s.Markers {
			if bytes.Contains(g, []byte(m)) {
				interesting = true
				break
			}
		}
		if !interesting || bytes.Contains(g, []byte("sched.(*Sched).Quiesce")) {
			continue
		}
		nl := bytes.IndexByte(g, '\n')
		if nl < 0 {
			nl = len(g)
		}
		hdr := string(g[:nl])
		lb := strings.IndexByte(hdr, '[')
		if lb < 0 {
			continue
		}
		state := hdr[lb+1:]
		blocked := false
		for _, b := range blockedStates {
			if strings.HasPrefix(state, b) {
				blocked = true
				break
			}
		}
		if !blocked {
			running++
		}
	}
	s.mu.Lock()
	ids := make([]int, len(s.pending))
	for i, p := range s.pending {
		ids[i] = p.ID
	}
	s.mu.Unlock()
	sort.Ints(ids)
	return running, fmt.Sprint(ids)
}

// Quiesce waits until no goroutine of interest is runnable and the pending
// set did not change between two consecutive observations.
func (s *Sched) Quiesce(timeout time.Duration) bool {
	buf := make([]byte, 1<<20)
	deadline := time.Now().Add(timeout)
	last := ""
	stable := 0
	for time.Now().Before(deadline) {
		running, sig := s.snapshot(buf)
		if running == 0 && sig == last {
			stable++
			if stable >= 2 {
				return true
			}
		} else {
			stable = 0
		}
		last = sig
		runtime.Gosched()
		if running > 0 {
			time.Sleep(20 * time.Microsecond)
		}
	}
	return false
}
