package worlds

import (
	"bytes"
	"encoding/json"
	"errors"
	"fmt"
	"math/rand"
	"net/http"
	"net/http/httptest"
	"regexp"
	"strconv"
	"strings"
	"sync"
	"time"

	"golang.org/x/mod/sumdb"
	"golang.org/x/mod/sumdb/note"

	"verifharness/internal/core"
	"verifharness/internal/sumworld"
)

func init() { core.Register("clientc14", func() core.World { return &clientConcWorld{} }) }

// clientConcWorld: many goroutines and clients against the repository's own
// Server/TestServer (honest, growing), free-running under the Go scheduler
// (and the race detector when built with -race).
type clientConcWorld struct{}

func (w *clientConcWorld) Finish() []core.Violation { return nil }

func (w *clientConcWorld) Check(c *core.Case) ([]core.Violation, bool) {
	if c.K != "run" {
		panic("clientc14: unknown case kind " + c.K)
	}
	var in runIn
	if err := json.Unmarshal(c.In, &in); err != nil {
		panic(err)
	}
	ev, done := core.RunTrace("clientc14")
	vs := execConcRun(in, ev)
	done()
	for i := range vs {
		vs[i].Case = c
	}
	return vs, true
}

func (w *clientConcWorld) Record(rng *rand.Rand, n int, emit func(k string, in, obs any)) {
	seed := rng.Int63()
	for run := 0; run < n; run++ {
		execConcRun(runIn{Seed: seed, Run: run}, func(k string, f any) { emit(k, f, map[string]any{}) })
	}
}

func gosumLines(path, vers string) []byte {
	return []byte(fmt.Sprintf("%s %s h1:%szipzipzipzip=\n%s %s/go.mod h1:%smodmodmodmod=\n", path, vers, vers, path, vers, vers))
}

// sharedStore is the configuration file and cache shared by the clients of a run.
type sharedStore struct {
	mu    sync.Mutex
	cfg   []byte
	disk  map[string][]byte
	seq   int
	ev    func(k string, f any)
	viol  []core.Violation
	maxN  int
	name  string
	vkey  string
	heads map[string]int // good heads seen from the server (message -> N)
}

var treeSizeRE = regexp.MustCompile(`^go\.sum database tree\n(\d+)\n`)

func headLabelOf(msg []byte) sumworld.HeadLabel {
	if len(msg) == 0 {
		return sumworld.HeadLabel{Kind: "empty", Tl: "P"}
	}
	m := treeSizeRE.FindSubmatch(msg)
	if m == nil {
		return sumworld.HeadLabel{Kind: "garbage", Tl: "P"}
	}
	n, _ := strconv.Atoi(string(m[1]))
	return sumworld.HeadLabel{Kind: "good", Tl: "A", N: n}
}

func (s *sharedStore) emit(k string, f map[string]any) {
	if s.ev != nil {
		s.seq++
		f["seq"] = s.seq
		s.ev(k, f)
	}
}

type concOps struct {
	rs     *runState
	s      *sharedStore
	c      int
	srv    *sumdb.Server
	keyOf  func(file string) (int, bool)
	served func(n int)
}

func (o *concOps) ReadRemote(path string) ([]byte, error) {
	o.rs.privateOp("ReadRemote", path)
	rr := httptest.NewRecorder()
	req := httptest.NewRequest("GET", "http://sum.example"+path, nil)
	o.srv.ServeHTTP(rr, req)
	if rr.Code != http.StatusOK {
		return nil, fmt.Errorf("GET %s: %d %s", path, rr.Code, rr.Body.String())
	}
	data := rr.Body.Bytes()
	if strings.HasPrefix(path, "/lookup/") {
		if i := bytes.Index(data, []byte("\n\n")); i >= 0 {
			hl := headLabelOf(data[i+2:])
			o.s.mu.Lock()
			if hl.N > o.s.maxN {
				o.s.maxN = hl.N
			}
			o.s.mu.Unlock()
		}
	}
	return data, nil
}

func (o *concOps) ReadConfig(file string) ([]byte, error) {
	o.rs.privateOp("ReadConfig", file)
	o.s.mu.Lock()
	defer o.s.mu.Unlock()
	if file == "key" {
		return []byte(o.s.vkey), nil
	}
	if file == o.s.name+"/latest" {
		return append([]byte(nil), o.s.cfg...), nil
	}
	return nil, fmt.Errorf("unknown config %s", file)
}

func (o *concOps) WriteConfig(file string, old, new []byte) error {
	o.rs.privateOp("WriteConfig", file)
	o.s.mu.Lock()
	defer o.s.mu.Unlock()
	if file != o.s.name+"/latest" {
		return fmt.Errorf("unknown config %s", file)
	}
	if !bytes.Equal(old, o.s.cfg) {
		o.s.emit("WriteConfig", map[string]any{"old": headLabelOf(old), "new": headLabelOf(new), "conflict": true, "g": 0})
		return sumdb.ErrWriteConflict
	}
	oldL, newL := headLabelOf(o.s.cfg), headLabelOf(new)
	o.s.emit("WriteConfig", map[string]any{"old": oldL, "new": newL, "conflict": false, "g": 0})
	if newL.Kind != "good" || newL.N < oldL.N {
		o.s.viol = append(o.s.viol, core.Violation{Sig: "c14:config-regress", What: fmt.Sprintf("stored head moved from %v to %v", oldL, newL)})
	}
	o.s.cfg = append([]byte(nil), new...)
	return nil
}

func (o *concOps) ReadCache(file string) ([]byte, error) {
	o.rs.privateOp("ReadCache", file)
	o.s.mu.Lock()
	defer o.s.mu.Unlock()
	if k, ok := o.keyOf(file); ok {
		o.s.emit("Fetch", map[string]any{"c": o.c, "key": k, "g": 0})
	}
	d, ok := o.s.disk[file]
	if !ok {
		return nil, errors.New("miss")
	}
	return append([]byte(nil), d...), nil
}

func (o *concOps) WriteCache(file string, data []byte) {
	o.rs.privateOp("WriteCache", file)
	o.s.mu.Lock()
	defer o.s.mu.Unlock()
	o.s.disk[file] = append([]byte(nil), data...)
}
func (o *concOps) Log(msg string) {}
func (o *concOps) SecurityError(msg string) {
	o.s.mu.Lock()
	defer o.s.mu.Unlock()
	o.s.emit("Security", map[string]any{"notes": 0, "g": 0})
	o.s.viol = append(o.s.viol, core.Violation{Sig: "c14:security-on-honest", What: "security error raised against an honest server: " + msg})
}

func execConcRun(in runIn, ev func(k string, f any)) []core.Violation {
	rng := rand.New(rand.NewSource(in.Seed*1000003 + int64(in.Run)))
	name := "sum.example"
	skey, vkey, err := note.GenerateKey(rng, name)
	if err != nil {
		panic(err)
	}
	ts := sumdb.NewTestServer(skey, func(path, vers string) ([]byte, error) { return gosumLines(path, vers), nil })
	srv := sumdb.NewServer(ts)
	nmod := 3 + rng.Intn(14)
	type mod struct{ path, vers string }
	mods := make([]mod, nmod)
	for i := range mods {
		p := fmt.Sprintf("example.com/m%d", i)
		if i%3 == 1 {
			p = fmt.Sprintf("example.com/UpperCase/Mod%d", i)
		}
		if i%5 == 4 {
			p = fmt.Sprintf("private.example/secret%d", i)
		}
		mods[i] = mod{p, fmt.Sprintf("v1.%d.0", i)}
	}
	store := &sharedStore{disk: map[string][]byte{}, ev: ev, name: name, vkey: vkey}
	store.emit("Reset", map[string]any{"prefix": 0, "forked": false, "cfg0": sumworld.HeadLabel{Kind: "empty", Tl: "P"}, "seed": in.Seed, "run": in.Run, "g": 0})
	nclients := 1 + rng.Intn(3)
	height := 1 + rng.Intn(8)
	if in.Run == 0 {
		// the first run of a recording works at the far end of a long log: 2001 records are in the log before the clients start,
		// height 1 (their records lie in the level-0 tiles from number 1000 on, where tile paths get a second group of digits)
		height = 1
		for i := 0; i < 2001; i++ {
			rr := httptest.NewRecorder()
			srv.ServeHTTP(rr, httptest.NewRequest("GET", fmt.Sprintf("http://sum.example/lookup/example.com/earlier%d@v1.0.0", i), nil))
			if rr.Code != http.StatusOK {
				panic(fmt.Sprintf("filling the log: %d %s", rr.Code, rr.Body.String()))
			}
		}
	}
	keyOf := func(file string) (int, bool) {
		i := strings.Index(file, "/lookup/")
		if i < 0 {
			return 0, false
		}
		rest := file[i+len("/lookup/"):]
		for k, m := range mods {
			if rest == escapeUpper(m.path)+"@"+m.vers {
				return k, true
			}
		}
		return -1, true
	}
	rs := newRunState()
	clients := make([]*sumdb.Client, nclients)
	for c := range clients {
		cl := sumdb.NewClient(&concOps{rs: rs, s: store, c: c, srv: srv, keyOf: keyOf})
		cl.SetTileHeight(height)
		cl.SetGONOSUMDB(malformedPattern + ",private.example,*.corp.example")
		clients[c] = cl
	}
	ngo := 8 + rng.Intn(57)
	type job struct {
		c, k  int
		gomod bool
	}
	jobs := make([]job, ngo)
	for i := range jobs {
		jobs[i] = job{rng.Intn(nclients), rng.Intn(nmod), rng.Intn(3) == 0}
	}
	var wg sync.WaitGroup
	var vmu sync.Mutex
	var vs []core.Violation
	start := make(chan struct{})
	for g, j := range jobs {
		wg.Add(1)
		go func(g int, j job) {
			defer wg.Done()
			<-start
			m := mods[j.k]
			vers := m.vers
			if j.gomod {
				vers += "/go.mod"
			}
			skip := strings.HasPrefix(m.path, "private.example")
			store.mu.Lock()
			store.emit("LookupStart", map[string]any{"g": g + 1, "key": j.k})
			store.mu.Unlock()
			if skip {
				privateNow.Store(gid(), fmt.Sprintf("Lookup(%s,%s) by goroutine %d", m.path, vers, g+1))
			}
			lines, err, pan := safeLookup(clients[j.c], m.path, vers)
			if pan != nil {
				vmu.Lock()
				vs = append(vs, core.Violation{Sig: "c14:panic", What: fmt.Sprintf("Lookup(%s,%s) panics: %v", m.path, vers, pan)})
				vmu.Unlock()
			}
			privateNow.Delete(gid())
			want := sumworld.Lines(gosumLines(m.path, m.vers), m.path, vers)
			cls := "other"
			if err == nil && core.Eq(lines, want) {
				cls = "true"
			} else if err != nil {
				cls = "none"
			}
			store.mu.Lock()
			store.emit("LookupEnd", map[string]any{"g": g + 1, "key": j.k, "ok": err == nil, "err": classifyErr(err), "lines": cls, "tl": "A", "skip": skip})
			store.mu.Unlock()
			if skip {
				if !errors.Is(err, sumdb.ErrGONOSUMDB) {
					vmu.Lock()
					vs = append(vs, core.Violation{Sig: "c14:skip-not-skipped", What: fmt.Sprintf("Lookup(%s,%s) matches GONOSUMDB but returned %v, %v", m.path, vers, lines, err)})
					vmu.Unlock()
				}
				return
			}
			if err != nil || cls != "true" {
				vmu.Lock()
				vs = append(vs, core.Violation{Sig: "c14:wrong-result", What: fmt.Sprintf("honest server, concurrent Lookup(%s,%s) returned %q, %v (want %q)", m.path, vers, lines, err, want)})
				vmu.Unlock()
			}
		}(g, j)
	}
	close(start)
	// a goroutine that panicked inside the client may have left one of its locks held: do not wait for ever
	allDone := make(chan struct{})
	go func() { wg.Wait(); close(allDone) }()
	select {
	case <-allDone:
	case <-time.After(90 * time.Second):
		vmu.Lock()
		vs = append(vs, core.Violation{Sig: "c14:hang", What: "concurrent lookups against an honest server did not all return within 90 s"})
		vmu.Unlock()
		return vs
	}
	store.mu.Lock()
	final := headLabelOf(store.cfg)
	store.emit("Quiesce", map[string]any{"maxServed": store.maxN, "g": 0})
	if store.maxN > 0 && final.N != store.maxN {
		vs = append(vs, core.Violation{Sig: "c14:quiescent-config", What: fmt.Sprintf("after all lookups finished the stored head has size %d, the largest tree any client received has size %d", final.N, store.maxN)})
	}
	vs = append(vs, store.viol...)
	store.mu.Unlock()
	for _, f := range rs.takePrivate() {
		vs = append(vs, core.Violation{Sig: "c14:skip-not-silent", What: "external operation for a path matching the private pattern list: " + f})
	}
	for i := range vs {
		vs[i].What = fmt.Sprintf("%s [run seed=%d run=%d clients=%d goroutines=%d height=%d]", vs[i].What, in.Seed, in.Run, nclients, ngo, height)
	}
	return vs
}
