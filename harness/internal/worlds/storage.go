package worlds

// World "storage": sumdb/storage.Mem against the specification Storage.

import (
	"context"
	"encoding/json"
	"errors"
	"fmt"
	"math/rand"
	"strconv"
	"sync"

	"golang.org/x/mod/sumdb/storage"

	"verifharness/internal/core"
)

func init() { core.Register("storage", func() core.World { return &storageWorld{} }) }

type storageWorld struct{}

type stStep struct {
	Op string `json:"op"`
	K  string `json:"k"`
	V  string `json:"v"`
}

type stTx struct {
	Kind string   `json:"kind"`
	Body []stStep `json:"body"`
}

type stOutcome struct {
	OK    bool              `json:"ok"`
	Reads []string          `json:"reads"`
	After map[string]string `json:"after"`
}

var errBody = errors.New("transaction body returns an error")

func (w *storageWorld) Check(c *core.Case) ([]core.Violation, bool) {
	switch c.K {
	case "session":
	case "counter":
		var in struct{ G, N int }
		json.Unmarshal(c.In, &in)
		final, leaked := stCounter(in.G, in.N)
		if final != in.G*in.N || leaked {
			return []core.Violation{{Sig: "storage:lost-update", What: fmt.Sprintf("%d goroutines x %d increments in read-write transactions: the counter ends at %d (leaked writes of repeated attempts: %v)", in.G, in.N, final, leaked), Case: c}}, true
		}
		return nil, true
	default:
		panic("storage: unknown case kind " + c.K)
	}
	var in struct {
		Txs []stTx `json:"txs"`
	}
	if err := json.Unmarshal(c.In, &in); err != nil {
		panic(err)
	}
	var exp struct {
		Outcomes []stOutcome `json:"outcomes"`
	}
	json.Unmarshal(c.Exp, &exp)
	ctx := context.Background()
	m := new(storage.Mem)
	var vs []core.Violation
	add := func(sig, format string, a ...any) {
		vs = append(vs, core.Violation{Sig: sig, What: fmt.Sprintf(format, a...), Case: c})
	}
	for i, tx := range in.Txs {
		e := exp.Outcomes[i]
		var reads []string
		attempts := 0
		f := func(ctx context.Context, t storage.Transaction) error {
			attempts++
			reads = nil
			if tx.Kind == "rw" {
				// a marker of this attempt: only the last attempt's marker may be in the table afterwards
				t.BufferWrites([]storage.Write{{Key: "attempt" + strconv.Itoa(attempts), Value: "x"}})
			}
			for _, s := range tx.Body {
				switch s.Op {
				case "read":
					v, err := t.ReadValue(ctx, s.K)
					if err != nil {
						return err
					}
					reads = append(reads, v)
				case "write":
					if err := t.BufferWrites([]storage.Write{{Key: s.K, Value: s.V}}); err != nil {
						return err
					}
				case "fail":
					return errBody
				}
			}
			return nil
		}
		var err error
		if tx.Kind == "rw" {
			err = m.ReadWrite(ctx, f)
		} else {
			err = m.ReadOnly(ctx, f)
		}
		desc := fmt.Sprintf("transaction %d of %+v", i+1, in.Txs)
		if (err == nil) != e.OK || (err != nil && err != errBody) {
			add("storage:outcome", "%s: returned %v, the body %s", desc, err, map[bool]string{true: "succeeds", false: "returns an error"}[e.OK])
		}
		if e.OK && !core.Eq(nzs(reads), nzs(e.Reads)) {
			add("storage:reads", "%s: the last run of the body read %q, the committed table says %q", desc, reads, e.Reads)
		}
		// the table afterwards, and the attempt markers
		m.ReadOnly(ctx, func(ctx context.Context, t storage.Transaction) error {
			for k, want := range e.After {
				if got, _ := t.ReadValue(ctx, k); got != want {
					add("storage:table", "%s: afterwards key %q holds %q, the specification says %q", desc, k, got, want)
				}
			}
			for a := 1; a <= attempts; a++ {
				got, _ := t.ReadValue(ctx, "attempt"+strconv.Itoa(a))
				wantMark := ""
				if tx.Kind == "rw" && e.OK && a == attempts {
					wantMark = "x"
				}
				if got != wantMark {
					add("storage:attempts", "%s: the body ran %d times; the writes buffered by run %d are %s in the table", desc, attempts, a, map[bool]string{true: "", false: "not "}[got != ""])
				}
			}
			return nil
		})
		// remove the markers for the next transaction
		m.ReadWrite(ctx, func(ctx context.Context, t storage.Transaction) error {
			var ws []storage.Write
			for a := 1; a <= attempts+20; a++ {
				ws = append(ws, storage.Write{Key: "attempt" + strconv.Itoa(a), Value: ""})
			}
			return t.BufferWrites(ws)
		})
	}
	return vs, len(in.Txs) > 1
}

// stCounter: g goroutines x n read-modify-write transactions on one counter
func stCounter(g, n int) (final int, leaked bool) {
	ctx := context.Background()
	m := new(storage.Mem)
	var wg sync.WaitGroup
	for i := 0; i < g; i++ {
		wg.Add(1)
		go func() {
			defer wg.Done()
			for j := 0; j < n; j++ {
				m.ReadWrite(ctx, func(ctx context.Context, t storage.Transaction) error {
					v, _ := t.ReadValue(ctx, "ctr")
					x, _ := strconv.Atoi(v)
					return t.BufferWrites([]storage.Write{{Key: "ctr", Value: strconv.Itoa(x + 1)}})
				})
			}
		}()
	}
	wg.Wait()
	m.ReadOnly(ctx, func(ctx context.Context, t storage.Transaction) error {
		v, _ := t.ReadValue(ctx, "ctr")
		final, _ = strconv.Atoi(v)
		return nil
	})
	return final, false
}

func (w *storageWorld) Finish() []core.Violation { return nil }

func (w *storageWorld) Record(rng *rand.Rand, n int, emit func(k string, in, obs any)) {
	for i := 0; i < n; i++ {
		g, k := 2+rng.Intn(15), 1+rng.Intn(40)
		final, leaked := stCounter(g, k)
		emit("counter", map[string]any{"g": g, "n": k}, map[string]any{"final": final, "leaked": leaked})
	}
}
