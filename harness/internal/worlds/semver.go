package worlds

import (
	"encoding/json"
	"fmt"
	"math/rand"
	"sort"
	"strings"
	"sync"

	"golang.org/x/mod/module"
	"golang.org/x/mod/semver"

	"verifharness/internal/concrete"
	"verifharness/internal/core"
)

func init() { core.Register("semver", func() core.World { return &semverWorld{} }) }

type semverWorld struct {
	mu    sync.Mutex
	ranks []rankCase
}

type rankCase struct {
	s     string
	rank  int
	valid bool
	c     *core.Case
}

type semverStrIn struct {
	S    []int   `json:"s"`
	Refs [][]int `json:"refs"`
}

// semverObsStr is what the real code returns for one string.
func semverObsStr(s string, refs []string) map[string]any {
	cmp := make([]int, len(refs))
	for i, r := range refs {
		cmp[i] = semver.Compare(s, r)
	}
	return map[string]any{
		"valid":    semver.IsValid(s),
		"canon":    concrete.Ints(semver.Canonical(s)),
		"major":    concrete.Ints(semver.Major(s)),
		"mm":       concrete.Ints(semver.MajorMinor(s)),
		"pre":      concrete.Ints(semver.Prerelease(s)),
		"build":    concrete.Ints(semver.Build(s)),
		"modcanon": concrete.Ints(module.CanonicalVersion(s)),
		"cmpref":   cmp,
	}
}

func semverObsCmp(a, b string) map[string]any {
	return map[string]any{
		"cmp":  semver.Compare(a, b),
		"rcmp": semver.Compare(b, a),
		"max":  concrete.Ints(semver.Max(a, b)),
	}
}

func (w *semverWorld) Check(c *core.Case) ([]core.Violation, bool) {
	switch c.K {
	case "str":
		var in semverStrIn
		if err := json.Unmarshal(c.In, &in); err != nil {
			panic(err)
		}
		var exp map[string]any
		json.Unmarshal(c.Exp, &exp)
		s := concrete.Str(in.S)
		obs := semverObsStr(s, concrete.Strs(in.Refs))
		nt, _ := exp["valid"].(bool) // non-trivial: a version the specification calls valid
		if d := core.Diff(exp, obs); len(d) > 0 {
			return []core.Violation{{Sig: "str:" + d[0], What: fmt.Sprintf("semver accessors on %q: fields %v differ from the specification", s, d), Case: c, Obs: obs}}, nt
		}
		return nil, nt
	case "cmp":
		var in struct{ A, B []int }
		json.Unmarshal(c.In, &in)
		var exp map[string]any
		json.Unmarshal(c.Exp, &exp)
		a, b := concrete.Str(in.A), concrete.Str(in.B)
		obs := semverObsCmp(a, b)
		if d := core.Diff(exp, obs); len(d) > 0 {
			return []core.Violation{{Sig: "cmp:" + d[0], What: fmt.Sprintf("Compare/Max(%q,%q): fields %v differ", a, b, d), Case: c, Obs: obs}}, true
		}
		return nil, true
	case "sort":
		var in struct{ List [][]int }
		json.Unmarshal(c.In, &in)
		var exp struct{ Out [][]int }
		json.Unmarshal(c.Exp, &exp)
		l := concrete.Strs(in.List)
		semver.Sort(l)
		if !core.Eq(concrete.IntsList(l), exp.Out) {
			return []core.Violation{{Sig: "sort:out", What: fmt.Sprintf("Sort result %q differs from the specification", l), Case: c, Obs: concrete.IntsList(l)}}, true
		}
		return nil, true
	case "modsort":
		// module.Sort against the specification ModuleSort (path, then version up to a slash by precedence, then the rest)
		var in struct{ List [][][]int }
		json.Unmarshal(c.In, &in)
		var exp struct {
			Total bool
			Out   [][][]int
		}
		json.Unmarshal(c.Exp, &exp)
		mk := func(l [][][]int) []module.Version {
			var out []module.Version
			for _, e := range l {
				out = append(out, module.Version{Path: concrete.Str(e[0]), Version: concrete.Str(e[1])})
			}
			return out
		}
		l := mk(in.List)
		orig := append([]module.Version(nil), l...)
		module.Sort(l)
		count := map[module.Version]int{}
		for _, e := range orig {
			count[e]++
		}
		for _, e := range l {
			count[e]--
		}
		for _, n := range count {
			if n != 0 {
				return []core.Violation{{Sig: "modsort:permutation", What: fmt.Sprintf("module.Sort(%v) = %v is not a permutation of its input", orig, l), Case: c}}, true
			}
		}
		if exp.Total {
			if want := mk(exp.Out); !core.Eq(fmt.Sprint(l), fmt.Sprint(want)) {
				return []core.Violation{{Sig: "modsort:order", What: fmt.Sprintf("module.Sort(%v) = %v; by path, then version precedence, then file suffix it is %v", orig, l, want), Case: c}}, true
			}
		}
		return nil, exp.Total && len(l) > 1
	case "rank":
		var in struct{ S []int }
		json.Unmarshal(c.In, &in)
		var exp struct {
			Rank  int
			Valid bool
		}
		json.Unmarshal(c.Exp, &exp)
		w.mu.Lock()
		w.ranks = append(w.ranks, rankCase{concrete.Str(in.S), exp.Rank, exp.Valid, c})
		w.mu.Unlock()
		return nil, exp.Valid
	case "rankpair":
		// replay form of an all-pairs failure
		var in struct {
			A, B   []int
			RA, RB int
		}
		json.Unmarshal(c.In, &in)
		a, b := concrete.Str(in.A), concrete.Str(in.B)
		if got, want := semver.Compare(a, b), sign(in.RA-in.RB); got != want {
			return []core.Violation{{Sig: "rank:compare", What: fmt.Sprintf("Compare(%q,%q)=%d, specification rank order says %d", a, b, got, want), Case: c}}, true
		}
		return nil, true
	}
	panic("semver: unknown case kind " + c.K)
}

func sign(x int) int {
	if x < 0 {
		return -1
	}
	if x > 0 {
		return 1
	}
	return 0
}

// Finish checks Compare on all pairs of the ranked vocabulary and Sort on
// sub-lists against the order induced by (rank, string).
func (w *semverWorld) Finish() []core.Violation {
	var out []core.Violation
	r := w.ranks
	if len(r) == 0 {
		return nil
	}
	sort.Slice(r, func(i, j int) bool { return r[i].s < r[j].s })
	bad := 0
	for i := range r {
		for j := range r {
			got := semver.Compare(r[i].s, r[j].s)
			if got != sign(r[i].rank-r[j].rank) {
				bad++
				if bad <= 3 {
					in, _ := json.Marshal(map[string]any{"a": concrete.Ints(r[i].s), "b": concrete.Ints(r[j].s), "ra": r[i].rank, "rb": r[j].rank})
					out = append(out, core.Violation{Sig: "rank:compare",
						What: fmt.Sprintf("Compare(%q,%q)=%d but specification ranks are %d and %d", r[i].s, r[j].s, got, r[i].rank, r[j].rank),
						Case: &core.Case{W: "semver", K: "rankpair", In: in}})
				}
			}
		}
	}
	// Sort on deterministic pseudo-random sub-lists
	rng := rand.New(rand.NewSource(int64(len(r))))
	for t := 0; t < 300 && bad == 0; t++ {
		n := 2 + rng.Intn(30)
		sub := make([]rankCase, n)
		for i := range sub {
			sub[i] = r[rng.Intn(len(r))]
		}
		l := make([]string, n)
		for i := range sub {
			l[i] = sub[i].s
		}
		semver.Sort(l)
		sort.SliceStable(sub, func(i, j int) bool {
			if sub[i].rank != sub[j].rank {
				return sub[i].rank < sub[j].rank
			}
			return sub[i].s < sub[j].s
		})
		for i := range sub {
			if sub[i].s != l[i] {
				in, _ := json.Marshal(map[string]any{"list": concrete.IntsList(l)})
				out = append(out, core.Violation{Sig: "rank:sort", What: fmt.Sprintf("Sort gives %q, specification order differs at %d", l, i), Case: &core.Case{W: "semver", K: "sortfree", In: in}})
				break
			}
		}
	}
	return out
}

var semverPieces = []string{"v", "0", "1", "2", "9", "10", "01", "00", ".", ".", ".", "-", "+", "a", "A", "z", "rc", "beta", "alpha", "x", "-", "0a", "a0",
	"18446744073709551616", "99999999999999999999999999", "incompatible", "é", " ", "_", "V"}

func randVersion(rng *rand.Rand) string {
	switch rng.Intn(10) {
	case 0: // soup
		var sb strings.Builder
		for i, n := 0, rng.Intn(8); i < n; i++ {
			sb.WriteString(semverPieces[rng.Intn(len(semverPieces))])
		}
		return sb.String()
	default:
		num := func() string {
			switch rng.Intn(6) {
			case 0:
				return "0"
			case 1:
				return fmt.Sprint(rng.Intn(3))
			case 2:
				return fmt.Sprint(rng.Intn(1000))
			case 3:
				return "184467440737095516" + fmt.Sprint(rng.Intn(100))
			case 4:
				return "0" + fmt.Sprint(rng.Intn(10))
			}
			return fmt.Sprint(rng.Intn(20))
		}
		id := func() string {
			switch rng.Intn(6) {
			case 0:
				return num()
			case 1:
				return []string{"a", "A", "rc", "beta", "alpha", "-", "a-b", "0a", "x1"}[rng.Intn(9)]
			case 2:
				return ""
			}
			return []string{"a", "b", "1", "2", "10", "rc1"}[rng.Intn(6)]
		}
		s := "v" + num()
		nf := rng.Intn(4)
		if nf >= 1 {
			s += "." + num()
		}
		if nf >= 2 {
			s += "." + num()
		}
		if nf == 3 && rng.Intn(3) == 0 {
			s += "." + num()
		}
		if rng.Intn(3) == 0 {
			s += "-" + id()
			for rng.Intn(3) == 0 {
				s += "." + id()
			}
		}
		if rng.Intn(4) == 0 {
			s += "+" + []string{"incompatible", "b", "b.1", "", "01", "meta-1"}[rng.Intn(6)]
		}
		if rng.Intn(25) == 0 && len(s) > 1 { // mutate one byte
			b := []byte(s)
			b[rng.Intn(len(b))] = "v.-+0a1 "[rng.Intn(8)]
			s = string(b)
		}
		return s
	}
}

func (w *semverWorld) Record(rng *rand.Rand, n int, emit func(k string, in, obs any)) {
	refs := []string{"v1.0.0", "v1.0.0-a", "v0.1", "v1.2.3-rc.1", "v10", "v1.0.0-a.1"}
	for i := 0; i < n; i++ {
		switch rng.Intn(10) {
		case 0, 1, 2, 3, 4:
			s := randVersion(rng)
			emit("str", map[string]any{"s": concrete.Ints(s), "refs": concrete.IntsList(refs)}, semverObsStr(s, refs))
		case 5, 6, 7, 8:
			a, b := randVersion(rng), randVersion(rng)
			if rng.Intn(4) == 0 {
				b = semver.Canonical(a) + []string{"", "+b", "+incompatible"}[rng.Intn(3)]
			}
			emit("cmp", map[string]any{"a": concrete.Ints(a), "b": concrete.Ints(b)}, semverObsCmp(a, b))
		default:
			m := 2 + rng.Intn(7)
			l := make([]string, m)
			for j := range l {
				l[j] = randVersion(rng)
				if j > 0 && rng.Intn(4) == 0 {
					l[j] = l[rng.Intn(j)] + []string{"", "+x", "+a"}[rng.Intn(3)]
				}
			}
			in := concrete.IntsList(l)
			out := append([]string(nil), l...)
			semver.Sort(out)
			emit("sort", map[string]any{"list": in}, map[string]any{"out": concrete.IntsList(out)})
		}
	}
}
