package worlds

import (
	"encoding/json"
	"fmt"
	"math/rand"
	"strings"

	"golang.org/x/mod/module"

	"verifharness/internal/concrete"
	"verifharness/internal/core"
)

func init() { core.Register("modpath", func() core.World { return &modpathWorld{} }) }

type modpathWorld struct{}

func (w *modpathWorld) Finish() []core.Violation { return nil }

func modpathObs(p string, versions []string) map[string]any {
	pre, sfx, ok := module.SplitPathVersion(p)
	check := make([]bool, len(versions))
	major := make([]bool, len(versions))
	for i, v := range versions {
		check[i] = module.Check(p, v) == nil
		major[i] = module.CheckPathMajor(v, sfx) == nil && module.MatchPathMajor(v, sfx)
	}
	if !ok {
		// when the split fails the documented result is (path, "", false)
	}
	return map[string]any{
		"mod":   module.CheckPath(p) == nil,
		"imp":   module.CheckImportPath(p) == nil,
		"file":  module.CheckFilePath(p) == nil,
		"split": map[string]any{"prefix": concrete.Ints(pre), "suffix": concrete.Ints(sfx), "ok": ok},
		"check": check,
		"major": major,
	}
}

func (w *modpathWorld) Check(c *core.Case) ([]core.Violation, bool) {
	switch c.K {
	case "path":
		var in struct {
			P        []int   `json:"p"`
			Versions [][]int `json:"versions"`
		}
		if err := json.Unmarshal(c.In, &in); err != nil {
			panic(err)
		}
		var exp map[string]any
		json.Unmarshal(c.Exp, &exp)
		p := concrete.Str(in.P)
		obs := modpathObs(p, concrete.Strs(in.Versions))
		nt := module.CheckFilePath(p) == nil
		var vs []core.Violation
		if d := core.Diff(exp, obs); len(d) > 0 {
			vs = append(vs, core.Violation{Sig: "path:" + d[0], What: fmt.Sprintf("path %q: %v differ from the documented rules: code %v, specification %v", p, d, pickKeys(obs, d), pickKeys(exp, d)), Case: c, Obs: obs})
		}
		// PathMajorPrefix must not panic on what SplitPathVersion returns for a valid module path
		if module.CheckPath(p) == nil {
			_, sfx, _ := module.SplitPathVersion(p)
			func() {
				defer func() {
					if r := recover(); r != nil {
						vs = append(vs, core.Violation{Sig: "path:pathmajorprefix-panic", What: fmt.Sprintf("PathMajorPrefix(%q) panics on the suffix of the valid module path %q: %v", sfx, p, r), Case: c})
					}
				}()
				module.PathMajorPrefix(sfx)
			}()
		}
		return vs, nt
	case "glob":
		var in struct {
			Globs  []int `json:"globs"`
			Target []int `json:"target"`
		}
		json.Unmarshal(c.In, &in)
		var exp struct {
			Match bool `json:"match"`
		}
		json.Unmarshal(c.Exp, &exp)
		g, t := concrete.Str(in.Globs), concrete.Str(in.Target)
		if got := module.MatchPrefixPatterns(g, t); got != exp.Match {
			return viol(c, "glob:match", "MatchPrefixPatterns(%q,%q)=%v, the documented prefix-glob definition gives %v", g, t, got, exp.Match), true
		}
		return nil, true
	}
	if strings.HasPrefix(c.K, "esc") {
		return checkEscapeCase(c)
	}
	panic("modpath: unknown case kind " + c.K)
}

func pickKeys(m map[string]any, ks []string) map[string]any {
	out := map[string]any{}
	for _, k := range ks {
		out[k] = m[k]
	}
	return out
}

var pathTable = []string{"example.com/m", "github.com/user/repo", "gopkg.in/yaml.v2", "gopkg.in/check.v1", "rsc.io/quote/v3", "golang.org/x/mod", "x.y/z",
	"example.com/UPPER/lower", "example.com/a.b~c/d", "example.com/con.d/e", "example.com/pkg/v2", "gopkg.in/src-d/go-git.v4", "example.com/.hidden", "k8s.io/api", "gopkg.in/x.v0", "gopkg.in/x.v3-unstable"}

func mutatePath(rng *rand.Rand, p string) string {
	b := []byte(p)
	chars := "./-~_+!@ vV0129aA:\\*?é\xff"
	for k, n := 0, 1+rng.Intn(2); k < n; k++ {
		if len(b) == 0 {
			break
		}
		i := rng.Intn(len(b))
		switch rng.Intn(4) {
		case 0:
			b = append(b[:i], b[i+1:]...)
		case 1:
			b[i] = chars[rng.Intn(len(chars))]
		case 2:
			b = append(b[:i], append([]byte{chars[rng.Intn(len(chars))]}, b[i:]...)...)
		default:
			suf := []string{"/v2", "/v1", "/v02", ".v2", ".v1-unstable", "-unstable", "/con", "/a~1", "/v2.3", "/", "."}
			b = append(b, suf[rng.Intn(len(suf))]...)
		}
	}
	return string(b)
}

func specAlphabetOK(s string) bool {
	for _, r := range s {
		if !(r < 128 || r == 233 || r == 0xFFFD) {
			return false
		}
	}
	return true
}

func (w *modpathWorld) Record(rng *rand.Rand, n int, emit func(k string, in, obs any)) {
	versions := []string{"v1.0.0", "v0.3.0", "v2.0.0", "v2.0.0+incompatible", "v0.0.0-20190101000000-abcdefabcdef", "v4.0.0", "bad", "v3.1.4-pre"}
	for i := 0; i < n; i++ {
		if rng.Intn(5) == 0 {
			gp := []string{"a", "b", "*", "?", "[ab]", "[^a]", "[a-c]", "\\*", "/", "[", ",", "*.com", "x.com", "corp", "*/internal"}
			var g strings.Builder
			for j, m := 0, 1+rng.Intn(4); j < m; j++ {
				g.WriteString(gp[rng.Intn(len(gp))])
			}
			tg := []string{"a", "b", "a/b", "ab/c", "a/b/c", "x.com/a", "x.com", "corp/internal/x", "c"}
			t := tg[rng.Intn(len(tg))]
			emit("glob", map[string]any{"globs": concrete.Ints(g.String()), "target": concrete.Ints(t)}, map[string]any{"match": module.MatchPrefixPatterns(g.String(), t)})
			continue
		}
		p := mutatePath(rng, pathTable[rng.Intn(len(pathTable))])
		if !specAlphabetOK(p) {
			i--
			continue
		}
		if rng.Intn(3) == 0 {
			// escaping: the string itself, or its escape, or a version-like string
			s := p
			switch rng.Intn(3) {
			case 0:
				if e, err := module.EscapePath(p); err == nil {
					s = e
				}
			case 1:
				s = []string{"v1.0.0", "v1.0.0-RC1", "V1", "v1.0.0+Meta", "v!1", "1.0", "v1 0", "vA.B"}[rng.Intn(8)]
			}
			emit("esc", map[string]any{"s": concrete.Ints(s)}, escObs(s))
			continue
		}
		emit("path", map[string]any{"p": concrete.Ints(p), "versions": concrete.IntsList(versions)}, modpathObs(p, versions))
	}
}
