package worlds

// World "sumserver": the repository's checksum database server (sumdb.Server over sumdb.TestServer) against the
// specification SumdbServer.  Sessions of requests are replayed over HTTP (httptest); every response is compared
// with the specification's: record id, record text, a signed head of the right size whose hash is the RFC 6962
// hash of the log so far (independent reference), tile bytes, refusals.

import (
	"bytes"
	"encoding/json"
	"fmt"
	"math/rand"
	"net/http"
	"net/http/httptest"
	"sort"
	"strings"
	"sync"

	"golang.org/x/mod/sumdb"
	"golang.org/x/mod/sumdb/note"
	"golang.org/x/mod/sumdb/tlog"

	"verifharness/internal/core"
	"verifharness/internal/refmerkle"
)

func init() { core.Register("sumserver", func() core.World { return &sumServerWorld{} }) }

type sumServerWorld struct{}

type srvKey struct{ path, vers, wire string }

// the module keys of the specification: what the module is, and what the client puts on the wire
var srvKeys = map[string]srvKey{
	"lower":        {"example.com/a", "v1.0.0", "example.com/a@v1.0.0"},
	"upper":        {"example.com/Upper/B", "v1.2.3-RC1", "example.com/!upper/!b@v1.2.3-!r!c1"},
	"incompatible": {"example.com/c", "v2.0.0+incompatible", "example.com/c@v2.0.0+incompatible"},
	// malformed lookups
	"noat":      {"", "", "example.com/a"},
	"shortvers": {"", "", "example.com/a@v1"},
	"badescape": {"", "", "exa!Mple.com/a@v1.0.0"},
	"rawupper":  {"", "", "Example.com/a@v1.0.0"},
}

func srvGosum(path, vers string) []byte {
	return []byte(fmt.Sprintf("%s %s h1:%s=\n%s %s/go.mod h1:%s=\n", path, vers, strings.Repeat("z", 43), path, vers, strings.Repeat("m", 43)))
}

type srvReq struct {
	Op  string `json:"op"`
	Key string `json:"key"`
	L   int    `json:"l"`
	T   int64  `json:"t"`
	W   int    `json:"w"`
}

type srvResp struct {
	OK bool  `json:"ok"`
	ID int64 `json:"id"`
	N  int64 `json:"n"`
}

func newSrv() (*sumdb.Server, note.Verifier, string) {
	skey, vkey, err := note.GenerateKey(rand.New(rand.NewSource(7)), "verif.example/server")
	if err != nil {
		panic(err)
	}
	ts := sumdb.NewTestServer(skey, func(path, vers string) ([]byte, error) { return srvGosum(path, vers), nil })
	v, err := note.NewVerifier(vkey)
	if err != nil {
		panic(err)
	}
	return sumdb.NewServer(ts), v, vkey
}

// srvGet performs one request.  A panic of the handler is what net/http turns into a broken connection for that
// request: it counts as a refusal (TestServer.ReadTileData indexes its hash list without a bounds check, so a tile
// beyond the log panics there; that is a test helper's way of saying no, not something a property speaks about).
func srvGet(s *sumdb.Server, path string) (code int, body []byte) {
	defer func() {
		if r := recover(); r != nil {
			code, body = http.StatusInternalServerError, []byte(fmt.Sprintf("panic: %v", r))
		}
	}()
	rr := httptest.NewRecorder()
	s.ServeHTTP(rr, httptest.NewRequest("GET", "http://sum.example"+path, nil))
	return rr.Code, rr.Body.Bytes()
}

// headOK: msg is a note signed by the server key over the tree head of the first n records of log
func headOK(msg []byte, v note.Verifier, log []string, n int64) string {
	nt, err := note.Open(msg, note.VerifierList(v))
	if err != nil {
		return "signed head does not open: " + err.Error()
	}
	tree, err := tlog.ParseTree([]byte(nt.Text))
	if err != nil {
		return "signed text is not a tree head: " + err.Error()
	}
	if tree.N != n {
		return fmt.Sprintf("signed head has size %d, the log has %d records", tree.N, n)
	}
	var leaves []refmerkle.Hash
	for _, k := range log[:n] {
		leaves = append(leaves, refmerkle.LeafHash(srvGosum(srvKeys[k].path, srvKeys[k].vers)))
	}
	want := refmerkle.MTH(leaves)
	if n == 0 {
		want = refmerkle.Hash(tlog.Hash{}) // the documented hash of the empty tree is checked by C09; here: whatever TreeHash(0) is
		if th, err := tlog.TreeHash(0, nil); err == nil {
			want = refmerkle.Hash(th)
		}
	}
	if [32]byte(tree.Hash) != want {
		return fmt.Sprintf("signed head of size %d does not carry the RFC 6962 hash of the log", n)
	}
	return ""
}

func (w *sumServerWorld) Check(c *core.Case) ([]core.Violation, bool) {
	switch c.K {
	case "session":
		return checkSrvSession(c)
	case "conc":
		var in struct{ Seed int64 }
		json.Unmarshal(c.In, &in)
		if msg := srvConcurrent(in.Seed); msg != "" {
			return []core.Violation{{Sig: "server:concurrent", What: msg, Case: c}}, true
		}
		return nil, true
	}
	panic("sumserver: unknown case kind " + c.K)
}

func checkSrvSession(c *core.Case) ([]core.Violation, bool) {
	var in struct {
		H    int      `json:"h"`
		Reqs []srvReq `json:"reqs"`
	}
	if err := json.Unmarshal(c.In, &in); err != nil {
		panic(err)
	}
	var exp struct {
		Resps []srvResp `json:"resps"`
		Log   []string  `json:"log"`
	}
	json.Unmarshal(c.Exp, &exp)
	srv, verifier, _ := newSrv()
	var vs []core.Violation
	var log []string // the log as the specification has it after each request
	desc := func(i int) string { return fmt.Sprintf("request %d of %+v", i+1, in.Reqs) }
	add := func(sig, format string, a ...any) {
		vs = append(vs, core.Violation{Sig: sig, What: fmt.Sprintf(format, a...), Case: c})
	}
	for i, r := range in.Reqs {
		e := exp.Resps[i]
		switch r.Op {
		case "lookup", "badlookup":
			code, body := srvGet(srv, "/lookup/"+srvKeys[r.Key].wire)
			if r.Op == "badlookup" {
				if code == http.StatusOK {
					add("server:malformed-accepted", "%s: the malformed lookup %q is answered with 200", desc(i), srvKeys[r.Key].wire)
				}
				continue
			}
			if code != http.StatusOK {
				add("server:lookup-refused", "%s: lookup of %q answered %d %s", desc(i), srvKeys[r.Key].wire, code, bytes.TrimSpace(body))
				return vs, true
			}
			known := false
			for _, k := range log {
				known = known || k == r.Key
			}
			if !known {
				log = append(log, r.Key)
			}
			id, text, rest, err := tlog.ParseRecord(body)
			if err != nil {
				add("server:lookup-format", "%s: response does not start with a record: %v", desc(i), err)
				continue
			}
			if id != e.ID || !bytes.Equal(text, srvGosum(srvKeys[r.Key].path, srvKeys[r.Key].vers)) {
				add("server:lookup-record", "%s: record id %d text %q; the log has this module at id %d with its go.sum lines", desc(i), id, text, e.ID)
			}
			if msg := headOK(rest, verifier, log, e.N); msg != "" {
				add("server:lookup-head", "%s: %s", desc(i), msg)
			}
		case "latest":
			code, body := srvGet(srv, "/latest")
			if code != http.StatusOK {
				add("server:latest-refused", "%s: /latest answered %d", desc(i), code)
				continue
			}
			if msg := headOK(body, verifier, log, e.N); msg != "" {
				add("server:latest-head", "%s: %s", desc(i), msg)
			}
		case "tile":
			t := tlog.Tile{H: in.H, L: r.L, N: r.T, W: r.W}
			code, body := srvGet(srv, "/"+t.Path())
			if (code == http.StatusOK) != e.OK {
				add("server:tile-verdict", "%s: tile %s answered %d; with %d records the tile %s", desc(i), t.Path(), code, len(log), map[bool]string{true: "exists", false: "does not exist"}[e.OK])
				continue
			}
			if !e.OK {
				continue
			}
			var want []byte
			if r.L == -1 {
				for j := 0; j < r.W; j++ {
					k := log[int(r.T)<<uint(in.H)+j]
					want = append(want, srvGosum(srvKeys[k].path, srvKeys[k].vers)...)
					want = append(want, '\n')
				}
			} else {
				span := 1 << uint(r.L*in.H)
				for j := 0; j < r.W; j++ {
					lo := (int(r.T)<<uint(in.H) + j) * span
					var leaves []refmerkle.Hash
					for _, k := range log[lo : lo+span] {
						leaves = append(leaves, refmerkle.LeafHash(srvGosum(srvKeys[k].path, srvKeys[k].vers)))
					}
					h := refmerkle.MTH(leaves)
					want = append(want, h[:]...)
				}
			}
			if !bytes.Equal(body, want) {
				add("server:tile-content", "%s: tile %s has %d bytes that are not the %d bytes the log defines", desc(i), t.Path(), len(body), len(want))
			}
		}
	}
	if !core.Eq(nzs(log), nzs(exp.Log)) {
		core.NoteDrift(fmt.Sprintf("sumserver: harness mirror of the log %v differs from the specification's %v", log, exp.Log))
	}
	return vs, len(in.Reqs) > 1
}

// srvConcurrent: many goroutines look up overlapping modules at once; afterwards every module has one id, ids are
// dense, and each response was covered by the head it carried.
func srvConcurrent(seed int64) string {
	srv, verifier, _ := newSrv()
	rng := rand.New(rand.NewSource(seed))
	names := []string{"lower", "upper", "incompatible"}
	type res struct {
		key string
		id  int64
		n   int64
	}
	var mu sync.Mutex
	var out []res
	var bad []string
	var wg sync.WaitGroup
	start := make(chan struct{})
	for g := 0; g < 24; g++ {
		k := names[rng.Intn(len(names))]
		wg.Add(1)
		go func(k string) {
			defer wg.Done()
			<-start
			code, body := srvGet(srv, "/lookup/"+srvKeys[k].wire)
			if code != http.StatusOK {
				mu.Lock()
				bad = append(bad, fmt.Sprintf("lookup of %s answered %d", k, code))
				mu.Unlock()
				return
			}
			id, _, rest, err := tlog.ParseRecord(body)
			var n int64 = -1
			if err == nil {
				if nt, err := note.Open(rest, note.VerifierList(verifier)); err == nil {
					if tr, err := tlog.ParseTree([]byte(nt.Text)); err == nil {
						n = tr.N
					}
				}
			}
			mu.Lock()
			out = append(out, res{k, id, n})
			mu.Unlock()
		}(k)
	}
	close(start)
	wg.Wait()
	if len(bad) > 0 {
		return strings.Join(bad, "; ")
	}
	ids := map[string]int64{}
	for _, r := range out {
		if prev, ok := ids[r.key]; ok && prev != r.id {
			return fmt.Sprintf("module %s was given the ids %d and %d by concurrent lookups", r.key, prev, r.id)
		}
		ids[r.key] = r.id
		if r.n <= r.id {
			return fmt.Sprintf("a lookup of %s returned id %d with a signed head of size %d that does not cover it", r.key, r.id, r.n)
		}
	}
	var got []int
	for _, id := range ids {
		got = append(got, int(id))
	}
	sort.Ints(got)
	for i, id := range got {
		if id != i {
			return fmt.Sprintf("record ids after concurrent lookups are %v, not 0..%d", got, len(got)-1)
		}
	}
	return ""
}

func (w *sumServerWorld) Finish() []core.Violation { return nil }

// Record: concurrent sessions (the specification says what must hold afterwards: one id per module, dense, covered)
func (w *sumServerWorld) Record(rng *rand.Rand, n int, emit func(k string, in, obs any)) {
	for i := 0; i < n; i++ {
		seed := rng.Int63()
		emit("conc", map[string]any{"seed": seed}, map[string]any{"ok": srvConcurrent(seed) == ""})
	}
}
