package worlds

import (
	"bytes"
	"crypto/ed25519"
	"crypto/sha256"
	"encoding/base64"
	"encoding/binary"
	"encoding/json"
	"fmt"
	"math/rand"
	"strings"
	"sync"

	"golang.org/x/mod/sumdb/note"

	"verifharness/internal/core"
)

func init() { core.Register("note", func() core.World { return &noteWorld{} }) }

type noteWorld struct{}

func (w *noteWorld) Finish() []core.Violation { return nil }

// ---- keys of the specification (K1..K4) made concrete ----

type noteKey struct {
	id   int
	name string
	priv ed25519.PrivateKey
	pub  ed25519.PublicKey
	hash uint32 // the key hash that appears in signature lines and that its verifier reports
}

// cname / aname: the specification's key names are letters; the second one is spelled with two characters beyond ASCII whose
// UTF-8 encodings contain the bytes 0xA0 and 0x85 (on their own the code points of NBSP and NEL, which a name may not contain)
func cname(n string) string {
	if n == "B" {
		return "B\u00e0\u0405"
	}
	return n
}

func aname(n string) string {
	if n == "B\u00e0\u0405" {
		return "B"
	}
	return n
}

func realKeyHash(name string, pub ed25519.PublicKey) uint32 {
	h := sha256.New()
	h.Write([]byte(name))
	h.Write([]byte("\n"))
	h.Write(append([]byte{1}, pub...))
	return binary.BigEndian.Uint32(h.Sum(nil))
}

var noteKeys = func() map[int]*noteKey {
	m := map[int]*noteKey{}
	for id, name := range map[int]string{1: "A", 2: "B", 3: "A", 4: "A", 5: "A", 6: "A"} {
		name = cname(name)
		seed := sha256.Sum256([]byte(fmt.Sprintf("note key %d", id)))
		priv := ed25519.NewKeyFromSeed(seed[:])
		k := &noteKey{id: id, name: name, priv: priv, pub: priv.Public().(ed25519.PublicKey)}
		k.hash = realKeyHash(name, k.pub)
		m[id] = k
	}
	m[4].hash = m[1].hash // other keys under K1's name and key hash
	m[5].hash = m[1].hash
	m[6].hash = m[1].hash
	return m
}()

// model hash -> concrete hash
func concreteHash(h int) uint32 {
	switch h {
	case 11:
		return noteKeys[1].hash
	case 22:
		return noteKeys[2].hash
	case 33:
		return noteKeys[3].hash
	}
	return 0xdeadbeef
}

// recVerifier verifies with one key and records every call.
type recVerifier struct {
	k     *noteKey
	name  string
	mu    *sync.Mutex
	calls *[]verifyCall
}

type verifyCall struct {
	name string
	hash uint32
	msg  string
	ok   bool
}

func (v *recVerifier) Name() string    { return v.name }
func (v *recVerifier) KeyHash() uint32 { return v.k.hash }
func (v *recVerifier) Verify(msg, sig []byte) bool {
	ok := ed25519.Verify(v.k.pub, msg, sig)
	v.mu.Lock()
	*v.calls = append(*v.calls, verifyCall{v.name, v.k.hash, string(msg), ok})
	v.mu.Unlock()
	return ok
}

// liarVerifiers answers every lookup with a verifier whose name differs from the one asked for.
type liarVerifiers struct{ v note.Verifier }

func (l liarVerifiers) Verifier(name string, hash uint32) (note.Verifier, error) { return l.v, nil }

// ---- messages ----

type noteLine struct {
	K      string          `json:"k"`
	ID     int             `json:"id"`
	Bad    bool            `json:"bad"`
	Name   string          `json:"name"`
	NameOK bool            `json:"nameok"`
	Hash   int             `json:"hash"`
	Key    int             `json:"key"`
	Over   []noteLine      `json:"over"`
	Form   string          `json:"form"`
	UID    json.RawMessage `json:"uid"`
}

func hasBadChar(l string) bool {
	for i := 0; i < len(l); {
		r, size := decodeRune(l[i:])
		if r < 0x20 || (r == 0xFFFD && size == 1) {
			return true
		}
		i += size
	}
	return false
}

type noteMsg struct {
	Lines   []noteLine `json:"lines"`
	FinalNL bool       `json:"finalnl"`
}

// badTextForms: concrete spellings of "a text line with a character the format forbids" (the specification only knows
// that the line is bad): a control character between ASCII letters, directly after a two-byte and after a three-byte
// character, a tab, a carriage return at the end of the line, a byte that is not UTF-8 alone / after a multi-byte
// character, a truncated multi-byte character at the end of the line, a NUL at the start.
var badTextForms = []string{"bad\x01line %d", "bad\u00e9\x01line %d", "bad \u4e2d\x1f %d", "bad\tline %d", "bad line %d\r", "bad\xffline %d", "bad\u00e9\xffline %d",
	"bad line %d \xe4\xb8", "\x00bad line %d", "bad\u00e9\tline %d", "bad \U0001F600\x02 %d"}

const longSigForm = 1000

func lineText(l noteLine) string { return lineTextF(l, 0) }

func lineTextF(l noteLine, form int) string {
	switch l.K {
	case "blank":
		return ""
	case "txt":
		if l.Bad {
			return fmt.Sprintf(badTextForms[form%len(badTextForms)], l.ID)
		}
		if l.ID%2 == 1 {
			return fmt.Sprintf("text line %d \u00e9 \ufffd \u4e2d", l.ID) // valid UTF-8, including an encoded U+FFFD
		}
		// even lines begin with U+FEFF (a text may begin with it; it is a character like any other, not a mark to strip)
		return fmt.Sprintf("\ufefftext line %d", l.ID)
	}
	// signature line
	name := cname(l.Name)
	if !l.NameOK {
		name = "bad+name"
	}
	if l.Bad {
		name += "\x01"
	}
	var b64 string
	switch l.Form {
	case "short":
		b64 = base64.StdEncoding.EncodeToString([]byte{1, 2, 3})
	case "notb64":
		b64 = "!!!!not-base64"
	default:
		var hbuf [4]byte
		binary.BigEndian.PutUint32(hbuf[:], concreteHash(l.Hash))
		var sig []byte
		if k, ok := noteKeys[l.Key]; ok {
			sig = ed25519.Sign(k.priv, []byte(textOfF(l.Over, form)))
		} else {
			s := sha256.Sum256(append([]byte("junk signature "), l.UID...))
			sig = append(s[:], s[:]...)
			if form >= longSigForm {
				// the same junk, 60000 bytes of it: a signature line of 80 KB (signature schemes other than Ed25519
				// may have signatures of any length; the message stays far below the documented 1 MB limit)
				sig = bytes.Repeat(s[:], 1875)
			}
		}
		b64 = base64.StdEncoding.EncodeToString(append(hbuf[:], sig...))
	}
	return "— " + name + " " + b64
}

func textOf(ls []noteLine) string { return textOfF(ls, 0) }

func textOfF(ls []noteLine, form int) string {
	var sb strings.Builder
	for _, l := range ls {
		sb.WriteString(lineTextF(l, form))
		sb.WriteString("\n")
	}
	return sb.String()
}

func msgBytes(m noteMsg) []byte { return msgBytesF(m, 0) }

func msgBytesF(m noteMsg, form int) []byte {
	s := textOfF(m.Lines, form)
	if !m.FinalNL {
		s = strings.TrimSuffix(s, "\n")
	}
	return []byte(s)
}

type noteOutcome struct {
	Kind   string   `json:"kind"`
	Text   string   `json:"text"`
	Sigs   [][2]any `json:"sigs"`
	Unsigs [][2]any `json:"unsigs"`
}

func classifyNoteErr(err error) string {
	switch err.(type) {
	case nil:
		return "ok"
	case *note.UnverifiedNoteError:
		return "unverified"
	case *note.InvalidSignatureError:
		return "invalid"
	}
	s := err.Error()
	switch {
	case strings.Contains(s, "malformed note"):
		return "malformed"
	case strings.Contains(s, "ambiguous"):
		return "ambiguous"
	case strings.Contains(s, "doesn't match"):
		return "mismatched"
	}
	return "error:" + s
}

func buildVerifiers(keys []int, liar bool, calls *[]verifyCall, mu *sync.Mutex) note.Verifiers {
	var vs []note.Verifier
	for _, id := range keys {
		k := noteKeys[id]
		vs = append(vs, &recVerifier{k: k, name: k.name, mu: mu, calls: calls})
	}
	if liar {
		return liarVerifiers{&recVerifier{k: noteKeys[1], name: "Z", mu: mu, calls: calls}}
	}
	return note.VerifierList(vs...)
}

// checkOpened: the property-level verdict on any successful Open: every listed signature was checked by that
// key's verifier over exactly the returned text and found good.
func checkOpened(n *note.Note, calls []verifyCall) string {
	for _, s := range n.Sigs {
		found := false
		for _, c := range calls {
			if c.name == s.Name && c.hash == s.Hash && c.msg == n.Text && c.ok {
				found = true
			}
		}
		if !found {
			return fmt.Sprintf("signature %s+%08x is listed as verified but its verifier never accepted a signature over the returned text %q", s.Name, s.Hash, n.Text)
		}
	}
	if len(n.Sigs) == 0 {
		return "Open returned a note without any verified signature"
	}
	return ""
}

// checkResign: Sign, Open with some verifiers, Sign again with other signers; the signature lines of the result
// must be the specification's (who signed, in which order), each a good signature over the text, and the
// message must open with the same text.
func checkResign(c *core.Case) ([]core.Violation, bool) {
	var in struct {
		Text   []noteLine `json:"text"`
		First  []int      `json:"first"`
		Known  []int      `json:"known"`
		Second []int      `json:"second"`
	}
	if err := json.Unmarshal(c.In, &in); err != nil {
		panic(err)
	}
	var exp struct {
		Keys []int `json:"keys"`
	}
	json.Unmarshal(c.Exp, &exp)
	text := textOf(in.Text)
	desc := fmt.Sprintf("text %q signed by %v, opened knowing %v, signed again by %v", text, in.First, in.Known, in.Second)
	bad := func(sig, format string, a ...any) ([]core.Violation, bool) {
		return []core.Violation{{Sig: sig, What: fmt.Sprintf(format, a...) + "; " + desc, Case: c}}, true
	}
	signers := func(ids []int) []note.Signer {
		var out []note.Signer
		for _, id := range ids {
			out = append(out, keySigner{noteKeys[id]})
		}
		return out
	}
	m0, err := note.Sign(&note.Note{Text: text}, signers(in.First)...)
	if err != nil {
		return bad("resign:sign-error", "Sign fails on valid text: %v", err)
	}
	var calls []verifyCall
	var mu sync.Mutex
	n, err := note.Open(m0, buildVerifiers(in.Known, false, &calls, &mu))
	if err != nil {
		return bad("resign:open-error", "the freshly signed note does not open: %v", err)
	}
	if n.Text != text {
		return bad("resign:text", "opened text %q", n.Text)
	}
	m1, err := note.Sign(n, signers(in.Second)...)
	if err != nil {
		return bad("resign:sign-error", "Sign fails on an opened note: %v", err)
	}
	if !bytes.HasPrefix(m1, []byte(text+"\n")) {
		return bad("resign:text", "re-signed message %q does not start with the text and a blank line", m1)
	}
	var got []int
	for _, l := range strings.Split(strings.TrimSuffix(string(m1[len(text)+1:]), "\n"), "\n") {
		id := 0
		rest := strings.TrimPrefix(l, "— ")
		if i := strings.Index(rest, " "); i >= 0 && rest != l {
			if sig, err := base64.StdEncoding.DecodeString(rest[i+1:]); err == nil && len(sig) > 4 {
				for kid, k := range noteKeys {
					if k.name == rest[:i] && k.hash == binary.BigEndian.Uint32(sig[:4]) && ed25519.Verify(k.pub, []byte(text), sig[4:]) {
						id = kid
					}
				}
			}
		}
		got = append(got, id)
	}
	if !core.Eq(got, exp.Keys) {
		return bad("resign:signatures", "signature lines of the re-signed message were made by keys %v (0 = not a good signature over the text), the documented result is %v\nmessage: %q", got, exp.Keys, m1)
	}
	// and it opens for every verifier set that knows one of the signers, with the same text
	all := append(append([]int{}, in.First...), in.Second...)
	n2, err := note.Open(m1, buildVerifiers(all[len(all)-1:], false, &calls, &mu))
	if err != nil || n2.Text != text {
		return bad("resign:reopen", "the re-signed message does not open with its last signer's key: %v", err)
	}
	return nil, true
}

func (w *noteWorld) Check(c *core.Case) ([]core.Violation, bool) {
	if c.K == "resign" {
		return checkResign(c)
	}
	if c.K != "open" {
		panic("note: unknown case kind " + c.K)
	}
	var probe struct {
		Raw string `json:"raw"`
	}
	if json.Unmarshal(c.In, &probe) == nil && probe.Raw != "" {
		return checkRawOpen(c, probe.Raw)
	}
	var in struct {
		Msg   noteMsg `json:"msg"`
		Known struct {
			Keys []int `json:"keys"`
			Liar bool  `json:"liar"`
		} `json:"known"`
		Mutated bool `json:"mutated"`
	}
	if err := json.Unmarshal(c.In, &in); err != nil {
		panic(err)
	}
	var exp struct {
		Kind   string     `json:"kind"`
		Text   []noteLine `json:"text"`
		Sigs   [][]any    `json:"sigs"`
		Unsigs [][]any    `json:"unsigs"`
	}
	json.Unmarshal(c.Exp, &exp)
	vs := judgeOpen(c, in.Msg, in.Known.Keys, in.Known.Liar, 0, exp.Kind, exp.Text, exp.Sigs, exp.Unsigs)
	if len(vs) > 0 {
		return vs, in.Mutated
	}
	// other concrete spellings of what the specification does not distinguish have the same outcome: a forbidden
	// character in a text line (eleven spellings), a signature by an unknown key of any length (80 KB line)
	hasBadTxt, hasJunk := false, false
	for _, l := range in.Msg.Lines {
		hasBadTxt = hasBadTxt || (l.K == "txt" && l.Bad)
		if _, ok := noteKeys[l.Key]; l.K == "sig" && !ok && l.Form != "short" && l.Form != "notb64" {
			hasJunk = true
		}
	}
	var forms []int
	for f := 1; hasBadTxt && f < len(badTextForms); f++ {
		forms = append(forms, f)
	}
	if hasJunk {
		forms = append(forms, longSigForm)
	}
	for _, f := range forms {
		if v2 := judgeOpen(c, in.Msg, in.Known.Keys, in.Known.Liar, f, exp.Kind, exp.Text, exp.Sigs, exp.Unsigs); len(v2) > 0 {
			return v2[:1], in.Mutated
		}
	}
	return nil, in.Mutated
}

func judgeOpen(c *core.Case, msg noteMsg, keys []int, liar bool, form int, expKind string, expText []noteLine, expSigs, expUnsigs [][]any) []core.Violation {
	var calls []verifyCall
	var mu sync.Mutex
	known := buildVerifiers(keys, liar, &calls, &mu)
	data := msgBytesF(msg, form)
	n, err := note.Open(data, known)
	kind := classifyNoteErr(err)
	var vs []core.Violation
	shown := data
	if len(shown) > 600 {
		shown = append(append([]byte{}, shown[:600]...), fmt.Sprintf("...(%d bytes)", len(data))...)
	}
	desc := fmt.Sprintf("Open(%q) with known keys %v liar=%v", shown, keys, liar)
	if err == nil {
		if msg := checkOpened(n, calls); msg != "" {
			vs = append(vs, core.Violation{Sig: "open:unverified-accepted", What: msg + "; " + desc, Case: c})
		}
	}
	if kind != expKind {
		vs = append(vs, core.Violation{Sig: "open:outcome:" + expKind + "->" + kind, What: fmt.Sprintf("%s: outcome %s (%v), the documented behaviour is %s", desc, kind, err, expKind), Case: c})
		return vs
	}
	var got *note.Note
	if err == nil {
		got = n
	} else if u, ok := err.(*note.UnverifiedNoteError); ok {
		got = u.Note
	}
	if got != nil {
		if want := textOfF(expText, form); got.Text != want {
			vs = append(vs, core.Violation{Sig: "open:text", What: fmt.Sprintf("%s: returned text %q, want %q", desc, got.Text, want), Case: c})
		}
		cmp := func(what string, have []note.Signature, want [][]any) {
			ok := len(have) == len(want)
			for i := 0; ok && i < len(have); i++ {
				name, _ := want[i][0].(string)
				h, _ := want[i][1].(float64)
				if have[i].Name != cname(name) || have[i].Hash != concreteHash(int(h)) {
					ok = false
				}
			}
			if !ok {
				vs = append(vs, core.Violation{Sig: "open:partition-" + what, What: fmt.Sprintf("%s: %s signatures %v, documented partition %v", desc, what, have, want), Case: c})
			}
		}
		cmp("verified", got.Sigs, expSigs)
		cmp("unverified", got.UnverifiedSigs, expUnsigs)
	}
	return vs
}

// Record: byte-level mutation sweep over signed messages; each Open is logged with the message abstracted
// to lines by an independent splitter and classifier (ground truth by crypto/ed25519).
func (w *noteWorld) Record(rng *rand.Rand, n int, emit func(k string, in, obs any)) {
	texts := []string{"hello\n", "two\nlines\n", "with\n\nblank\n", "\n", "ends with blank\n\n", "— A AAAAAAAA\n", "a\n\n— B bm90IGEgc2ln\n", "unicode é\n", "replacement \ufffd char\n"}
	for emitted := 0; emitted < n; {
		text := texts[rng.Intn(len(texts))]
		var signers []note.Signer
		ids := [][]int{{1}, {2}, {1, 2}, {3}, {1, 3}, {2, 1}}[rng.Intn(6)]
		for _, id := range ids {
			signers = append(signers, keySigner{noteKeys[id]})
		}
		msg, err := note.Sign(&note.Note{Text: text}, signers...)
		if err != nil {
			continue
		}
		knownIDs := [][]int{{1}, {2}, {1, 2}, {3}, {1, 2, 3}, {}, {1, 4}}[rng.Intn(7)]
		for k := 0; k < 40 && emitted < n; k++ {
			m := append([]byte(nil), msg...)
			if k > 0 {
				i := rng.Intn(len(m))
				switch rng.Intn(5) {
				case 0:
					m[i] ^= 1 << uint(rng.Intn(8))
				case 1:
					m = append(m[:i], m[i+1:]...)
				case 2:
					m = append(m[:i+1], m[i:]...)
				case 3:
					m = append(m[:i], append([]byte{'\n'}, m[i:]...)...)
				default:
					m[i] = "\n —AB+/=\x01\xff"[rng.Intn(12)]
				}
			}
			var calls []verifyCall
			var mu sync.Mutex
			nt, err := note.Open(m, buildVerifiers(knownIDs, false, &calls, &mu))
			kind := classifyNoteErr(err)
			flag := true
			if err == nil {
				flag = checkOpened(nt, calls) == ""
			}
			abs, ok := abstractMsg(m)
			if !ok {
				continue
			}
			var sigs, unsigs [][2]any
			var got *note.Note
			if err == nil {
				got = nt
			} else if u, ok := err.(*note.UnverifiedNoteError); ok {
				got = u.Note
			}
			textIdx := -1
			if got != nil {
				for _, s := range got.Sigs {
					sigs = append(sigs, [2]any{aname(s.Name), modelHash(s.Hash)})
				}
				for _, s := range got.UnverifiedSigs {
					unsigs = append(unsigs, [2]any{aname(s.Name), modelHash(s.Hash)})
				}
				textIdx = strings.Count(got.Text, "\n")
				if !bytes.HasPrefix(m, []byte(got.Text)) {
					textIdx = -2
				}
			}
			if sigs == nil {
				sigs = [][2]any{}
			}
			if unsigs == nil {
				unsigs = [][2]any{}
			}
			emit("open", map[string]any{"msg": abs, "known": map[string]any{"keys": knownIDs, "liar": false}, "raw": base64.StdEncoding.EncodeToString(m)},
				map[string]any{"kind": kind, "ntext": textIdx, "sigs": sigs, "unsigs": unsigs, "verifiedOverText": flag})
			emitted++
		}
	}
}

type keySigner struct{ k *noteKey }

func (s keySigner) Name() string                    { return s.k.name }
func (s keySigner) KeyHash() uint32                 { return s.k.hash }
func (s keySigner) Sign(msg []byte) ([]byte, error) { return ed25519.Sign(s.k.priv, msg), nil }

func modelHash(h uint32) int {
	switch h {
	case noteKeys[1].hash:
		return 11
	case noteKeys[2].hash:
		return 22
	case noteKeys[3].hash:
		return 33
	}
	return 99
}

// abstractMsg splits a message into the specification's lines.  Signature-shaped lines are classified with
// crypto/ed25519 directly: which key (if any) made the signature over the text before the last blank line.
func abstractMsg(m []byte) (map[string]any, bool) {
	s := string(m)
	finalnl := strings.HasSuffix(s, "\n")
	if finalnl {
		s = strings.TrimSuffix(s, "\n")
	}
	raw := strings.Split(s, "\n")
	// own text: everything before the last blank line at position >= 2
	sep := -1
	for j := len(raw) - 1; j >= 1; j-- {
		if raw[j] == "" {
			sep = j
			break
		}
	}
	ownText := ""
	if sep >= 0 {
		ownText = strings.Join(raw[:sep], "\n") + "\n"
	}
	lines := []map[string]any{}
	uid := map[string]int{}
	for idx, l := range raw {
		switch {
		case l == "":
			lines = append(lines, map[string]any{"k": "blank"})
		case strings.HasPrefix(l, "— ") && idx > sep && sep >= 0:
			rest := strings.TrimPrefix(l, "— ")
			name, b64 := rest, ""
			if i := strings.Index(rest, " "); i >= 0 {
				name, b64 = rest[:i], rest[i+1:]
			}
			nameok := name != "" && !strings.ContainsAny(name, "+ ") && validNoteName(name)
			form, hash, key := "ok", 99, 0
			sig, err := base64.StdEncoding.DecodeString(b64)
			switch {
			case err != nil || b64 == "":
				form = "notb64"
			case len(sig) < 5:
				form = "short"
			default:
				hash = modelHash(binary.BigEndian.Uint32(sig[:4]))
				for id, k := range noteKeys {
					if ed25519.Verify(k.pub, []byte(ownText), sig[4:]) {
						key = id
					}
				}
			}
			if _, ok := uid[l]; !ok {
				uid[l] = len(uid) + 1
			}
			over := "other"
			if key != 0 {
				over = "own"
			}
			lines = append(lines, map[string]any{"k": "sig", "name": aname(name), "nameok": nameok, "hash": hash, "key": key, "over": over, "form": form, "uid": uid[l], "bad": hasBadChar(l)})
		default:
			lines = append(lines, map[string]any{"k": "txt", "id": idx, "bad": hasBadChar(l)})
		}
	}
	return map[string]any{"lines": lines, "finalnl": finalnl}, true
}

// checkRawOpen re-runs a recorded (byte-level mutated) message against the outcome the trace specification expects.
func checkRawOpen(c *core.Case, raw string) ([]core.Violation, bool) {
	var in struct {
		Known struct {
			Keys []int `json:"keys"`
			Liar bool  `json:"liar"`
		} `json:"known"`
	}
	json.Unmarshal(c.In, &in)
	var exp struct {
		Kind   string  `json:"kind"`
		Ntext  int     `json:"ntext"`
		Sigs   [][]any `json:"sigs"`
		Unsigs [][]any `json:"unsigs"`
	}
	json.Unmarshal(c.Exp, &exp)
	m, _ := base64.StdEncoding.DecodeString(raw)
	var calls []verifyCall
	var mu sync.Mutex
	n, err := note.Open(m, buildVerifiers(in.Known.Keys, in.Known.Liar, &calls, &mu))
	kind := classifyNoteErr(err)
	var vs []core.Violation
	desc := fmt.Sprintf("Open(%q) with known keys %v", m, in.Known.Keys)
	if err == nil {
		if msg := checkOpened(n, calls); msg != "" {
			vs = append(vs, core.Violation{Sig: "open:unverified-accepted", What: msg + "; " + desc, Case: c})
		}
	}
	if kind != exp.Kind {
		vs = append(vs, core.Violation{Sig: "open:outcome:" + exp.Kind + "->" + kind, What: fmt.Sprintf("%s: outcome %s (%v), the documented behaviour is %s", desc, kind, err, exp.Kind), Case: c})
		return vs, true
	}
	var got *note.Note
	if err == nil {
		got = n
	} else if u, ok := err.(*note.UnverifiedNoteError); ok {
		got = u.Note
	}
	if got != nil {
		if strings.Count(got.Text, "\n") != exp.Ntext || !bytes.HasPrefix(m, []byte(got.Text)) {
			vs = append(vs, core.Violation{Sig: "open:text", What: fmt.Sprintf("%s: returned text %q is not the first %d lines of the message", desc, got.Text, exp.Ntext), Case: c})
		}
		if len(got.Sigs) != len(exp.Sigs) || len(got.UnverifiedSigs) != len(exp.Unsigs) {
			vs = append(vs, core.Violation{Sig: "open:partition", What: fmt.Sprintf("%s: %d verified and %d unverified signatures, documented partition %v / %v", desc, len(got.Sigs), len(got.UnverifiedSigs), exp.Sigs, exp.Unsigs), Case: c})
		}
	}
	return vs, true
}
