package worlds

import (
	"encoding/json"
	"fmt"
	"strings"
	"sync"

	"golang.org/x/mod/module"

	"verifharness/internal/concrete"
	"verifharness/internal/core"
)

func escObs(s string) map[string]any {
	one := func(f func(string) (string, error)) map[string]any {
		out, err := f(s)
		if err != nil {
			return map[string]any{"ok": false, "out": []int{}}
		}
		return map[string]any{"ok": true, "out": concrete.Ints(out)}
	}
	return map[string]any{"escpath": one(module.EscapePath), "escvers": one(module.EscapeVersion),
		"unescpath": one(module.UnescapePath), "unescvers": one(module.UnescapeVersion)}
}

// case-insensitive collision table over every valid input seen in this process
var (
	escSeenMu sync.Mutex
	escSeen   = map[string]string{} // lower(escaped) -> original
)

func checkEscapeCase(c *core.Case) ([]core.Violation, bool) {
	var in struct {
		S []int `json:"s"`
	}
	if err := json.Unmarshal(c.In, &in); err != nil {
		panic(err)
	}
	var exp map[string]any
	json.Unmarshal(c.Exp, &exp)
	s := concrete.Str(in.S)
	obs := escObs(s)
	var vs []core.Violation
	if d := core.Diff(exp, obs); len(d) > 0 {
		vs = append(vs, core.Violation{Sig: "esc:" + d[0], What: fmt.Sprintf("escaping of %q: %v differ: code %v, specification %v", s, d, pickKeys(obs, d), pickKeys(exp, d)), Case: c, Obs: obs})
	}
	nt := false
	for _, kind := range []string{"escpath", "escvers"} {
		o := obs[kind].(map[string]any)
		if o["ok"].(bool) {
			nt = true
			esc := concrete.Str(o["out"].([]int))
			if esc != strings.ToLower(esc) {
				vs = append(vs, core.Violation{Sig: "esc:upper-case-in-output", What: fmt.Sprintf("%s(%q) = %q contains an upper-case letter", kind, s, esc), Case: c})
			}
			key := kind[:4] + strings.ToLower(esc)
			escSeenMu.Lock()
			prev, ok := escSeen[key]
			if !ok {
				escSeen[key] = s
			}
			escSeenMu.Unlock()
			if ok && prev != s {
				vs = append(vs, core.Violation{Sig: "esc:case-collision", What: fmt.Sprintf("%q and %q escape to strings that are equal ignoring case (%q)", prev, s, esc), Case: c})
			}
		}
	}
	return vs, nt
}
