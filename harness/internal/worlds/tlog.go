package worlds

import (
	"bytes"
	"encoding/base64"
	"encoding/json"
	"fmt"
	"hash/crc32"
	"math/rand"
	"sort"
	"strconv"
	"strings"
	"sync"

	"golang.org/x/mod/sumdb/tlog"

	"verifharness/internal/concrete"
	"verifharness/internal/core"
	"verifharness/internal/refmerkle"
)

func init() { core.Register("tlog", func() core.World { return &tlogWorld{} }) }

type tlogWorld struct{}

// memStore is a dense hash store with an instrumented reader.
type memStore struct {
	h     []tlog.Hash
	reads []int64
	view  bool // consecutive indexes are answered with a slice of the store itself (a reader may do that: callers only read)
}

func (s *memStore) ReadHashes(idx []int64) ([]tlog.Hash, error) {
	if s.view && len(idx) > 0 && idx[0] >= 0 && idx[len(idx)-1] < int64(len(s.h)) {
		consecutive := true
		for i := range idx {
			consecutive = consecutive && idx[i] == idx[0]+int64(i)
		}
		if consecutive {
			s.reads = append(s.reads, idx...)
			return s.h[idx[0] : idx[0]+int64(len(idx)) : idx[0]+int64(len(idx))], nil
		}
	}
	out := make([]tlog.Hash, len(idx))
	for i, x := range idx {
		if x < 0 || x >= int64(len(s.h)) {
			return nil, fmt.Errorf("read of index %d outside store of %d", x, len(s.h))
		}
		s.reads = append(s.reads, x)
		out[i] = s.h[x]
	}
	return out, nil
}

func viol(c *core.Case, sig, format string, a ...any) []core.Violation {
	return []core.Violation{{Sig: sig, What: fmt.Sprintf(format, a...), Case: c}}
}

func (w *tlogWorld) Check(c *core.Case) ([]core.Violation, bool) {
	switch c.K {
	case "appendidx", "treeidx", "coord", "concappend":
		return w.checkRecorded(c)
	case "append":
		return w.checkAppend(c)
	case "rectext":
		return w.checkRecText(c)
	case "treetext":
		return w.checkTreeText(c)
	case "index":
		var in struct{ L, K int }
		var exp struct{ Idx int64 }
		json.Unmarshal(c.In, &in)
		json.Unmarshal(c.Exp, &exp)
		if got := tlog.StoredHashIndex(in.L, int64(in.K)); got != exp.Idx {
			return viol(c, "index:value", "StoredHashIndex(%d,%d)=%d, specification says %d", in.L, in.K, got, exp.Idx), true
		}
		if l, k := tlog.SplitStoredHashIndex(exp.Idx); l != in.L || k != int64(in.K) {
			return viol(c, "index:split", "SplitStoredHashIndex(%d)=(%d,%d), specification says (%d,%d)", exp.Idx, l, k, in.L, in.K), true
		}
		return nil, true
	}
	if strings.HasPrefix(c.K, "proof") || strings.HasPrefix(c.K, "prove") {
		return checkProofCase(c)
	}
	panic("tlog: unknown case kind " + c.K)
}

func (w *tlogWorld) Finish() []core.Violation { return nil }

func (w *tlogWorld) checkAppend(c *core.Case) ([]core.Violation, bool) {
	var in struct{ Recs []int }
	var exp struct {
		New    []json.RawMessage
		Count  int64
		Trees  []json.RawMessage
		Coords [][2]int64
		Reads  []int64
	}
	if err := json.Unmarshal(c.In, &in); err != nil {
		panic(err)
	}
	if err := json.Unmarshal(c.Exp, &exp); err != nil {
		panic(err)
	}
	terms := refmerkle.NewTerms(refmerkle.DefaultRec)
	st := &memStore{view: true}
	n := len(in.Recs)
	var last []tlog.Hash
	for i, d := range in.Recs {
		if int64(len(st.h)) != tlog.StoredHashIndex(0, int64(i)) {
			return viol(c, "append:position", "record %d: store has %d hashes but StoredHashIndex(0,%d)=%d", i, len(st.h), i, tlog.StoredHashIndex(0, int64(i))), true
		}
		st.reads = nil
		hs, err := tlog.StoredHashes(int64(i), terms.Rec(d), st)
		if err != nil {
			return viol(c, "append:error", "StoredHashes(%d): %v", i, err), true
		}
		st.h = append(st.h, hs...)
		last = hs
	}
	if len(last) != len(exp.New) {
		return viol(c, "append:newcount", "appending record %d returned %d hashes, specification says %d", n-1, len(last), len(exp.New)), true
	}
	for i := range last {
		if want := terms.Concrete(exp.New[i]); [32]byte(last[i]) != want {
			return viol(c, "append:newhash", "appending record %d: returned hash %d is %s, specification says %s", n-1, i, terms.Term(last[i]), exp.New[i]), true
		}
		// hashes survive their text encoding
		if p, err := tlog.ParseHash(last[i].String()); err != nil || p != last[i] {
			return viol(c, "append:hashtext", "ParseHash(String()) does not round-trip for %v", last[i]), true
		}
		js, _ := json.Marshal(last[i])
		var back tlog.Hash
		if err := json.Unmarshal(js, &back); err != nil || back != last[i] {
			return viol(c, "append:hashjson", "JSON round trip of hash fails"), true
		}
	}
	if got := tlog.StoredHashCount(int64(n)); got != exp.Count || int64(len(st.h)) != exp.Count {
		return viol(c, "append:count", "StoredHashCount(%d)=%d, store length %d, specification says %d", n, got, len(st.h), exp.Count), true
	}
	if th, err := tlog.TreeHash(0, st); err != nil || [32]byte(th) != refmerkle.Empty {
		return viol(c, "append:emptytree", "TreeHash(0) = %v, %v", th, err), true
	}
	pristine := append([]tlog.Hash(nil), st.h...)
	for pass := 0; pass < 2; pass++ { // twice: reading the tree hash leaves the store as it was
		for m := 1; m <= n; m++ {
			th, err := tlog.TreeHash(int64(m), st)
			if err != nil {
				return viol(c, "append:treehash", "TreeHash(%d): %v", m, err), true
			}
			if want := terms.Concrete(exp.Trees[m-1]); [32]byte(th) != want {
				return viol(c, "append:treehash", "TreeHash(%d) of %d records is %s (pass %d), specification says %s", m, n, terms.Term(th), pass+1, exp.Trees[m-1]), true
			}
		}
	}
	for i := range pristine {
		if st.h[i] != pristine[i] {
			return viol(c, "append:store-modified", "computing tree hashes of %d records changed stored hash %d (the reader hands out slices of its store)", n, i), true
		}
	}
	for p, lk := range exp.Coords {
		if got := tlog.StoredHashIndex(int(lk[0]), lk[1]); got != int64(p) {
			return viol(c, "append:index", "StoredHashIndex(%d,%d)=%d, specification says %d", lk[0], lk[1], got, p), true
		}
		if l, k := tlog.SplitStoredHashIndex(int64(p)); int64(l) != lk[0] || k != lk[1] {
			return viol(c, "append:split", "SplitStoredHashIndex(%d)=(%d,%d), specification says (%d,%d)", p, l, k, lk[0], lk[1]), true
		}
	}
	return nil, n >= 2
}

func (w *tlogWorld) checkRecText(c *core.Case) ([]core.Violation, bool) {
	var in struct {
		Text  []int
		ID    int64
		IDStr []int `json:"idstr"`
		Rest  []int
	}
	var exp struct{ Valid, Lenient bool }
	json.Unmarshal(c.In, &in)
	json.Unmarshal(c.Exp, &exp)
	if len(in.IDStr) > 0 {
		in.ID, _ = strconv.ParseInt(concrete.Str(in.IDStr), 10, 64)
	}
	text := []byte(concrete.Str(in.Text))
	rest := []byte(concrete.Str(in.Rest))
	// the text is handed over as a slice of a longer buffer (the next record follows it): the call must not write to it
	backing := append(append([]byte(nil), text...), "NEXT RECORD\n"...)
	msg, err := tlog.FormatRecord(in.ID, backing[:len(text)])
	if string(backing[len(text):]) != "NEXT RECORD\n" || !bytes.Equal(backing[:len(text)], text) {
		return viol(c, "rectext:argument-modified", "FormatRecord(%d,%q) writes into the buffer its argument is a slice of: the bytes after it are now %q", in.ID, text, backing[len(text):]), true
	}
	if exp.Valid && err != nil {
		return viol(c, "rectext:rejectvalid", "FormatRecord rejects valid record text %q: %v", text, err), true
	}
	if !exp.Lenient && err == nil {
		return viol(c, "rectext:acceptinvalid", "FormatRecord accepts invalid record text %q", text), true
	}
	if err != nil {
		return nil, exp.Lenient
	}
	want := append(append([]byte(strconv.FormatInt(in.ID, 10)+"\n"), text...), '\n')
	if !bytes.Equal(msg, want) {
		return viol(c, "rectext:format", "FormatRecord(%d,%q)=%q, documented form is %q", in.ID, text, msg, want), true
	}
	id, t2, r2, err := tlog.ParseRecord(append(append([]byte(nil), msg...), rest...))
	if err != nil || id != in.ID || !bytes.Equal(t2, text) || !bytes.Equal(r2, rest) {
		return viol(c, "rectext:roundtrip", "ParseRecord(FormatRecord(%d,%q)+%q) = %d,%q,%q,%v", in.ID, text, rest, id, t2, r2, err), true
	}
	// records of unusual size: the same text repeated to just below and above one million bytes, and this record followed
	// by a remainder of that size (a record has no documented size limit; the encoding is the same at every size)
	// (on one case in 256, chosen by a checksum of the text, so that a replay of the case does the same)
	if crc32.ChecksumIEEE(text)%256 == 0 {
		for _, total := range []int{999900, 1000100, 3 << 20} {
			unit := append(append([]byte("long record: "), bytes.TrimRight(text, "\n")...), '\n')
			if bytes.Contains(unit[:len(unit)-1], []byte("\n")) {
				unit = []byte("a line of a long record\n")
			}
			big := bytes.Repeat(unit, total/len(unit)+1)
			bm, err := tlog.FormatRecord(in.ID, big)
			if err != nil {
				return viol(c, "rectext:big", "FormatRecord rejects a record text of %d lines %q: %v", total/len(unit)+1, unit, err), true
			}
			id, t3, r3, err := tlog.ParseRecord(append(append([]byte(nil), bm...), rest...))
			if err != nil || id != in.ID || !bytes.Equal(t3, big) || !bytes.Equal(r3, rest) {
				return viol(c, "rectext:big", "a record of %d bytes (the line %q repeated) does not survive FormatRecord / ParseRecord: id %d, %d bytes of text, %d bytes of remainder, %v", len(big), unit, id, len(t3), len(r3), err), true
			}
			tail := bytes.Repeat([]byte("x"), total)
			id, t3, r3, err = tlog.ParseRecord(append(append([]byte(nil), msg...), tail...))
			if err != nil || id != in.ID || !bytes.Equal(t3, text) || !bytes.Equal(r3, tail) {
				return viol(c, "rectext:big", "ParseRecord of record %d followed by a remainder of %d bytes: id %d, text %q, %d bytes of remainder, %v", in.ID, total, id, t3, len(r3), err), true
			}
		}
	}
	return nil, true
}

func (w *tlogWorld) checkTreeText(c *core.Case) ([]core.Violation, bool) {
	var in struct {
		First   []int
		Nstr    []int
		Hash    string
		Extra   int
		Finalnl bool
	}
	var exp struct{ Ok bool }
	json.Unmarshal(c.In, &in)
	json.Unmarshal(c.Exp, &exp)
	h := refmerkle.Junk(len(in.Nstr)*7 + in.Extra)
	var hs string
	switch in.Hash {
	case "good":
		hs = base64.StdEncoding.EncodeToString(h[:])
	case "short":
		hs = base64.StdEncoding.EncodeToString(h[:31])
	case "long":
		hs = base64.StdEncoding.EncodeToString(append(h[:], 1))
	case "badchar":
		hs = base64.StdEncoding.EncodeToString(h[:])
		hs = "!" + hs[1:]
	}
	lines := []string{concrete.Str(in.First), concrete.Str(in.Nstr), hs}
	for i := 0; i < in.Extra; i++ {
		lines = append(lines, fmt.Sprintf("extra %d", i))
	}
	text := strings.Join(lines, "\n")
	if in.Finalnl {
		text += "\n"
	}
	tree, err := tlog.ParseTree([]byte(text))
	if (err == nil) != exp.Ok {
		return viol(c, "treetext:verdict", "ParseTree(%q): err=%v, specification says ok=%v", text, err, exp.Ok), true
	}
	if err == nil {
		n, _ := strconv.ParseInt(concrete.Str(in.Nstr), 10, 64)
		if tree.N != n || [32]byte(tree.Hash) != h {
			return viol(c, "treetext:value", "ParseTree(%q) = %v", text, tree), true
		}
		want := fmt.Sprintf("go.sum database tree\n%d\n%s\n", n, hs)
		if got := string(tlog.FormatTree(tree)); got != want {
			return viol(c, "treetext:format", "FormatTree = %q, documented form %q", got, want), true
		}
		if back, err := tlog.ParseTree(tlog.FormatTree(tree)); err != nil || back != tree {
			return viol(c, "treetext:roundtrip", "ParseTree(FormatTree(%v)) = %v, %v", tree, back, err), true
		}
		// history: the text of one head is kept while another head is formatted; it still is the text of the first
		kept := tlog.FormatTree(tree)
		other := tlog.Tree{N: n + 1, Hash: tlog.Hash(refmerkle.Junk(int(n%1000) + 3))}
		otherText := tlog.FormatTree(other)
		if string(kept) != want || string(otherText) == want {
			return viol(c, "treetext:kept", "the text of tree head %v reads %q after another head was formatted", tree, kept), true
		}
		if back, err := tlog.ParseTree(kept); err != nil || back != tree {
			return viol(c, "treetext:kept", "the text of tree head %v, kept while another head was formatted, parses as %v, %v", tree, back, err), true
		}
	}
	return nil, true
}

// Record: long random logs; only which stored indexes were read is logged, plus
// index-function results for random coordinates (big trees stay cheap for TLC).
// ---- E3: long logs ----
// Record contents are a function of the record number only (so that any recorded event can be re-run alone);
// their lengths sweep the boundaries of hash block sizes and small buffers.
var recLens = []int{1, 2, 7, 31, 32, 33, 55, 56, 57, 63, 64, 65, 119, 120, 127, 128, 129, 254, 255, 256, 257, 258, 511, 512, 513, 1000}

func recData(i int) []byte {
	b := make([]byte, recLens[(i*7+i/len(recLens))%len(recLens)])
	for j := range b {
		b[j] = byte(i*131 + j*7 + 1)
	}
	return b
}

type longLog struct {
	st     *memStore
	leaves []refmerkle.Hash
}

func (g *longLog) size() int { return len(g.leaves) }

// appendOne appends record number size() and observes where its hashes go and whether each of them is the
// RFC 6962 hash of the complete subtree the layout assigns to it.
func (g *longLog) appendOne() (map[string]any, map[string]any) {
	i := g.size()
	data := recData(i)
	g.st.reads = nil
	hs, err := tlog.StoredHashes(int64(i), data, g.st)
	if err != nil {
		return map[string]any{"pos": -1, "nnew": 0, "count": tlog.StoredHashCount(int64(i + 1)), "hashok": false}, map[string]any{"reads": []int64{}}
	}
	reads := append([]int64{}, g.st.reads...)
	sort.Slice(reads, func(a, b int) bool { return reads[a] < reads[b] })
	pos := len(g.st.h)
	g.st.h = append(g.st.h, hs...)
	g.leaves = append(g.leaves, refmerkle.LeafHash(data))
	hashok := true
	for j, h := range hs {
		lo := i + 1 - (1 << uint(j))
		if lo < 0 || [32]byte(h) != refmerkle.MTH(g.leaves[lo:i+1]) {
			hashok = false
		}
	}
	return map[string]any{"pos": pos, "nnew": len(hs), "count": tlog.StoredHashCount(int64(i + 1)), "hashok": hashok}, map[string]any{"reads": reads}
}

func (g *longLog) treeObs(m int) (map[string]any, map[string]any) {
	g.st.reads = nil
	th, err := tlog.TreeHash(int64(m), g.st)
	reads := append([]int64{}, g.st.reads...)
	if err != nil {
		return map[string]any{"matchesRef": false}, map[string]any{"reads": reads}
	}
	return map[string]any{"matchesRef": [32]byte(th) == refmerkle.MTH(g.leaves[:m])}, map[string]any{"reads": reads}
}

func coordObs(L, K int) map[string]any {
	idx := tlog.StoredHashIndex(L, int64(K))
	l2, k2 := tlog.SplitStoredHashIndex(idx)
	return map[string]any{"idx": idx, "l2": l2, "k2": k2}
}

// sizes at which splitting rules change: around powers of two and around multiples of 256
func boundarySize(x int) bool {
	pow := func(y int) bool { return y > 0 && y&(y-1) == 0 }
	return pow(x) || pow(x+1) || pow(x-1) || x%256 == 255 || x%256 == 0 || x%256 == 1
}

func withDrift(obs, drift map[string]any) map[string]any {
	obs["_drift"] = drift
	return obs
}

func (w *tlogWorld) Record(rng *rand.Rand, n int, emit func(k string, in, obs any)) {
	g := &longLog{st: &memStore{}}
	for i := 0; i < n; i++ {
		obs, drift := g.appendOne()
		emit("appendidx", map[string]any{"n": i}, withDrift(obs, drift))
		size := i + 1
		if i%16 == 0 || i == n-1 {
			// tree hash for a random earlier size, reads logged; value checked against the reference here
			m := 1 + rng.Intn(size)
			obs, drift := g.treeObs(m)
			emit("treeidx", map[string]any{"m": m, "size": size}, withDrift(obs, drift))
		}
		if boundarySize(size) {
			obs, drift := g.treeObs(size)
			emit("treeidx", map[string]any{"m": size, "size": size}, withDrift(obs, drift))
		}
		if i%4 == 0 {
			L := rng.Intn(20)
			K := rng.Intn(1 << uint(rng.Intn(10)))
			emit("coord", map[string]any{"l": L, "k": K}, coordObs(L, K))
		}
	}
	// several logs written at the same time by different goroutines: each is its own log (the package has no shared state)
	emit("concappend", map[string]any{"logs": 4, "n": 400}, map[string]any{"hashok": concurrentLogs(4, 400)})
	// earlier boundary sizes, read from the full store
	for m := 1; m < n; m++ {
		if boundarySize(m) {
			obs, drift := g.treeObs(m)
			emit("treeidx", map[string]any{"m": m, "size": n}, withDrift(obs, drift))
		}
	}
}

// concurrentLogs appends n records to each of k independent logs, one goroutine per log, and reports whether every
// stored hash and every tree hash is the RFC 6962 one.
func concurrentLogs(k, n int) bool {
	ok := make([]bool, k)
	var wg sync.WaitGroup
	for g := 0; g < k; g++ {
		wg.Add(1)
		go func(g int) {
			defer wg.Done()
			defer func() { recover() }() // a panic leaves ok[g] false
			lg := &longLog{st: &memStore{}}
			good := true
			for i := 0; i < n; i++ {
				obs, _ := lg.appendOne()
				if obs["hashok"] != true {
					good = false
				}
			}
			tobs, _ := lg.treeObs(n)
			ok[g] = good && tobs["matchesRef"] == true
		}(g)
	}
	wg.Wait()
	for _, b := range ok {
		if !b {
			return false
		}
	}
	return true
}

// checkRecorded re-runs one recorded event of a long log and compares it with the specification's expectation.
func (w *tlogWorld) checkRecorded(c *core.Case) ([]core.Violation, bool) {
	var in struct{ N, M, Size, L, K int }
	json.Unmarshal(c.In, &in)
	var exp map[string]any
	json.Unmarshal(c.Exp, &exp)
	var obs map[string]any
	switch c.K {
	case "appendidx":
		g := &longLog{st: &memStore{}}
		for g.size() < in.N {
			g.appendOne()
		}
		obs, _ = g.appendOne()
	case "treeidx":
		g := &longLog{st: &memStore{}}
		for g.size() < in.Size {
			g.appendOne()
		}
		obs, _ = g.treeObs(in.M)
	case "coord":
		obs = coordObs(in.L, in.K)
	case "concappend":
		good := true
		for try := 0; try < 3 && good; try++ {
			good = concurrentLogs(4, 400)
		}
		obs = map[string]any{"hashok": good}
	}
	if d := core.Diff(exp, obs); len(d) > 0 {
		return viol(c, c.K+":trace", "long log, event %s %s: observed %v, the specification expects %v (fields %v)", c.K, string(c.In), obs, exp, d), true
	}
	return nil, true
}
