package worlds

// World "tlogbig": the tlog package on logs of any size an int64 can express (specification TlogBig).
// Logs are uniform (every record the same), so that the hash of a subtree depends on its size only and a
// log of 2^61 records can be "stored" by a reader that computes the level of a stored position.

import (
	"crypto/sha256"
	"encoding/json"
	"fmt"
	"math/bits"
	"math/rand"
	"sync"
	"time"

	"golang.org/x/mod/sumdb/tlog"

	"verifharness/internal/core"
	"verifharness/internal/refmerkle"
)

func init() { core.Register("tlogbig", func() core.World { return &tlogBigWorld{} }) }

type tlogBigWorld struct{}

// functions of the package that were seen not to return: not called again in this process
var (
	bigHungMu sync.Mutex
	bigHung   = map[string]bool{}
	bigMemoMu sync.Mutex
)

var bigLeaf = refmerkle.LeafHash([]byte("uniform record\n"))
var bigMemo = map[uint64]refmerkle.Hash{}

// bigS: RFC 6962 hash of the uniform tree with size leaves (independent of the package under test)
func bigS(size uint64) refmerkle.Hash {
	if size == 1 {
		return bigLeaf
	}
	bigMemoMu.Lock()
	h, ok := bigMemo[size]
	bigMemoMu.Unlock()
	if ok {
		return h
	}
	k := uint64(1) << uint(bits.Len64(size-1)-1) // largest power of two strictly below size
	h = refmerkle.NodeHash(bigS(k), bigS(size-k))
	bigMemoMu.Lock()
	bigMemo[size] = h
	bigMemoMu.Unlock()
	return h
}

func bitsToU(b []int) uint64 {
	var v uint64
	for i, x := range b {
		if x != 0 {
			v |= 1 << uint(i)
		}
	}
	return v
}

type bigDesc struct {
	Kind string
	Bits []int
}

func (d *bigDesc) UnmarshalJSON(b []byte) error {
	var raw []json.RawMessage
	if err := json.Unmarshal(b, &raw); err != nil || len(raw) != 2 {
		return fmt.Errorf("bad descriptor %s", b)
	}
	json.Unmarshal(raw[0], &d.Kind)
	return json.Unmarshal(raw[1], &d.Bits)
}

func (d bigDesc) hash() tlog.Hash {
	if d.Kind == "S" {
		return tlog.Hash(bigS(bitsToU(d.Bits)))
	}
	return tlog.Hash(sha256.Sum256([]byte(fmt.Sprintf("junk %d", bitsToU(d.Bits)))))
}

func bigHashes(ds []bigDesc) []tlog.Hash {
	out := make([]tlog.Hash, len(ds))
	for i, d := range ds {
		out[i] = d.hash()
	}
	return out
}

// uniformReader answers ReadHashes for a uniform log of any length: the hash at a stored position is the hash of
// the complete uniform subtree of that position's level.  The level is computed here, not by the package.
type uniformReader struct{}

func leafPos(n uint64) uint64 { return 2*n - uint64(bits.OnesCount64(n)) }

func levelOfStored(idx uint64) int {
	// the record whose hashes include position idx: largest n with leafPos(n) <= idx
	lo, hi := uint64(0), uint64(1)<<62
	for lo < hi {
		mid := lo + (hi-lo+1)/2
		if leafPos(mid) <= idx {
			lo = mid
		} else {
			hi = mid - 1
		}
	}
	return int(idx - leafPos(lo))
}

func (uniformReader) ReadHashes(indexes []int64) ([]tlog.Hash, error) {
	out := make([]tlog.Hash, len(indexes))
	for i, x := range indexes {
		if x < 0 {
			return nil, fmt.Errorf("negative stored index %d", x)
		}
		out[i] = tlog.Hash(bigS(1 << uint(levelOfStored(uint64(x)))))
	}
	return out, nil
}

// guarded runs f with a watchdog; a call that neither returns nor panics within the limit is a hang
func guarded(limit time.Duration, f func()) (hung bool, panicked any) {
	done := make(chan any, 1)
	go func() {
		defer func() { done <- recover() }()
		f()
	}()
	select {
	case p := <-done:
		return false, p
	case <-time.After(limit):
		return true, nil
	}
}

func (w *tlogBigWorld) Check(c *core.Case) ([]core.Violation, bool) {
	var in struct {
		T, N []int
		L    int
		Mut  string
		P    []bigDesc
	}
	if err := json.Unmarshal(c.In, &in); err != nil {
		panic(err)
	}
	var exp struct {
		Verifies, Prove, Refused bool
		Count, Leafpos, Top, K   []int
	}
	json.Unmarshal(c.Exp, &exp)
	t, n := int64(bitsToU(in.T)), int64(bitsToU(in.N))
	var vs []core.Violation
	add := func(sig, format string, a ...any) {
		vs = append(vs, core.Violation{Sig: sig, What: fmt.Sprintf(format, a...), Case: c})
	}
	// call runs one call of the package under the watchdog; after a hang in a function that function is not called again
	// in this process (the goroutine keeps a processor busy for ever)
	call := func(name string, f func()) bool {
		bigHungMu.Lock()
		skip := bigHung[name]
		bigHungMu.Unlock()
		if skip {
			return false
		}
		hung, p := guarded(3*time.Second, f)
		if hung {
			bigHungMu.Lock()
			bigHung[name] = true
			bigHungMu.Unlock()
			add(c.K+":hang", "%s does not return (3 s) for tree size %d, index/size %d", name, t, n)
			return false
		}
		if p != nil {
			add(c.K+":panic", "%s panics for tree size %d, index/size %d: %v", name, t, n, p)
			return false
		}
		return true
	}
	switch c.K {
	case "record":
		var err error
		if call("CheckRecord", func() { err = tlog.CheckRecord(bigHashes(in.P), t, tlog.Hash(bigS(uint64(t))), n, tlog.Hash(bigLeaf)) }) {
			if (err == nil) != exp.Verifies {
				add("record:verdict", "CheckRecord(proof %s of %d hashes, t=%d, n=%d) returned %v; by RFC 6962 the proof %s", in.Mut, len(in.P), t, n, err, map[bool]string{true: "verifies", false: "does not verify"}[exp.Verifies])
			}
		}
		if exp.Prove {
			var p tlog.RecordProof
			if call("ProveRecord", func() { p, err = tlog.ProveRecord(t, n, uniformReader{}) }) {
				if err != nil || !core.Eq(hashStrs(p), hashStrs(bigHashes(in.P))) {
					add("record:proof", "ProveRecord(t=%d, n=%d) = %d hashes (%v), RFC 6962 audit path has %d", t, n, len(p), err, len(in.P))
				}
			}
			var th tlog.Hash
			if call("TreeHash", func() { th, err = tlog.TreeHash(t, uniformReader{}) }) {
				if err != nil || th != tlog.Hash(bigS(uint64(t))) {
					add("record:treehash", "TreeHash(%d) of the uniform log differs from the RFC 6962 tree hash (%v)", t, err)
				}
			}
		}
	case "tree":
		var err error
		if call("CheckTree", func() {
			err = tlog.CheckTree(bigHashes(in.P), t, tlog.Hash(bigS(uint64(t))), n, tlog.Hash(bigS(uint64(n))))
		}) {
			if (err == nil) != exp.Verifies {
				add("tree:verdict", "CheckTree(proof %s of %d hashes, t=%d, n=%d) returned %v; by RFC 6962 the proof %s", in.Mut, len(in.P), t, n, err, map[bool]string{true: "verifies", false: "does not verify"}[exp.Verifies])
			}
		}
		if exp.Prove {
			var p tlog.TreeProof
			if call("ProveTree", func() { p, err = tlog.ProveTree(t, n, uniformReader{}) }) {
				if err != nil || !core.Eq(hashStrs(p), hashStrs(bigHashes(in.P))) {
					add("tree:proof", "ProveTree(t=%d, n=%d) = %d hashes (%v), RFC 6962 consistency proof has %d", t, n, len(p), err, len(in.P))
				}
			}
		}
	case "range":
		// an index that is not below the size, a size above the tree: refused with an error
		var err1, err2 error
		if call("CheckRecord", func() { err1 = tlog.CheckRecord(nil, t, tlog.Hash(bigS(uint64(t))), n, tlog.Hash(bigLeaf)) }) && err1 == nil {
			add("range:accepted", "CheckRecord accepts index %d in a tree of %d records", n, t)
		}
		if n > t {
			if call("CheckTree", func() { err2 = tlog.CheckTree(nil, t, tlog.Hash(bigS(uint64(t))), n, tlog.Hash(bigLeaf)) }) && err2 == nil {
				add("range:accepted", "CheckTree accepts old size %d for a tree of %d records", n, t)
			}
		}
	case "index":
		if got := tlog.StoredHashCount(n); got != int64(bitsToU(exp.Count)) {
			add("index:count", "StoredHashCount(%d) = %d, the layout has %d", n, got, bitsToU(exp.Count))
		}
		if got := tlog.StoredHashIndex(0, n); got != int64(bitsToU(exp.Leafpos)) {
			add("index:leaf", "StoredHashIndex(0, %d) = %d, the layout puts it at %d", n, got, bitsToU(exp.Leafpos))
		}
		k := int64(bitsToU(exp.K))
		if got := tlog.StoredHashIndex(in.L, k); got != int64(bitsToU(exp.Top)) {
			add("index:top", "StoredHashIndex(%d, %d) = %d, the layout puts it at %d", in.L, k, got, bitsToU(exp.Top))
		}
		if l2, k2 := tlog.SplitStoredHashIndex(int64(bitsToU(exp.Top))); l2 != in.L || k2 != k {
			add("index:split", "SplitStoredHashIndex(%d) = (%d, %d), the layout says (%d, %d)", bitsToU(exp.Top), l2, k2, in.L, k)
		}
	default:
		panic("tlogbig: unknown case kind " + c.K)
	}
	return vs, len(in.T) > 32
}

func hashStrs(hs []tlog.Hash) []string {
	out := make([]string, len(hs))
	for i, h := range hs {
		out[i] = h.String()
	}
	return out
}

func (w *tlogBigWorld) Finish() []core.Violation { return nil }

func (w *tlogBigWorld) Record(rng *rand.Rand, n int, emit func(k string, in, obs any)) {}
