package worlds

import (
	azip "archive/zip"
	"bytes"
	"crypto/sha256"
	"encoding/base64"
	"encoding/json"
	"fmt"
	"io"
	"math/rand"
	"os"
	"path/filepath"
	"sort"
	"strings"
	"time"

	"golang.org/x/mod/sumdb/dirhash"

	"verifharness/internal/concrete"
	"verifharness/internal/core"
)

func init() { core.Register("dirhash", func() core.World { return &dirhashWorld{} }) }

type dirhashWorld struct{}

func (w *dirhashWorld) Finish() []core.Violation { return nil }

type dhFile struct {
	Name    []int `json:"name"`
	Content int   `json:"content"`
}

func dhContent(c int) []byte { return []byte(fmt.Sprintf("content number %d\n", c)) }

// formulaHash is the documented formula, written out independently.
func formulaHash(names []string, content func(string) []byte) string {
	var sb strings.Builder
	for _, n := range names {
		sb.WriteString(fmt.Sprintf("%x  %s\n", sha256.Sum256(content(n)), n))
	}
	sum := sha256.Sum256([]byte(sb.String()))
	return "h1:" + base64.StdEncoding.EncodeToString(sum[:])
}

func (w *dirhashWorld) Check(c *core.Case) ([]core.Violation, bool) {
	if c.K != "set" {
		panic("dirhash: unknown case kind " + c.K)
	}
	var in struct {
		Files []dhFile `json:"files"`
	}
	if err := json.Unmarshal(c.In, &in); err != nil {
		panic(err)
	}
	var exp struct {
		Refused bool     `json:"refused"`
		Summary []dhFile `json:"summary"`
		Order   [][]int  `json:"order"` // trace-flagged events carry the order instead of the summary
	}
	json.Unmarshal(c.Exp, &exp)
	if len(exp.Summary) == 0 {
		for _, o := range exp.Order {
			exp.Summary = append(exp.Summary, dhFile{Name: o})
		}
	}
	contents := map[string][]byte{}
	var names []string
	for _, f := range in.Files {
		n := concrete.Str(f.Name)
		names = append(names, n)
		contents[n] = dhContent(f.Content)
	}
	open := func(n string) (io.ReadCloser, error) { return io.NopCloser(bytes.NewReader(contents[n])), nil }
	var order []string
	for _, f := range exp.Summary {
		order = append(order, concrete.Str(f.Name))
	}
	want := formulaHash(order, func(n string) []byte { return contents[n] })
	var vs []core.Violation
	// every permutation of the listing order
	perm := append([]string(nil), names...)
	sort.Strings(perm)
	var rec func(k int)
	count := 0
	rec = func(k int) {
		if k == len(perm) {
			count++
			got, err := dirhash.Hash1(append([]string(nil), perm...), open)
			switch {
			case exp.Refused && err == nil:
				vs = append(vs, core.Violation{Sig: "set:newline-accepted", What: fmt.Sprintf("Hash1 accepts a name containing a newline: %q", perm), Case: c})
			case !exp.Refused && err != nil:
				vs = append(vs, core.Violation{Sig: "set:error", What: fmt.Sprintf("Hash1(%q) fails: %v", perm, err), Case: c})
			case !exp.Refused && got != want:
				vs = append(vs, core.Violation{Sig: "set:formula", What: fmt.Sprintf("Hash1(%q) = %s, the documented formula over the summary %q gives %s", perm, got, order, want), Case: c})
			}
			return
		}
		for i := k; i < len(perm); i++ {
			perm[k], perm[i] = perm[i], perm[k]
			rec(k + 1)
			perm[k], perm[i] = perm[i], perm[k]
		}
	}
	rec(0)
	if !exp.Refused && len(names) > 0 {
		// history: a hash that fails half way through a file (read error), then the same set again
		calls := 0
		failing := func(n string) (io.ReadCloser, error) {
			calls++
			if calls == len(names) {
				return io.NopCloser(io.MultiReader(bytes.NewReader([]byte("partial content")), errReader{})), nil
			}
			return io.NopCloser(bytes.NewReader(contents[n])), nil
		}
		if _, err := dirhash.Hash1(append([]string(nil), names...), failing); err == nil {
			vs = append(vs, core.Violation{Sig: "set:read-error-ignored", What: fmt.Sprintf("Hash1(%q) succeeds although reading a file fails half way", names), Case: c})
		}
		if got, err := dirhash.Hash1(append([]string(nil), names...), open); err != nil || got != want {
			vs = append(vs, core.Violation{Sig: "set:after-failure", What: fmt.Sprintf("after a Hash1 call that failed on a read error, Hash1(%q) = %s (%v), the documented formula gives %s", names, got, err, want), Case: c})
		}
	}
	if !exp.Refused && len(names) > 0 {
		if msg := zipMetadata(names, contents, want); msg != "" {
			vs = append(vs, core.Violation{Sig: "set:zip-metadata", What: msg, Case: c})
		}
	}
	if !exp.Refused {
		if msg := sharedListing(names, contents); msg != "" {
			vs = append(vs, core.Violation{Sig: "set:shared-listing", What: msg, Case: c})
		}
	}
	if len(vs) > 3 {
		vs = vs[:3]
	}
	return vs, len(in.Files) >= 2
}

// sharedListing: two hashes over overlapping views of one listing, the second started while the first is reading
// its first file (from the open callback, so that the order of events is fixed).  Each must be the documented
// formula over its own set of names, and the caller's listing must be left as it was.
func sharedListing(names []string, contents map[string][]byte) string {
	if len(names) < 3 {
		return ""
	}
	all := append([]string(nil), names...)
	sort.Sort(sort.Reverse(sort.StringSlice(all))) // a listing that is not sorted
	all[0], all[len(all)-1] = all[len(all)-1], all[0]
	before := append([]string(nil), all...)
	outer, inner := all[:len(all)-1], all[1:]
	wantOuter := formulaHashSorted(before[:len(before)-1], contents)
	wantInner := formulaHashSorted(before[1:], contents)
	var gotInner string
	var errInner error
	started := false
	var open func(n string) (io.ReadCloser, error)
	open = func(n string) (io.ReadCloser, error) {
		if !started {
			started = true
			gotInner, errInner = dirhash.Hash1(inner, func(n string) (io.ReadCloser, error) { return io.NopCloser(bytes.NewReader(contents[n])), nil })
		}
		return io.NopCloser(bytes.NewReader(contents[n])), nil
	}
	gotOuter, errOuter := dirhash.Hash1(outer, open)
	switch {
	case errOuter != nil || errInner != nil:
		return fmt.Sprintf("Hash1 over overlapping views of one listing fails: %v / %v", errOuter, errInner)
	case gotOuter != wantOuter || gotInner != wantInner:
		return fmt.Sprintf("two hashes over overlapping views %q and %q of one listing, the second started while the first reads its first file: results %s / %s, the documented formula gives %s / %s", before[:len(before)-1], before[1:], gotOuter, gotInner, wantOuter, wantInner)
	case !core.Eq(all, before):
		return fmt.Sprintf("Hash1 reordered the caller's listing: %q became %q", before, all)
	}
	return ""
}

type errReader struct{}

func (errReader) Read([]byte) (int, error) { return 0, fmt.Errorf("read error") }

func formulaHashSorted(names []string, contents map[string][]byte) string {
	s := append([]string(nil), names...)
	sort.Strings(s)
	return formulaHash(s, func(n string) []byte { return contents[n] })
}

func (w *dirhashWorld) Record(rng *rand.Rand, n int, emit func(k string, in, obs any)) {
	pool := []string{"a", "b", "a/b", "a b", "a  b", "B", "é", "h111  a", "a/c", "go.mod", "x/y/z.go", "Z", "aa", "a.b", "a\nb", "\nab", "a\n", "\n", "a%20b", "100%", "%[1]x", "%s", "%v%d", "%", "./a", "a//b", "a/../b", "a/", "x/./y"}
	for i := 0; i < n; i++ {
		m := 1 + rng.Intn(8)
		seen := map[string]bool{}
		var files []map[string]any
		var names []string
		contents := map[string][]byte{}
		for j := 0; j < m; j++ {
			nm := pool[rng.Intn(len(pool))]
			if strings.Contains(nm, "\n") && rng.Intn(4) != 0 {
				nm = "a"
			}
			if seen[nm] {
				continue
			}
			seen[nm] = true
			c := 1 + rng.Intn(2)
			files = append(files, map[string]any{"name": concrete.Ints(nm), "content": c})
			names = append(names, nm)
			contents[nm] = dhContent(c)
		}
		open := func(n string) (io.ReadCloser, error) { return io.NopCloser(bytes.NewReader(contents[n])), nil }
		got, err := dirhash.Hash1(names, open)
		// the recorder reports which ordering of the files reproduces the hash by the documented formula
		sorted := append([]string(nil), names...)
		sort.Strings(sorted)
		matches := err == nil && got == formulaHash(sorted, func(n string) []byte { return contents[n] })
		shared := err != nil || sharedListing(names, contents) == ""
		emit("set", map[string]any{"files": files}, map[string]any{"refused": err != nil, "order": concrete.IntsList(sorted), "formula": (matches && shared) || err != nil})
	}
}

// zipMetadata: HashZip of archives that hold the same names and bytes with different metadata (entry mode bits of a
// symbolic link, a directory, a named pipe, a device; stored or deflated; modification times; comments) is the formula
// over names and bytes.
func zipMetadata(names []string, contents map[string][]byte, want string) string {
	for _, n := range names {
		if strings.HasSuffix(n, "/") || n == "" {
			return "" // archive/zip treats such an entry as a directory and refuses content for it
		}
	}
	dir := scratchDir()
	defer os.RemoveAll(dir)
	modes := []os.FileMode{0644, os.ModeSymlink | 0777, os.ModeDir | 0755, os.ModeNamedPipe | 0600, os.ModeDevice | 0600, os.ModeSetuid | 0755}
	for variant := 0; variant < 3; variant++ {
		var buf bytes.Buffer
		zw := azip.NewWriter(&buf)
		var desc []string
		for i, n := range names {
			fh := &azip.FileHeader{Name: n, Method: azip.Deflate}
			if (i+variant)%2 == 1 {
				fh.Method = azip.Store
			}
			m := modes[(i+variant*2+1)%len(modes)]
			if variant == 0 {
				m = modes[0]
			}
			fh.SetMode(m)
			fh.Modified = time.Date(1980+10*variant+i, 1, 2, 3, 4, 5, 0, time.UTC)
			fh.Comment = fmt.Sprintf("entry %d", i*variant)
			w, err := zw.CreateHeader(fh)
			if err != nil {
				return ""
			}
			if _, err := w.Write(contents[n]); err != nil {
				return ""
			}
			desc = append(desc, fmt.Sprintf("%q mode %v", n, m))
		}
		zw.SetComment(fmt.Sprintf("variant %d", variant))
		if err := zw.Close(); err != nil {
			return ""
		}
		zp := filepath.Join(dir, fmt.Sprintf("v%d.zip", variant))
		if err := os.WriteFile(zp, buf.Bytes(), 0644); err != nil {
			return ""
		}
		got, err := dirhash.HashZip(zp, dirhash.Hash1)
		if err != nil || got != want {
			return fmt.Sprintf("HashZip of an archive with the entries %v = %s (%v); the documented formula over names and bytes gives %s", desc, got, err, want)
		}
	}
	return ""
}
