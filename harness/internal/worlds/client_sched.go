package worlds

import (
	"encoding/json"
	"errors"
	"fmt"
	"os"
	"runtime"
	"strings"
	"sync"
	"time"

	"golang.org/x/mod/sumdb"

	"verifharness/internal/core"
	"verifharness/internal/sched"
	"verifharness/internal/sumworld"
)

// namedOps is the view one client has of the shared external world; every
// operation first stops at the scheduler's gate.
type namedOps struct {
	o    *scriptOps
	name string
	s    *sched.Sched
	rs   *runState
}

func (n *namedOps) abs(file string) string {
	if f, ok := n.o.parseFile(file); ok {
		return f.String()
	}
	return strings.TrimPrefix(file, n.o.w.Name+"/")
}

func (n *namedOps) ReadRemote(path string) ([]byte, error) {
	n.rs.privateOp("ReadRemote", n.abs(path))
	n.s.Gate(n.who(), "ReadRemote", n.abs(path))
	// which lookup is this for?  Tile reads run on goroutines started by the lookup's goroutine.
	th := threadOf()
	if th == "?" {
		th = threadOfParent()
	}
	data, err := n.o.ReadRemoteTl(path, n.rs.threadTl(th, ""))
	if f, ok := n.o.parseFile(path); ok && f.Kind == "lookup" && err == nil {
		if _, hd, ok := n.o.w.ClassifyLookup(data); ok && (hd.Tl == "A" || hd.Tl == "B") {
			n.rs.threadTl(th, hd.Tl)
		}
	}
	return data, err
}

// threadOfParent: the thread of the goroutine that started this one ("created by ... in goroutine N")
func threadOfParent() string {
	buf := make([]byte, 8192)
	n := runtime.Stack(buf, false)
	s := string(buf[:n])
	if i := strings.LastIndex(s, " in goroutine "); i >= 0 {
		rest := s[i+len(" in goroutine "):]
		if j := strings.IndexAny(rest, "\n "); j > 0 {
			rest = rest[:j]
		}
		if t, ok := gidThread.Load(strings.TrimSpace(rest)); ok {
			return t.(string)
		}
	}
	return "?"
}
func (n *namedOps) ReadConfig(file string) ([]byte, error) {
	n.rs.privateOp("ReadConfig", n.abs(file))
	n.s.Gate(n.who(), "ReadConfig", n.abs(file))
	return n.o.ReadConfig(file)
}
func (n *namedOps) WriteConfig(file string, old, new []byte) error {
	n.rs.privateOp("WriteConfig", n.abs(file))
	n.s.Gate(n.who(), "WriteConfig", n.abs(file))
	return n.o.WriteConfig(file, old, new)
}
func (n *namedOps) ReadCache(file string) ([]byte, error) {
	n.rs.privateOp("ReadCache", n.abs(file))
	n.s.Gate(n.who(), "ReadCache", n.abs(file))
	n.o.mu.Lock()
	n.o.clientCalls = append(n.o.clientCalls, n.name+" ReadCache "+n.abs(file))
	n.o.mu.Unlock()
	return n.o.ReadCache(file)
}
func (n *namedOps) WriteCache(file string, data []byte) {
	n.rs.privateOp("WriteCache", n.abs(file))
	n.s.Gate(n.who(), "WriteCache", n.abs(file))
	n.o.WriteCache(file, data)
}
func (n *namedOps) Log(msg string)           {}
func (n *namedOps) SecurityError(msg string) { n.o.SecurityError(msg) }

// A lookup of a path matching the private pattern list must not cause any external operation (C14).  The
// goroutine running such a lookup is marked; every external operation checks the mark.
var privateNow sync.Map // goroutine id -> description of the private lookup in progress

// runState: what one replay or one recorded run collects besides its events.  One per run: several runs may be in
// progress in one process (parallel replay workers).
type runState struct {
	mu      sync.Mutex
	private []string          // external operations seen during a private lookup
	panics  []string          // lookups that panicked
	thrTl   map[string]string // thread -> timeline of the lookup response it received last
}

func newRunState() *runState { return &runState{thrTl: map[string]string{}} }

func (rs *runState) privateOp(op, file string) {
	if d, ok := privateNow.Load(gid()); ok {
		rs.mu.Lock()
		rs.private = append(rs.private, fmt.Sprintf("%s %s during %s", op, file, d))
		rs.mu.Unlock()
	}
}

func (rs *runState) takePrivate() []string {
	rs.mu.Lock()
	defer rs.mu.Unlock()
	out := rs.private
	rs.private = nil
	return out
}

func (rs *runState) takePanics() []string {
	rs.mu.Lock()
	defer rs.mu.Unlock()
	out := rs.panics
	rs.panics = nil
	return out
}

func (rs *runState) threadTl(th, set string) string {
	rs.mu.Lock()
	defer rs.mu.Unlock()
	if set != "" {
		rs.thrTl[th] = set
		return set
	}
	return rs.thrTl[th]
}

// goroutine identity: lookups run on goroutines registered by runLookups, so that gates can
// name the model thread they belong to
var gidThread sync.Map // goroutine id -> thread name

func gid() string {
	var buf [64]byte
	n := runtime.Stack(buf[:], false)
	s := strings.TrimPrefix(string(buf[:n]), "goroutine ")
	if i := strings.IndexByte(s, ' '); i > 0 {
		return s[:i]
	}
	return "?"
}

func threadOf() string {
	if t, ok := gidThread.Load(gid()); ok {
		return t.(string)
	}
	return "?"
}

func (n *namedOps) who() string { return n.name + "/" + threadOf() }

// hook dispatch: the hook variable of package sumdb is global, clients are told apart by pointer
var (
	hookMu      sync.Mutex
	hookClients = map[*sumdb.Client]*namedOps{}
	hookOnce    sync.Once
)

func registerHookClient(c *sumdb.Client, n *namedOps) {
	hookOnce.Do(installVerifHook)
	hookMu.Lock()
	hookClients[c] = n
	hookMu.Unlock()
}

func unregisterHookClient(c *sumdb.Client) {
	hookMu.Lock()
	delete(hookClients, c)
	hookMu.Unlock()
}

func dispatchHook(c *sumdb.Client, point string, args ...interface{}) {
	hookMu.Lock()
	n := hookClients[c]
	hookMu.Unlock()
	if n == nil {
		return
	}
	switch point {
	case "claim":
		file, _ := args[0].(string)
		n.s.Gate(n.who(), "Hook", "claim:"+n.abs(file))
	case "install":
		n.s.Gate(n.who(), "Hook", fmt.Sprintf("install:%v", args[0]))
	case "merge", "check", "cfgsnap":
		n.s.Gate(n.who(), "Hook", point)
	}
}

type schedItem struct {
	client, op, file string
	grow             string
	head             *sumworld.HeadLabel
}

// replaySchedule replays a schedule of the model into the real client.  When the code leaves the schedule (a
// thread arrives at an operation the model does not predict for it) there are two natural ways to go on, and
// a change of the code may need either to show: the stray thread waits until the schedule has nothing else to
// do ("late"), or it runs on at once ("eager").  The late policy is tried first, the eager one if the first
// run drifted and showed nothing.
func replaySchedule(c *core.Case, in *behaviourIn) ([]core.Violation, bool) {
	vs, nt, drifted := replayScheduleMode(c, in, false)
	if drifted && len(vs) == 0 {
		vs, nt, _ = replayScheduleMode(c, in, true)
	}
	return vs, nt
}

func replayScheduleMode(c *core.Case, in *behaviourIn, eager bool) ([]core.Violation, bool, bool) {
	w := sumworld.New(in.H, in.Prefix, in.SizeA, in.SizeB)
	ops := newScriptOps(w, in.Cfg0, in.Served)
	rs := newRunState()
	s := sched.New("golang.org/x/mod/sumdb.", "worlds.(*namedOps)", "worlds.runLookups", "worlds.dispatchHook")
	// the schedule: external operations and hook points in the model's order
	var items []schedItem
	perThread := map[string][]int{}
	for _, h := range in.Ops {
		cl := in.ClientOf[h.T] + "/" + h.T
		switch h.Op {
		case "LookupStart":
			perThread[h.T] = append(perThread[h.T], h.Key)
			items = append(items, schedItem{client: cl, op: "LookupStart", file: fmt.Sprintf("%s/%d", h.T, h.Key)})
		case "ReadRemote":
			items = append(items, schedItem{client: cl, op: h.Op, file: h.Path.String()})
			// responses are served in the model's order (the releases follow that order)
			ops.remote[h.Path.String()] = append(ops.remote[h.Path.String()], scripted{fault: h.Fault, resp: h.Data, lab: h.Lab})
		case "ReadCache", "WriteCache":
			items = append(items, schedItem{client: cl, op: h.Op, file: h.File.String()})
		case "ReadConfig", "WriteConfig":
			f := "latest"
			if h.File != nil {
				f = h.File.String()
			}
			items = append(items, schedItem{client: cl, op: h.Op, file: f})
		case "Hook":
			var raw struct {
				Point string `json:"point"`
			}
			_ = raw
			if h.Point == "claim" {
				items = append(items, schedItem{client: cl, op: "Hook", file: fmt.Sprintf("claim:lookup/%d", h.Key)})
			} else if h.Point == "install" {
				items = append(items, schedItem{client: cl, op: "Hook", file: fmt.Sprintf("install:%d", h.N)})
			} else {
				items = append(items, schedItem{client: cl, op: "Hook", file: h.Point})
			}
		case "Grow":
			items = append(items, schedItem{op: "Grow", grow: "A"})
		case "EnvStore":
			// another honest process stores a newer head in the shared configuration file
			items = append(items, schedItem{op: "EnvStore", head: h.Head})
		}
	}
	clients := map[string]*sumdb.Client{}
	var named []*namedOps
	for _, cn := range in.ClientOf {
		if clients[cn] != nil {
			continue
		}
		n := &namedOps{o: ops, name: cn, s: s, rs: rs}
		cl := sumdb.NewClient(n)
		cl.SetTileHeight(in.H)
		if len(in.Skip) > 0 {
			var pats []string
			for _, k := range in.Skip {
				pats = append(pats, w.ModPath(k))
			}
			cl.SetGONOSUMDB(malformedPattern + "," + strings.Join(pats, ","))
		}
		registerHookClient(cl, n)
		clients[cn] = cl
		named = append(named, n)
	}
	defer func() {
		for _, cl := range clients {
			unregisterHookClient(cl)
		}
	}()
	type obsT struct {
		t     string
		key   int
		lines []string
		err   error
	}
	var omu sync.Mutex
	var obs []obsT
	var wg sync.WaitGroup
	privateKeys := map[int]bool{}
	for _, k := range in.Skip {
		privateKeys[k] = true
	}
	for t, keys := range perThread {
		wg.Add(1)
		go runLookups(&wg, s, rs, in.ClientOf[t]+"/"+t, t, keys, privateKeys, clients[in.ClientOf[t]], w, func(k int, lines []string, err error) {
			omu.Lock()
			obs = append(obs, obsT{t, k, lines, err})
			omu.Unlock()
		})
	}
	finished := make(chan struct{})
	go func() { wg.Wait(); close(finished) }()
	// every lookup goroutine first stops at its LookupStart gate
	for wait := time.Now().Add(5 * time.Second); len(s.Pending()) < len(perThread) && time.Now().Before(wait); {
		time.Sleep(50 * time.Microsecond)
	}
	drift := 0
	var driftNote string
	isTile := func(p sched.Pending) bool { return strings.HasPrefix(p.File, "tile/") }
	i := 0
	retries := 0
	lastExtra := -1
	deadline := time.Now().Add(20 * time.Second)
	for {
		select {
		case <-finished:
			goto done
		default:
		}
		if time.Now().After(deadline) {
			// the scheduler lost track (or the code hangs): open all gates and see whether the lookups finish by themselves
			s.ReleaseAll()
			select {
			case <-finished:
				drift++
				driftNote = "scheduler: schedule not completed within 20s; finished free-running"
				goto done
			case <-time.After(20 * time.Second):
				return []core.Violation{{Sig: "c14:hang", What: "concurrent lookups against an honest server did not finish (20s gated + 20s free-running)"}}, true, true
			}
		}
		if !s.Quiesce(2 * time.Second) {
			drift++
			driftNote = "scheduler: no quiescence within 2s"
		}
		pend := s.Pending()
		if len(pend) == 0 {
			select {
			case <-finished:
				goto done
			case <-time.After(200 * time.Microsecond):
				continue
			}
		}
		// growth steps of the server happen when the schedule says so
		for i < len(items) && items[i].op == "Grow" {
			ops.mu.Lock()
			if ops.served["A"] < w.Size["A"] {
				ops.served["A"]++
			}
			ops.mu.Unlock()
			i++
		}
		for i < len(items) && items[i].op == "EnvStore" {
			ops.mu.Lock()
			ops.cfg = w.Head(*items[i].head)
			ops.mu.Unlock()
			i++
		}
		// tile traffic is below the abstraction of this model configuration: let it through
		released := false
		for _, p := range pend {
			if isTile(p) {
				s.Release(p.ID)
				released = true
				break
			}
		}
		if released {
			continue
		}
		if eager {
			// a goroutine at an operation that the rest of the schedule does not contain for its thread runs on at once
			for _, p := range pend {
				found := false
				for j := i; j < len(items); j++ {
					if items[j].client == p.Client && items[j].op == p.Op && items[j].file == p.File {
						found = true
						break
					}
				}
				if !found {
					drift++
					if driftNote == "" {
						driftNote = fmt.Sprintf("schedule step %d: %s is not in the rest of the schedule (eager)", i, p)
					}
					s.Release(p.ID)
					released = true
					break
				}
			}
			if released {
				continue
			}
		}
		// a goroutine waiting at a hook point that the schedule does not have next for its thread: the code has a
		// yield point where the model has none (or in another place).  Hook points do nothing visible, so the
		// goroutine is let through at once - the step happens as early as it can - and the drift is noted.
		for _, p := range pend {
			if p.Op != "Hook" {
				continue
			}
			expected := false
			for j := i; j < len(items); j++ {
				if items[j].client == p.Client {
					expected = items[j].op == "Hook" && items[j].file == p.File
					break
				}
			}
			if !expected {
				drift++
				if driftNote == "" {
					driftNote = fmt.Sprintf("schedule step %d: %s waits at a hook point the schedule does not have next for it", i, p)
				}
				s.Release(p.ID)
				released = true
				break
			}
		}
		if released {
			continue
		}
		pick := -1
		if i < len(items) {
			for _, p := range pend {
				if p.Client == items[i].client && p.Op == items[i].op && p.File == items[i].file {
					pick = p.ID
					break
				}
			}
			if pick >= 0 {
				i++
			}
		}
		if pick < 0 && i < len(items) && retries < 20 {
			// give a goroutine that was observed between two blocking points a little more time
			retries++
			time.Sleep(100 * time.Microsecond)
			continue
		}
		retries = 0
		if pick < 0 {
			// the code is somewhere the model did not predict: note the drift, and keep as close to the schedule as
			// possible: the thread the schedule wants to move is moved (an extra step of that thread); if it still
			// does not arrive at the wanted step, the step is skipped (the thread has taken it earlier, or never will)
			drift++
			if driftNote == "" {
				want := "<end of schedule>"
				if i < len(items) {
					want = items[i].client + ":" + items[i].op + ":" + items[i].file
				}
				driftNote = fmt.Sprintf("schedule step %d wants %s, pending %v", i, want, pend)
			}
			if i < len(items) {
				same := -1
				for _, p := range pend {
					if p.Client == items[i].client {
						same = p.ID
					}
				}
				if items[i].op == "Hook" {
					// a yield point of the model that the code does not have here (or took earlier): skip it
					i++
					continue
				}
				if same >= 0 && lastExtra != i {
					lastExtra = i
					pick = same
				} else {
					i++
					continue
				}
			} else {
				pick = pend[0].ID
			}
		}
		if debugSched {
			for _, p := range pend {
				if p.ID == pick {
					fmt.Fprintf(os.Stderr, "release %s (pending %v)\n", p, pend)
				}
			}
		}
		s.Release(pick)
	}
done:
	if drift > 0 {
		core.NoteDrift(driftNote)
	}
	// ---- observers (C14) ----
	var vs []core.Violation
	skip := map[int]bool{}
	for _, k := range in.Skip {
		skip[k] = true
	}
	for _, f := range rs.takePanics() {
		vs = append(vs, core.Violation{Sig: "c14:panic", What: f}, core.Violation{Sig: "c13:panic", What: f})
	}
	forked := in.SizeB > 0
	if forked {
		// ---- observers (C13) for a split-view server: no two inconsistent signed trees are both accepted ----
		ops.mu.Lock()
		var accepted []sumworld.HeadLabel
		for _, o := range obs {
			if o.err == nil && !skip[o.key] {
				if hd, ok := ops.lastLookupHead[o.key]; ok && hd.Kind == "good" {
					accepted = append(accepted, hd)
				}
			}
		}
		for i := range accepted {
			for j := i + 1; j < len(accepted); j++ {
				if !(w.PrefixOf(accepted[i], accepted[j]) || w.PrefixOf(accepted[j], accepted[i])) {
					vs = append(vs, core.Violation{Sig: "c13:two-timelines-accepted", What: fmt.Sprintf("concurrent lookups of one client both succeeded although their signed tree heads %v and %v are mutually inconsistent", accepted[i], accepted[j])})
				}
			}
		}
		for _, v := range ops.viol {
			if strings.HasPrefix(v.Sig, "c13:") || strings.HasPrefix(v.Sig, "c01:") {
				vs = append(vs, v)
			}
		}
		// whenever the failure is reported as a security error the callback received both signed heads
		for _, m := range ops.sec {
			if len(ops.notesIn(m)) < 2 {
				vs = append(vs, core.Violation{Sig: "c13:security-missing-note", What: fmt.Sprintf("the security report does not contain two signed tree heads of the two views: %q", m)})
			}
		}
		ops.mu.Unlock()
		return vs, true, drift > 0
	}
	for _, o := range obs {
		path, vers := lookupArgs(w, o.key)
		if skip[o.key] {
			if !errors.Is(o.err, sumdb.ErrGONOSUMDB) {
				vs = append(vs, core.Violation{Sig: "c14:skip-not-skipped", What: fmt.Sprintf("Lookup(%s,%s) matches the private pattern list but returned %v, %v", path, vers, o.lines, o.err)})
			}
			continue
		}
		if o.err != nil || !core.Eq(o.lines, sumworld.Lines(w.RecText("A", o.key), path, vers)) {
			vs = append(vs, core.Violation{Sig: "c14:wrong-result", What: fmt.Sprintf("honest server, concurrent Lookup(%s,%s) by %s returned %q, %v", path, vers, o.t, o.lines, o.err)})
			// (C01's last sentence as well: an honest server and honest cache never cause a failure)
			vs = append(vs, core.Violation{Sig: "c01:honest-fails", What: fmt.Sprintf("honest server and cache (and honest writers of the shared configuration), but Lookup(%s,%s) by %s returned %q, %v", path, vers, o.t, o.lines, o.err)})
		}
	}
	for _, f := range rs.takePrivate() {
		vs = append(vs, core.Violation{Sig: "c14:skip-not-silent", What: "external operation for a path matching the private pattern list: " + f})
	}
	ops.mu.Lock()
	seen := map[string]int{}
	for _, cc := range ops.clientCalls {
		if strings.Contains(cc, " ReadCache lookup/") {
			seen[cc]++
			if seen[cc] == 2 {
				vs = append(vs, core.Violation{Sig: "c14:fetch-twice", What: "the same lookup was fetched twice by one client: " + cc})
			}
			for k := range skip {
				if strings.HasSuffix(cc, fmt.Sprintf("lookup/%d", k)) {
					vs = append(vs, core.Violation{Sig: "c14:skip-not-silent", What: "external operation for a path matching the private pattern list: " + cc})
				}
			}
		}
	}
	maxServed := 0
	for _, cc := range ops.servedHeads {
		if cc > maxServed {
			maxServed = cc
		}
	}
	final := w.ClassifyHead(ops.cfg)
	if maxServed > 0 && final.N != maxServed {
		vs = append(vs, core.Violation{Sig: "c14:quiescent-config", What: fmt.Sprintf("after all lookups finished the stored head has size %d, the largest tree any client received has size %d", final.N, maxServed)})
	}
	for _, v := range ops.viol {
		if v.Sig == "c13:config-not-extension" || v.Sig == "c01:config-unauthentic" || v.Sig == "c13:two-timelines" {
			// the stored head moving anywhere but forward is C13's clause and C14's ("never regresses"): reported to both
			vs = append(vs, v)
			v.Sig = "c14:config-regress"
			vs = append(vs, v)
		}
	}
	ops.mu.Unlock()
	return vs, true, drift > 0
}

func hookPoint(c *core.Case, h histOp, raw *struct {
	Point string `json:"point"`
}) string {
	return h.Point
}

func runLookups(wg *sync.WaitGroup, s *sched.Sched, rs *runState, client, t string, keys []int, private map[int]bool, cl *sumdb.Client, w *sumworld.World, done func(int, []string, error)) {
	defer wg.Done()
	g := gid()
	gidThread.Store(g, t)
	defer gidThread.Delete(g)
	for _, k := range keys {
		s.Gate(client, "LookupStart", fmt.Sprintf("%s/%d", t, k))
		path, vers := lookupArgs(w, k)
		if private[k] {
			privateNow.Store(g, fmt.Sprintf("Lookup(%s,%s) by %s", path, vers, t))
		}
		lines, err, pan := safeLookup(cl, path, vers)
		if pan != nil {
			rs.mu.Lock()
			rs.panics = append(rs.panics, fmt.Sprintf("Lookup(%s,%s) by %s panics: %v", path, vers, t, pan))
			rs.mu.Unlock()
		}
		privateNow.Delete(g)
		done(k, lines, err)
	}
}

var _ = json.Marshal
var debugSched = os.Getenv("VERIF_DEBUG") != ""
