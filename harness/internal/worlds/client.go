package worlds

import (
	"bytes"
	"encoding/json"
	"errors"
	"fmt"
	"math/rand"
	"sort"
	"strings"
	"sync"

	"golang.org/x/mod/sumdb"

	"verifharness/internal/core"
	"verifharness/internal/refmerkle"
	"verifharness/internal/sumworld"
)

// malformedPattern goes in front of every GONOSUMDB list: a malformed glob matches nothing and hides nothing after it
// (module.MatchPrefixPatterns skips it)
const malformedPattern = "corp.example.com/[internal"

func init() { core.Register("client", func() core.World { return &clientWorld{} }) }

type clientWorld struct{}

// ---- labels shared with the specification ----

type respLabel struct {
	Kind string             `json:"kind"` // resp | malformed | err
	Rec  sumworld.RecLabel  `json:"rec"`
	Head sumworld.HeadLabel `json:"head"`
}

type tileLab struct {
	Kind string `json:"kind"` // true | disk | tjunk | tswap | ttruncate | textend | tforged | err
	Tl   string `json:"tl"`
	Pos  int    `json:"pos"`
}

// absFile is ["lookup",k] or ["tile",level,n,w], or a plain string for configuration files.
type absFile struct {
	Kind string
	K    int
	L    int
	N    int64
	W    int
}

func (f *absFile) UnmarshalJSON(b []byte) error {
	var s string
	if json.Unmarshal(b, &s) == nil {
		f.Kind = s
		return nil
	}
	var parts []json.RawMessage
	if err := json.Unmarshal(b, &parts); err != nil {
		return err
	}
	json.Unmarshal(parts[0], &f.Kind)
	if f.Kind == "lookup" {
		json.Unmarshal(parts[1], &f.K)
	} else {
		json.Unmarshal(parts[1], &f.L)
		json.Unmarshal(parts[2], &f.N)
		json.Unmarshal(parts[3], &f.W)
	}
	return nil
}

func (f absFile) String() string {
	if f.Kind == "lookup" {
		return fmt.Sprintf("lookup/%d", f.K)
	}
	if f.Kind == "tile" {
		return fmt.Sprintf("tile/%d/%d/%d", f.L, f.N, f.W)
	}
	return f.Kind
}

type histOp struct {
	Op       string              `json:"op"`
	T        string              `json:"t"`
	C        string              `json:"c"`
	Key      int                 `json:"key"`
	File     *absFile            `json:"file"`
	Path     *absFile            `json:"path"`
	Hit      bool                `json:"hit"`
	Fault    bool                `json:"fault"`
	Data     *respLabel          `json:"data"`
	Lab      *tileLab            `json:"lab"`
	Head     *sumworld.HeadLabel `json:"head"`
	Old      *sumworld.HeadLabel `json:"old"`
	New      *sumworld.HeadLabel `json:"new"`
	Conflict bool                `json:"conflict"`
	Point    string              `json:"point"`
	N        int                 `json:"n"`
	Ok       bool                `json:"ok"`
	Err      string              `json:"err"`
}

type behaviourIn struct {
	H        int                `json:"h"`
	Prefix   int                `json:"prefix"`
	SizeA    int                `json:"sizeA"`
	SizeB    int                `json:"sizeB"`
	Served   map[string]int     `json:"served"`
	Cfg0     sumworld.HeadLabel `json:"cfg0"`
	ClientOf map[string]string  `json:"clientOf"`
	Skip     []int              `json:"skip"`
	Disk0    bool               `json:"disk0"` // the cache starts with every complete tile of timeline A
	Lookups0 []int              `json:"lookups0"` // keys whose lookup files are in the cache from the start (honest, under the head served at the start)
	Ops      []histOp           `json:"ops"`
}

// ---- file names (written here from the documentation, not taken from the code under test) ----

func escapeUpper(s string) string {
	var sb strings.Builder
	for _, r := range s {
		if r >= 'A' && r <= 'Z' {
			sb.WriteByte('!')
			sb.WriteRune(r + 'a' - 'A')
		} else {
			sb.WriteRune(r)
		}
	}
	return sb.String()
}

func tilePathOf(h, l int, n int64, w int) string {
	ns := fmt.Sprintf("%03d", n%1000)
	for n >= 1000 {
		n /= 1000
		ns = fmt.Sprintf("x%03d/%s", n%1000, ns)
	}
	p := fmt.Sprintf("tile/%d/%d/%s", h, l, ns)
	if w != 1<<uint(h) {
		p += fmt.Sprintf(".p/%d", w)
	}
	return p
}

// ---- scripted ClientOps ----

type scripted struct {
	fault bool
	resp  *respLabel
	lab   *tileLab
}

type opCall struct {
	Op    string `json:"op"`
	File  string `json:"file"`
	Truth string `json:"truth,omitempty"`
	Fault bool   `json:"fault,omitempty"`
}

type scriptOps struct {
	w                *sumworld.World
	mu               sync.Mutex
	cfg              []byte
	disk             map[string][]byte
	remote           map[string][]scripted // by abstract file
	cache            map[string][]scripted
	served           map[string]int
	calls            []opCall
	sec              []string
	cfgHist          []sumworld.HeadLabel // heads ever stored
	viol             []core.Violation
	unscriptedRemote int
	secKeys          map[int]bool // keys whose lookup ended in the security error since the client (re)started
	lastTl           string       // timeline of the lookup response served last (schedules: unscripted tile reads follow it)
	keyReads         int
	gate             func(op, file string) // optional scheduling gate (C14)
	faultsServed     int
	lastLookupHead   map[int]sumworld.HeadLabel           // key -> head of the most recent lookup response served
	ev               func(k string, in any)               // optional event sink (E3 recording)
	chaos            func(op string, f absFile) *scripted // optional random adversary (E3): nil result = honest
	curTl            string                               // timeline the honest server answers from
	clientCalls      []string                             // "<client> <op> <file>" (concurrent replays)
	servedHeads      []int                                // sizes of the good heads handed to clients in lookup responses
	acceptedHeads    []sumworld.HeadLabel                 // signed heads of the lookup responses of successful lookups (clients of one scriptOps share the configuration)
	envScript        map[int][]sumworld.HeadLabel         // sequential replays: heads another honest process stores just before the n-th WriteConfig call
	nWriteConfig     int
}

func newScriptOps(w *sumworld.World, cfg0 sumworld.HeadLabel, served map[string]int) *scriptOps {
	o := &scriptOps{w: w, disk: map[string][]byte{}, remote: map[string][]scripted{}, cache: map[string][]scripted{}, served: map[string]int{}, lastLookupHead: map[int]sumworld.HeadLabel{}}
	for k, v := range served {
		o.served[k] = v
	}
	if o.served["A"] == 0 {
		o.served["A"] = w.Size["A"]
	}
	o.curTl = "A"
	o.cfg = w.Head(cfg0)
	o.cfgHist = append(o.cfgHist, w.ClassifyHead(o.cfg))
	return o
}

// parseFile maps a real cache file or remote path to its abstract form.
func (o *scriptOps) parseFile(name string) (absFile, bool) {
	name = strings.TrimPrefix(name, o.w.Name)
	name = strings.TrimPrefix(name, "/")
	if strings.HasPrefix(name, "lookup/") {
		rest := strings.TrimPrefix(name, "lookup/")
		for k := 0; k < o.w.Size["A"]+o.w.Size["B"]+2; k++ {
			if rest == escapeUpper(o.w.ModPath(k))+"@"+escapeUpper(o.w.Version(k)) {
				return absFile{Kind: "lookup", K: k}, true
			}
		}
		return absFile{}, false
	}
	if strings.HasPrefix(name, "tile/") {
		// invert tilePathOf by search over the small coordinate space of the world
		maxN := int64(o.w.Size["A"] + o.w.Size["B"] + 2)
		for l := 0; l <= 12; l++ {
			for n := int64(0); n <= maxN; n++ {
				for wd := 1; wd <= 1<<uint(o.w.H); wd++ {
					if tilePathOf(o.w.H, l, n, wd) == name {
						return absFile{Kind: "tile", L: l, N: n, W: wd}, true
					}
				}
			}
		}
	}
	return absFile{}, false
}

func (o *scriptOps) respBytes(r *respLabel) ([]byte, error) {
	switch r.Kind {
	case "resp":
		return o.w.LookupResp(r.Rec, r.Head), nil
	case "malformed":
		return []byte("not a record"), nil
	}
	return nil, errors.New("scripted network error")
}

// fillDiskWithFullTiles: the cache as a client that went to the end of timeline A left it, minus the partial tiles
func (o *scriptOps) fillDiskWithFullTiles() {
	full := 1 << uint(o.w.H)
	for level := 0; level < 64; level++ {
		any := false
		for tn := int64(0); ; tn++ {
			d := o.w.TileData("A", level, tn, full)
			if d == nil {
				break
			}
			any = true
			o.disk[absFile{Kind: "tile", L: level, N: tn, W: full}.String()] = d
		}
		if !any {
			break
		}
	}
}

func (o *scriptOps) tileBytes(f absFile, lab *tileLab) ([]byte, error) {
	d := o.w.TileData(lab.Tl, f.L, f.N, f.W)
	if lab.Kind == "err" || d == nil {
		return nil, errors.New("scripted tile error")
	}
	d = append([]byte(nil), d...)
	junk := func(k int) []byte { j := refmerkle.Junk(k); return j[:] }
	switch lab.Kind {
	case "true":
	case "tjunk":
		copy(d[(lab.Pos-1)*32:], junk(1))
	case "tbit":
		d[(lab.Pos-1)*32+5] ^= 0x10
	case "tswap":
		a := append([]byte(nil), d[0:32]...)
		copy(d[0:32], d[32:64])
		copy(d[32:64], a)
	case "ttruncate":
		d = d[:len(d)-32]
	case "textend":
		d = append(d, junk(2)...)
	case "tforged":
		id := int(f.N)<<uint(o.w.H) + lab.Pos - 1
		fh := refmerkle.LeafHash(o.w.ForgedText(id))
		copy(d[(lab.Pos-1)*32:], fh[:])
	default:
		return nil, fmt.Errorf("unknown tile label %q", lab.Kind)
	}
	return d, nil
}

func (o *scriptOps) log(c opCall) { o.calls = append(o.calls, c) }

func (o *scriptOps) ReadRemote(path string) ([]byte, error) { return o.ReadRemoteTl(path, "") }

// ReadRemoteTl: hint names the timeline an unscripted tile read is answered from (a split-view server answers
// each connection consistently with the tree head it gave that connection)
func (o *scriptOps) ReadRemoteTl(path string, hint string) ([]byte, error) {
	f, ok := o.parseFile(path)
	if o.gate != nil {
		o.gate("ReadRemote", f.String())
	}
	o.mu.Lock()
	defer o.mu.Unlock()
	if !ok {
		o.log(opCall{Op: "ReadRemote", File: path, Truth: "unknown path"})
		return nil, fmt.Errorf("no such path %s", path)
	}
	key := f.String()
	var s scripted
	if o.chaos != nil {
		if c := o.chaos("ReadRemote", f); c != nil {
			s = *c
		} else if f.Kind == "lookup" {
			s = scripted{resp: &respLabel{Kind: "resp", Rec: sumworld.RecLabel{Kind: "true", Tl: o.curTl, ID: f.K}, Head: sumworld.HeadLabel{Kind: "good", Tl: o.curTl, N: o.served[o.curTl]}}}
		} else {
			s = scripted{lab: &tileLab{Kind: "true", Tl: o.curTl}}
		}
	} else if q := o.remote[key]; len(q) > 0 {
		s = q[0]
		o.remote[key] = q[1:]
	} else {
		o.unscriptedRemote++
		if f.Kind == "lookup" {
			// an honest server signs a tree that contains the record it returns
			if f.K < o.w.Size["A"] && o.served["A"] < f.K+1 {
				o.served["A"] = f.K + 1
			}
			s = scripted{resp: &respLabel{Kind: "resp", Rec: sumworld.RecLabel{Kind: "true", Tl: "A", ID: f.K}, Head: sumworld.HeadLabel{Kind: "good", Tl: "A", N: o.served["A"]}}}
		} else {
			// tile traffic below the abstraction of a schedule: the server answers from the timeline of the
			// lookup response it gave last
			tl := "A"
			if hint != "" {
				tl = hint
			} else if o.lastTl != "" {
				tl = o.lastTl
			}
			s = scripted{lab: &tileLab{Kind: "true", Tl: tl}}
		}
	}
	if f.Kind == "lookup" && s.resp != nil && s.resp.Kind == "resp" && s.resp.Head.Kind == "good" && (s.resp.Head.Tl == "A" || s.resp.Head.Tl == "B") {
		o.lastTl = s.resp.Head.Tl
	}
	if s.fault {
		o.faultsServed++
		if o.ev != nil {
			o.ev("Fault", map[string]any{"op": "ReadRemote", "file": key})
		}
	} else if s.resp != nil && s.resp.Kind == "resp" && s.resp.Head.Kind == "good" {
		tl := s.respTl(o.w)
		if o.served[tl] < s.resp.Head.N {
			o.served[tl] = s.resp.Head.N
		}
	}
	var data []byte
	var err error
	if f.Kind == "lookup" {
		if f.K >= o.w.Size[s.respTl(o.w)] && s.resp.Kind == "resp" {
			err = fmt.Errorf("no such record")
		} else {
			data, err = o.respBytes(s.resp)
		}
	} else {
		data, err = o.tileBytes(f, s.lab)
	}
	o.log(opCall{Op: "ReadRemote", File: key, Fault: s.fault})
	if f.Kind == "lookup" && err == nil {
		if _, hd, ok := o.w.ClassifyLookup(data); ok {
			o.lastLookupHead[f.K] = hd
			if hd.Kind == "good" {
				o.servedHeads = append(o.servedHeads, hd.N)
			}
			if o.ev != nil {
				o.ev("Served", map[string]any{"key": f.K, "head": hd, "src": "net"})
			}
		}
	}
	return data, err
}

// safeLookup: a panic of the code under test during a lookup becomes an error value and is reported by the caller
func safeLookup(cl *sumdb.Client, path, vers string) (lines []string, err error, panicked any) {
	defer func() {
		if r := recover(); r != nil {
			panicked = r
			lines, err = nil, fmt.Errorf("panic: %v", r)
		}
	}()
	lines, err = cl.Lookup(path, vers)
	return lines, err, nil
}

func (s scripted) respTl(w *sumworld.World) string {
	if s.resp == nil || s.resp.Rec.Tl == "" || s.resp.Rec.Tl == "P" {
		return "A"
	}
	return s.resp.Rec.Tl
}

func (o *scriptOps) ReadConfig(file string) ([]byte, error) {
	if o.gate != nil {
		o.gate("ReadConfig", strings.TrimPrefix(file, o.w.Name+"/"))
	}
	o.mu.Lock()
	defer o.mu.Unlock()
	if file == "key" {
		o.keyReads++
		o.log(opCall{Op: "ReadConfig", File: "key"})
		return []byte(o.w.VKey), nil
	}
	if file == o.w.Name+"/latest" {
		o.log(opCall{Op: "ReadConfig", File: "latest"})
		return append([]byte(nil), o.cfg...), nil
	}
	o.log(opCall{Op: "ReadConfig", File: file, Truth: "unknown file"})
	return nil, fmt.Errorf("unknown config %s", file)
}

func (o *scriptOps) WriteConfig(file string, old, new []byte) error {
	if o.gate != nil {
		o.gate("WriteConfig", "latest")
	}
	o.mu.Lock()
	defer o.mu.Unlock()
	if file != o.w.Name+"/latest" {
		o.viol = append(o.viol, core.Violation{Sig: "c01:config-key-written", What: "WriteConfig on file " + file})
		return fmt.Errorf("unknown config %s", file)
	}
	for _, hl := range o.envScript[o.nWriteConfig] {
		// another honest process gets in first (EnvStore in the specification)
		o.cfg = o.w.Head(hl)
		o.cfgHist = append(o.cfgHist, o.w.ClassifyHead(o.cfg))
	}
	o.nWriteConfig++
	if !bytes.Equal(old, o.cfg) {
		o.log(opCall{Op: "WriteConfig", File: "latest", Truth: "conflict"})
		if o.ev != nil {
			o.ev("WriteConfig", map[string]any{"old": o.w.ClassifyHead(old), "new": o.w.ClassifyHead(new), "conflict": true})
		}
		return sumdb.ErrWriteConflict
	}
	oldL, newL := o.w.ClassifyHead(o.cfg), o.w.ClassifyHead(new)
	if o.ev != nil {
		o.ev("WriteConfig", map[string]any{"old": oldL, "new": newL, "conflict": false})
	}
	o.log(opCall{Op: "WriteConfig", File: "latest", Truth: fmt.Sprintf("%v->%v", oldL, newL)})
	// ---- observer: C01 ConfigAuthentic, C13 ConfigChain / NoTwoTimelines ----
	if newL.Kind != "good" {
		o.viol = append(o.viol, core.Violation{Sig: "c01:config-unauthentic", What: fmt.Sprintf("stored latest tree head set to a message that is not a tree head signed by the configured key (%v): %q", newL, new)})
	} else {
		if !o.w.PrefixOf(oldL, newL) {
			o.viol = append(o.viol, core.Violation{Sig: "c13:config-not-extension", What: fmt.Sprintf("stored head moved from %v to %v, which does not contain it as a prefix", oldL, newL)})
		}
		for _, hl := range o.cfgHist {
			if hl.Kind == "good" && !(o.w.PrefixOf(hl, newL) || o.w.PrefixOf(newL, hl)) {
				o.viol = append(o.viol, core.Violation{Sig: "c13:two-timelines", What: fmt.Sprintf("two mutually inconsistent signed trees were both stored: %v and %v", hl, newL)})
			}
		}
	}
	o.cfg = append([]byte(nil), new...)
	o.cfgHist = append(o.cfgHist, newL)
	return nil
}

func (o *scriptOps) ReadCache(file string) ([]byte, error) {
	f, ok := o.parseFile(file)
	if o.gate != nil {
		o.gate("ReadCache", f.String())
	}
	o.mu.Lock()
	defer o.mu.Unlock()
	key := file
	if ok {
		key = f.String()
	}
	var cs *scripted
	if o.chaos != nil && ok {
		cs = o.chaos("ReadCache", f)
	} else if q := o.cache[key]; len(q) > 0 {
		cs = &q[0]
		o.cache[key] = q[1:]
	}
	if cs != nil {
		s := *cs
		if s.fault {
			if o.ev != nil {
				o.ev("Fault", map[string]any{"op": "ReadCache", "file": key})
			}
			o.faultsServed++
			o.log(opCall{Op: "ReadCache", File: key, Fault: true})
			if f.Kind == "lookup" {
				b, err := o.respBytes(s.resp)
				if err == nil {
					if _, hd, okc := o.w.ClassifyLookup(b); okc {
						o.lastLookupHead[f.K] = hd
						if o.ev != nil {
							o.ev("Served", map[string]any{"key": f.K, "head": hd, "src": "cache"})
						}
					}
				}
				return b, err
			}
			return o.tileBytes(f, s.lab)
		}
	}
	d, hit := o.disk[key]
	o.log(opCall{Op: "ReadCache", File: key, Truth: fmt.Sprint(hit)})
	if !hit {
		return nil, errors.New("cache miss")
	}
	if ok && f.Kind == "lookup" {
		if _, hd, okc := o.w.ClassifyLookup(d); okc {
			o.lastLookupHead[f.K] = hd
			if o.ev != nil {
				o.ev("Served", map[string]any{"key": f.K, "head": hd, "src": "cache"})
			}
		}
	}
	return append([]byte(nil), d...), nil
}

func (o *scriptOps) WriteCache(file string, data []byte) {
	f, ok := o.parseFile(file)
	if o.gate != nil {
		o.gate("WriteCache", f.String())
	}
	o.mu.Lock()
	defer o.mu.Unlock()
	key := file
	if ok {
		key = f.String()
	}
	o.log(opCall{Op: "WriteCache", File: key})
	if o.ev != nil {
		switch {
		case ok && f.Kind == "lookup":
			rec, head, parsed := o.w.ClassifyLookup(data)
			o.ev("WriteCacheLookup", map[string]any{"key": f.K, "parsed": parsed, "rec": rec, "head": head})
		case ok && f.Kind == "tile":
			tls := o.w.ClassifyTile(f.L, f.N, f.W, data)
			if tls == nil {
				tls = []string{}
			}
			o.ev("WriteCacheTile", map[string]any{"truth": tls})
		default:
			o.ev("WriteCacheOther", map[string]any{"file": file})
		}
	}
	// ---- observer: C01 CacheAuthentic ----
	switch {
	case !ok:
		o.viol = append(o.viol, core.Violation{Sig: "c01:cache-unknown-file", What: "WriteCache of an unexpected file " + file})
	case f.Kind == "lookup":
		rec, head, parsed := o.w.ClassifyLookup(data)
		// the record was validated against the client's own head, which may be newer than the one in
		// the response; where the response's head covers the record it must agree with it
		good := parsed && rec.Kind == "true" && head.Kind == "good" &&
			(rec.ID >= head.N || bytes.Equal(o.w.RecText(rec.Tl, rec.ID), o.w.RecText(head.Tl, rec.ID)))
		if !good {
			o.viol = append(o.viol, core.Violation{Sig: "c01:cache-lookup-unauthentic", What: fmt.Sprintf("lookup cache file %s written with unauthenticated content: record %v under head %v", key, rec, head)})
		}
	case f.Kind == "tile":
		if len(o.w.ClassifyTile(f.L, f.N, f.W, data)) == 0 {
			o.viol = append(o.viol, core.Violation{Sig: "c01:cache-tile-unauthentic", What: fmt.Sprintf("tile cache file %s written with bytes that are not the true tile of any timeline", key)})
		}
	}
	o.disk[key] = append([]byte(nil), data...)
}

func (o *scriptOps) Log(msg string) {}

func (o *scriptOps) SecurityError(msg string) {
	o.mu.Lock()
	defer o.mu.Unlock()
	o.sec = append(o.sec, msg)
	// the report is evidence of a fork only if two of the signed heads it carries contradict each other
	if hs := o.notesIn(msg); len(hs) >= 2 {
		fork := false
		for i := range hs {
			for j := i + 1; j < len(hs); j++ {
				if !(o.w.PrefixOf(hs[i], hs[j]) || o.w.PrefixOf(hs[j], hs[i])) {
					fork = true
				}
			}
		}
		if !fork {
			o.viol = append(o.viol, core.Violation{Sig: "c13:security-report-shows-no-fork", What: fmt.Sprintf("the signed tree heads in the security report %v are consistent with each other: the client's own head or the presented one is missing", hs)})
		}
	}
	o.log(opCall{Op: "SecurityError"})
	if o.ev != nil {
		o.ev("Security", map[string]any{"notes": o.countNotes(msg)})
	}
}

// countNotes counts how many distinct good-signature heads of the world appear verbatim in msg.
func (o *scriptOps) countNotes(msg string) int { return len(o.notesIn(msg)) }

func (o *scriptOps) notesIn(msg string) []sumworld.HeadLabel {
	var notes []sumworld.HeadLabel
	for _, tl := range o.w.Timelines() {
		for n := 1; n <= o.w.Size[tl]; n++ {
			if o.w.Norm(tl, n) == "P" && tl != "A" {
				continue
			}
			hb := o.w.Head(sumworld.HeadLabel{Kind: "good", Tl: tl, N: n})
			if strings.Contains(msg, strings.Replace(strings.TrimSuffix(string(hb), "\n"), "\n", "\n\t", -1)) || strings.Contains(msg, string(hb)) {
				notes = append(notes, sumworld.HeadLabel{Kind: "good", Tl: o.w.Norm(tl, n), N: n})
			}
		}
	}
	return notes
}

// ---- replay of one behaviour ----

type lookupObs struct {
	T     string   `json:"t"`
	Key   int      `json:"key"`
	Ok    bool     `json:"ok"`
	Err   string   `json:"err"`
	Lines []string `json:"lines"`
}

func classifyErr(err error) string {
	if err == nil {
		return ""
	}
	if errors.Is(err, sumdb.ErrSecurity) || strings.Contains(err.Error(), "security error") {
		return "security"
	}
	if errors.Is(err, sumdb.ErrGONOSUMDB) {
		return "skip"
	}
	return "error"
}

func lookupArgs(w *sumworld.World, k int) (string, string) {
	v := w.Version(k)
	if k%2 == 1 {
		v += "/go.mod"
	}
	return w.ModPath(k), v
}

// checkLookupResult evaluates the C01/C13 result predicates for one finished lookup.
func checkLookupResult(o *scriptOps, w *sumworld.World, k int, lines []string, err error, cfgBefore []byte, secBefore int, forkServed bool) []core.Violation {
	var vs []core.Violation
	path, vers := lookupArgs(w, k)
	if err == nil {
		okLines := false
		for _, tl := range w.Timelines() {
			if k < w.Size[tl] && core.Eq(lines, sumworld.Lines(w.RecText(tl, k), path, vers)) {
				okLines = true
			}
		}
		if len(lines) == 0 {
			okLines = true // an authenticated record that is not about this module yields no lines
		}
		if !okLines {
			vs = append(vs, core.Violation{Sig: "c01:result-unauthentic", What: fmt.Sprintf("Lookup(%s,%s) returned lines that are not those of the authentic record: %q", path, vers, lines)})
		}
	}
	// C13 ForkRefused: a validly signed head inconsistent with the stored one must make the lookup fail
	// and leave the stored head alone
	o.mu.Lock()
	served, haveServed := o.lastLookupHead[k]
	delete(o.lastLookupHead, k)
	cfgNow := append([]byte(nil), o.cfg...)
	o.mu.Unlock()
	before := w.ClassifyHead(cfgBefore)
	// C13: two mutually inconsistent signed trees are never both accepted - across restarts and across clients that share the
	// configuration.  A lookup that succeeds has accepted the signed head its response carried.
	if err == nil && haveServed && served.Kind == "good" {
		o.mu.Lock()
		for _, a := range o.acceptedHeads {
			if !(w.PrefixOf(a, served) || w.PrefixOf(served, a)) {
				vs = append(vs, core.Violation{Sig: "c13:two-timelines-accepted", What: fmt.Sprintf("Lookup(%s,%s) succeeded with the signed head %v although an earlier lookup had succeeded with %v, which is inconsistent with it (stored head before the lookup: %v)", path, vers, served, a, before)})
				break
			}
		}
		o.acceptedHeads = append(o.acceptedHeads, served)
		o.mu.Unlock()
		// ... nor is it inconsistent with what the shared configuration holds when the lookup returns (another process may
		// have stored that head: then this lookup had to fail)
		if now := w.ClassifyHead(cfgNow); now.Kind == "good" && !(w.PrefixOf(now, served) || w.PrefixOf(served, now)) {
			vs = append(vs, core.Violation{Sig: "c13:two-timelines-accepted", What: fmt.Sprintf("Lookup(%s,%s) succeeded with the signed head %v while the shared configuration holds %v, which is inconsistent with it", path, vers, served, now)})
		}
	}
	if haveServed && served.Kind == "good" && before.Kind == "good" && !(w.PrefixOf(before, served) || w.PrefixOf(served, before)) {
		if err == nil {
			vs = append(vs, core.Violation{Sig: "c13:fork-accepted", What: fmt.Sprintf("Lookup(%s,%s) succeeded although the server presented %v, inconsistent with the stored head %v", path, vers, served, before)})
		}
		if !bytes.Equal(cfgNow, cfgBefore) {
			vs = append(vs, core.Violation{Sig: "c13:fork-moved-config", What: fmt.Sprintf("stored head changed from %v to %v during a lookup that presented the inconsistent head %v", before, w.ClassifyHead(cfgNow), served)})
		}
	}
	if classifyErr(err) == "security" {
		// the callback must have received both signed heads
		// (a repeated lookup of the same key returns the cached error of the first one, so any
		// earlier report of this run counts)
		o.mu.Lock()
		if o.secKeys == nil {
			o.secKeys = map[int]bool{}
		}
		cached := o.secKeys[k] // an earlier lookup of this key by this client failed the same way: the error is the cached one
		o.secKeys[k] = true
		reports := o.sec[secBefore:]
		if cached && len(reports) == 0 {
			reports = o.sec
		}
		got := len(reports) > 0
		best := 0
		for _, m := range reports {
			if n := o.countNotes(m); n > best {
				best = n
			}
		}
		var msg string
		if got {
			msg = o.sec[len(o.sec)-1]
		}
		o.mu.Unlock()
		if !got {
			vs = append(vs, core.Violation{Sig: "c13:security-no-callback", What: fmt.Sprintf("Lookup(%s,%s) failed with the security error but SecurityError was never called", path, vers)})
		} else if best < 2 {
			vs = append(vs, core.Violation{Sig: "c13:security-missing-note", What: fmt.Sprintf("security report for Lookup(%s,%s) does not contain two signed tree heads: %q", path, vers, msg)})
		}
	}
	return vs
}

func (w *clientWorld) Check(c *core.Case) ([]core.Violation, bool) {
	switch c.K {
	case "behaviour", "schedule":
		var in behaviourIn
		if err := json.Unmarshal(c.In, &in); err != nil {
			panic(err)
		}
		var vs []core.Violation
		var nt bool
		if c.K == "schedule" {
			vs, nt = replaySchedule(c, &in)
		} else {
			vs, nt = replayBehaviour(c, &in)
		}
		for i := range vs {
			vs[i].Case = c
		}
		return vs, nt
	}
	panic("client: unknown case kind " + c.K)
}

func (w *clientWorld) Finish() []core.Violation { return nil }

func replayBehaviour(c *core.Case, in *behaviourIn) ([]core.Violation, bool) {
	w := sumworld.New(in.H, in.Prefix, in.SizeA, in.SizeB)
	ops := newScriptOps(w, in.Cfg0, in.Served)
	if in.Disk0 {
		ops.fillDiskWithFullTiles()
	}
	for _, k := range in.Lookups0 {
		ops.disk[absFile{Kind: "lookup", K: k}.String()] = w.LookupResp(sumworld.RecLabel{Kind: "true", Tl: "A", ID: k}, sumworld.HeadLabel{Kind: "good", Tl: "A", N: in.Served["A"]})
	}
	nfault := 0
	nwc := 0
	for _, h := range in.Ops {
		switch h.Op {
		case "EnvStore":
			if ops.envScript == nil {
				ops.envScript = map[int][]sumworld.HeadLabel{}
			}
			ops.envScript[nwc] = append(ops.envScript[nwc], *h.Head)
		case "WriteConfig":
			nwc++
		case "ReadRemote":
			ops.remote[h.Path.String()] = append(ops.remote[h.Path.String()], scripted{fault: h.Fault, resp: h.Data, lab: h.Lab})
		case "ReadCache":
			ops.cache[h.File.String()] = append(ops.cache[h.File.String()], scripted{fault: h.Fault, resp: h.Data, lab: h.Lab})
		}
		if h.Fault {
			nfault++
		}
	}
	forked := in.SizeB > 0
	clients := map[string]*sumdb.Client{}
	newClient := func() *sumdb.Client {
		cl := sumdb.NewClient(ops)
		cl.SetTileHeight(in.H)
		if len(in.Skip) > 0 {
			var pats []string
			for _, k := range in.Skip {
				pats = append(pats, w.ModPath(k))
			}
			cl.SetGONOSUMDB(malformedPattern + "," + strings.Join(pats, ","))
		}
		return cl
	}
	var vs []core.Violation
	var obs []lookupObs
	for _, h := range in.Ops {
		switch h.Op {
		case "Restart":
			delete(clients, h.C)
			ops.mu.Lock()
			ops.secKeys = nil
			ops.mu.Unlock()
		case "LookupStart":
			cn := in.ClientOf[h.T]
			cl := clients[cn]
			if cl == nil {
				cl = newClient()
				clients[cn] = cl
			}
			path, vers := lookupArgs(w, h.Key)
			ops.mu.Lock()
			cfgBefore := append([]byte(nil), ops.cfg...)
			secBefore := len(ops.sec)
			ops.mu.Unlock()
			lines, err := cl.Lookup(path, vers)
			obs = append(obs, lookupObs{T: h.T, Key: h.Key, Ok: err == nil, Err: classifyErr(err), Lines: lines})
			vs = append(vs, checkLookupResult(ops, w, h.Key, lines, err, cfgBefore, secBefore, forked)...)
			if nfault == 0 && !forked && err != nil && !errors.Is(err, sumdb.ErrGONOSUMDB) {
				vs = append(vs, core.Violation{Sig: "c01:honest-fails", What: fmt.Sprintf("honest server and cache, but Lookup(%s,%s) failed: %v", path, vers, err)})
			}
			if nfault == 0 && !forked && err == nil && !core.Eq(lines, sumworld.Lines(w.RecText("A", h.Key), path, vers)) {
				vs = append(vs, core.Violation{Sig: "c01:honest-wrong-lines", What: fmt.Sprintf("honest server and cache, but Lookup(%s,%s) returned %q", path, vers, lines)})
			}
		}
	}
	vs = append(vs, ops.viol...)
	// ---- drift: the model's exact predictions ----
	var exp struct {
		Results map[string][]struct {
			Ok  bool   `json:"ok"`
			Err string `json:"err"`
			Key int    `json:"key"`
		} `json:"results"`
		Cfg   sumworld.HeadLabel `json:"cfg"`
		Files []absFile          `json:"files"`
	}
	if len(c.Exp) > 0 && json.Unmarshal(c.Exp, &exp) == nil {
		var notes []string
		per := map[string]int{}
		for _, o := range obs {
			i := per[o.T]
			per[o.T]++
			if rs := exp.Results[o.T]; i < len(rs) {
				if rs[i].Ok != o.Ok || (rs[i].Err == "security") != (o.Err == "security") {
					notes = append(notes, fmt.Sprintf("lookup %d of %s: model ok=%v err=%q, code ok=%v err=%q", i, o.T, rs[i].Ok, rs[i].Err, o.Ok, o.Err))
				}
			}
		}
		if got := w.ClassifyHead(ops.cfg); got != (sumworld.HeadLabel{Kind: exp.Cfg.Kind, Tl: exp.Cfg.Tl, N: exp.Cfg.N}) && !(got.Kind == "empty" && exp.Cfg.Kind == "empty") {
			notes = append(notes, fmt.Sprintf("final stored head: model %v, code %v", exp.Cfg, got))
		}
		var wantFiles, gotFiles []string
		for _, f := range exp.Files {
			wantFiles = append(wantFiles, f.String())
		}
		for f := range ops.disk {
			gotFiles = append(gotFiles, f)
		}
		sort.Strings(wantFiles)
		sort.Strings(gotFiles)
		if !core.Eq(wantFiles, gotFiles) && !(len(wantFiles) == 0 && len(gotFiles) == 0) {
			notes = append(notes, fmt.Sprintf("cache files: model %v, code %v", wantFiles, gotFiles))
		}
		// sequence of external operations (tile fetches of one batch are unordered: compare as multisets)
		var wantOps, gotOps []string
		for _, h := range in.Ops {
			switch h.Op {
			case "ReadRemote":
				wantOps = append(wantOps, "ReadRemote "+h.Path.String())
			case "ReadCache":
				wantOps = append(wantOps, "ReadCache "+h.File.String())
			case "WriteConfig":
				wantOps = append(wantOps, "WriteConfig latest")
			case "ReadConfig":
				wantOps = append(wantOps, "ReadConfig "+h.File.String())
			}
		}
		for _, cc := range ops.calls {
			switch cc.Op {
			case "ReadRemote", "WriteConfig", "ReadConfig":
				gotOps = append(gotOps, cc.Op+" "+cc.File)
			case "ReadCache":
				gotOps = append(gotOps, cc.Op+" "+cc.File)
			}
		}
		// the model logs cache reads of tiles only when they hit
		var wantF []string
		for _, s := range wantOps {
			wantF = append(wantF, s)
		}
		sort.Strings(wantF)
		sort.Strings(gotOps)
		if !core.Eq(wantF, gotOps) {
			notes = append(notes, fmt.Sprintf("external operations: model %v, code %v", wantF, gotOps))
		}
		for _, n := range notes {
			core.NoteDrift(n)
		}
	}
	return vs, nfault > 0 || forked
}

func (w *clientWorld) Record(rng *rand.Rand, n int, emit func(k string, in, obs any)) {}
