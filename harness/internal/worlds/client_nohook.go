//go:build !verif

package worlds

func installVerifHook() {}
