package worlds

import (
	"bytes"
	"encoding/json"
	"fmt"
	"math/rand"
	"sort"
	"strconv"
	"strings"
	"sync"

	"golang.org/x/mod/sumdb/tlog"

	"verifharness/internal/concrete"
	"verifharness/internal/core"
	"verifharness/internal/refmerkle"
)

func init() { core.Register("tiles", func() core.World { return &tilesWorld{} }) }

type tilesWorld struct{}

// tileTree is an honest log of n distinct records built with refmerkle only.
type tileTree struct {
	n      int
	leaves []refmerkle.Hash
	memo   sync.Map // [2]int{L,K} -> refmerkle.Hash
}

var tileTrees sync.Map // n -> *tileTree

func getTileTree(n int) *tileTree {
	if t, ok := tileTrees.Load(n); ok {
		return t.(*tileTree)
	}
	t := &tileTree{n: n}
	for i := 0; i < n; i++ {
		t.leaves = append(t.leaves, refmerkle.LeafHash(refmerkle.DefaultRec(i)))
	}
	tileTrees.Store(n, t)
	return t
}

// hash returns the true hash of the complete subtree (L, K).
func (t *tileTree) hash(L int, K int64) refmerkle.Hash {
	key := [2]int64{int64(L), K}
	if h, ok := t.memo.Load(key); ok {
		return h.(refmerkle.Hash)
	}
	var h refmerkle.Hash
	if L == 0 {
		h = t.leaves[K]
	} else {
		h = refmerkle.NodeHash(t.hash(L-1, 2*K), t.hash(L-1, 2*K+1))
	}
	t.memo.Store(key, h)
	return h
}

func (t *tileTree) root() refmerkle.Hash { return refmerkle.MTH(t.leaves) }

// trueTile returns the true content of tile (h, tl, tn, w), or nil if the tree has no such tile.
func (t *tileTree) trueTile(h, tl int, tn int64, w int) []byte {
	level := h * tl
	if level > 62 {
		return nil
	}
	count := int64(t.n) >> uint(level)
	if w < 1 || w > 1<<uint(h) || tn<<uint(h)+int64(w) > count {
		return nil
	}
	out := make([]byte, 0, w*32)
	for i := 0; i < w; i++ {
		hh := t.hash(level, tn<<uint(h)+int64(i))
		out = append(out, hh[:]...)
	}
	return out
}

type tileCor struct {
	Tile [3]int64 `json:"tile"` // tl, tn, w
	Kind string   `json:"kind"`
	J    int      `json:"j"`
	K    int      `json:"k"`
}

// corruptTile applies a specification-level corruption to true tile content.
func corruptTile(tr *tileTree, h int, c tileCor, data []byte) []byte {
	d := append([]byte(nil), data...)
	at := func(i int) []byte { return d[(i-1)*32 : i*32] }
	switch c.Kind {
	case "junk":
		j := refmerkle.Junk(1)
		copy(at(c.J), j[:])
	case "bit":
		d[(c.J-1)*32+c.K/8] ^= 1 << uint(c.K%8)
	case "swap":
		a := append([]byte(nil), at(c.J)...)
		copy(at(c.J), at(c.K))
		copy(at(c.K), a)
	case "dup":
		copy(at(c.K), at(c.J))
	case "truncate":
		d = d[:len(d)-32]
	case "extend":
		j := refmerkle.Junk(2)
		d = append(d, j[:]...)
	case "other":
		d = tr.trueTile(h, int(c.Tile[0]), int64(c.K), int(c.Tile[2]))
	default:
		panic("unknown corruption " + c.Kind)
	}
	return d
}

// advReader is a TileReader over an honest tree with listed corruptions.
type advReader struct {
	tr     *tileTree
	h      int
	cors   []tileCor
	asked  [][3]int64
	served [][]byte
	saved  []savedTile
	only   map[[3]int64]bool // if non-nil, only these tiles exist (publisher test)
	// which occurrences of a tile are corrupted when it is asked for more than once: "" all, "first", "later"
	occMode string
	seen    map[[3]int64]int
	dups    int
}

type savedTile struct {
	t    tlog.Tile
	data []byte
}

func (r *advReader) Height() int { return r.h }

func (r *advReader) ReadTiles(tiles []tlog.Tile) ([][]byte, error) {
	out := make([][]byte, len(tiles))
	for i, t := range tiles {
		key := [3]int64{int64(t.L), t.N, int64(t.W)}
		r.asked = append(r.asked, key)
		if t.H != r.h {
			return nil, fmt.Errorf("tile of height %d requested from a reader of height %d", t.H, r.h)
		}
		if r.only != nil && !r.only[key] {
			return nil, fmt.Errorf("tile %v was never published", t.Path())
		}
		d := r.tr.trueTile(t.H, t.L, t.N, t.W)
		if d == nil {
			return nil, fmt.Errorf("no such tile %v in a tree of %d records", t.Path(), r.tr.n)
		}
		if r.seen == nil {
			r.seen = map[[3]int64]int{}
		}
		r.seen[key]++
		if r.seen[key] > 1 {
			r.dups++
		}
		for _, c := range r.cors {
			if c.Tile == key && (r.occMode == "" || (r.occMode == "first") == (r.seen[key] == 1)) {
				d = corruptTile(r.tr, r.h, c, d)
			}
		}
		out[i] = d
		r.served = append(r.served, d)
	}
	return out, nil
}

func (r *advReader) SaveTiles(tiles []tlog.Tile, data [][]byte) {
	for i, t := range tiles {
		r.saved = append(r.saved, savedTile{t, append([]byte(nil), data[i]...)})
	}
}

type tileReadIn struct {
	H    int        `json:"h"`
	N    int        `json:"n"`
	Idx  [][2]int64 `json:"idx"` // (L, K) coordinates
	Cors []tileCor  `json:"cors"`
}

// runTileRead performs one read through tiles and evaluates the observer predicates of C10.
func runTileRead(in tileReadIn) (ok bool, returnedTrue bool, savedTrue bool, honestServed bool, rd *advReader, err error) {
	return runTileReadMode(in, "", false)
}

// runTileReadMode: occMode as in advReader; warm: the same hash reader has answered the same request from honest
// tiles before the corrupted tiles are served (a reader is an object with a lifetime, not a function)
func runTileReadMode(in tileReadIn, occMode string, warm bool) (ok bool, returnedTrue bool, savedTrue bool, honestServed bool, rd *advReader, err error) {
	tr := getTileTree(in.N)
	rd = &advReader{tr: tr, h: in.H, cors: in.Cors, occMode: occMode}
	indexes := make([]int64, len(in.Idx))
	for i, c := range in.Idx {
		indexes[i] = tlog.StoredHashIndex(int(c[0]), c[1])
	}
	tree := tlog.Tree{N: int64(in.N), Hash: tlog.Hash(tr.root())}
	thr := tlog.TileHashReader(tree, rd)
	if warm {
		rd.cors = nil
		thr.ReadHashes(indexes)
		rd.cors, rd.asked, rd.served, rd.saved, rd.seen, rd.dups = in.Cors, nil, nil, nil, nil, 0
	}
	hashes, err := thr.ReadHashes(indexes)
	ok = err == nil
	returnedTrue = true
	if ok {
		if len(hashes) != len(indexes) {
			returnedTrue = false
		}
		for i := range hashes {
			if i < len(in.Idx) && [32]byte(hashes[i]) != tr.hash(int(in.Idx[i][0]), in.Idx[i][1]) {
				returnedTrue = false
			}
		}
	}
	savedTrue = true
	for _, s := range rd.saved {
		if !bytes.Equal(s.data, tr.trueTile(s.t.H, s.t.L, s.t.N, s.t.W)) {
			savedTrue = false
		}
	}
	honestServed = true
	for i, key := range rd.asked {
		if i < len(rd.served) && !bytes.Equal(rd.served[i], tr.trueTile(in.H, int(key[0]), key[1], int(key[2]))) {
			honestServed = false
		}
	}
	return
}

func (w *tilesWorld) Check(c *core.Case) ([]core.Violation, bool) {
	switch c.K {
	case "tileread", "read":
		var in tileReadIn
		if err := json.Unmarshal(c.In, &in); err != nil {
			panic(err)
		}
		var exp struct{ Honest bool }
		json.Unmarshal(c.Exp, &exp)
		ok, retTrue, savedTrue, honestServed, rd, err := runTileRead(in)
		var vs []core.Violation
		desc := fmt.Sprintf("h=%d n=%d idx=%v corruptions=%+v", in.H, in.N, in.Idx, in.Cors)
		if honestServed && !ok {
			vs = append(vs, core.Violation{Sig: "tileread:honest-fails", What: "all tiles served honestly but the read failed: " + desc + ": " + fmt.Sprint(err), Case: c})
		}
		if ok && !retTrue {
			vs = append(vs, core.Violation{Sig: "tileread:returned-untrue", What: "read succeeded but returned a hash that is not the true stored hash: " + desc, Case: c})
		}
		if !savedTrue {
			vs = append(vs, core.Violation{Sig: "tileread:saved-untrue", What: "a tile that is not the true tile was passed to SaveTiles: " + desc, Case: c})
		}
		// the same request to a reader that has answered it honestly before, and - if the code asks for one tile more
		// than once - with only the first, or only the later, copies corrupted: the observer predicates are the same
		if len(in.Cors) > 0 {
			modes := [][2]any{{"", true}}
			if rd.dups > 0 {
				modes = append(modes, [2]any{"first", false}, [2]any{"later", false})
			}
			for _, m := range modes {
				ok2, ret2, saved2, _, _, _ := runTileReadMode(in, m[0].(string), m[1].(bool))
				how := fmt.Sprintf(" (reader warm=%v, corrupted copies: %q)", m[1], m[0])
				if ok2 && !ret2 {
					vs = append(vs, core.Violation{Sig: "tileread:returned-untrue", What: "read succeeded but returned a hash that is not the true stored hash: " + desc + how, Case: c})
				}
				if !saved2 {
					vs = append(vs, core.Violation{Sig: "tileread:saved-untrue", What: "a tile that is not the true tile was passed to SaveTiles: " + desc + how, Case: c})
				}
			}
		}
		if len(c.Drift) > 0 {
			var d struct {
				Ok   bool       `json:"ok"`
				Plan [][3]int64 `json:"plan"`
			}
			json.Unmarshal(c.Drift, &d)
			if d.Ok != ok || !core.Eq(d.Plan, rd.asked) {
				core.NoteDrift(fmt.Sprintf("tileread %s: model predicts ok=%v plan=%v, code did ok=%v plan=%v", desc, d.Ok, d.Plan, ok, rd.asked))
			}
		}
		return vs, len(in.Cors) > 0
	case "tilepath":
		return w.checkPath(c)
	case "newtiles":
		return w.checkNewTiles(c)
	}
	panic("tiles: unknown case kind " + c.K)
}

func (w *tilesWorld) Finish() []core.Violation { return nil }

func (w *tilesWorld) checkPath(c *core.Case) ([]core.Violation, bool) {
	var in struct {
		S []int `json:"s"`
	}
	var exp struct {
		Ok   bool     `json:"ok"`
		Tile [4]int64 `json:"tile"` // h, l, n, w
	}
	json.Unmarshal(c.In, &in)
	json.Unmarshal(c.Exp, &exp)
	s := concrete.Str(in.S)
	t, err := tlog.ParseTilePath(s)
	if (err == nil) != exp.Ok {
		return viol(c, "tilepath:verdict", "ParseTilePath(%q): err=%v, specification says ok=%v", s, err, exp.Ok), true
	}
	if err == nil {
		// exp.Tile[2] == -1: N is beyond the model's 32-bit integers, only the verdict is predicted
		if int64(t.H) != exp.Tile[0] || int64(t.L) != exp.Tile[1] || (exp.Tile[2] >= 0 && t.N != exp.Tile[2]) || int64(t.W) != exp.Tile[3] {
			return viol(c, "tilepath:value", "ParseTilePath(%q)=%+v, specification says %v", s, t, exp.Tile), true
		}
		if t.Path() != s {
			return viol(c, "tilepath:roundtrip", "Tile%+v.Path()=%q, parsed from %q", t, t.Path(), s), true
		}
		// the same tile with more groups of three digits in front of its number, up to seven groups (numbers up to
		// 2^63 - 1; beyond the 32-bit integers of the model, so the number is computed here): full and partial widths
		if exp.Tile[2] >= 0 {
			if msg := bigTilePaths(s, exp.Tile); msg != "" {
				return viol(c, "tilepath:big", "%s", msg), true
			}
		}
	}
	return nil, true
}

func bigTilePaths(s string, tile [4]int64) string {
	parts := strings.Split(s, "/") // tile / H / L / groups... [ / W when the last group ends in .p ]
	groups := len(parts) - 3
	if strings.HasSuffix(parts[len(parts)-2], ".p") {
		groups--
	}
	for _, lead := range [][]string{{"x001"}, {"x001", "x000"}, {"x009", "x223", "x372", "x036", "x854", "x775"}, {"x001", "x002", "x003", "x004", "x005", "x006"}} {
		for len(lead)+groups > 7 {
			lead = lead[:len(lead)-1]
		}
		if len(lead) == 0 {
			continue
		}
		n := int64(0)
		for _, g := range lead {
			v, _ := strconv.Atoi(g[1:])
			n = n*1000 + int64(v)
		}
		mul := int64(1)
		for i := 0; i < groups; i++ {
			mul *= 1000
		}
		if n > (1<<63-1-tile[2])/mul {
			continue
		}
		n = n*mul + tile[2]
		// every group but the last carries an x already, so the leading groups go in front unchanged
		s2 := strings.Join(append(append(append([]string{}, parts[:3]...), lead...), parts[3:]...), "/")
		t2, err := tlog.ParseTilePath(s2)
		if err != nil || int64(t2.H) != tile[0] || int64(t2.L) != tile[1] || t2.N != n || int64(t2.W) != tile[3] {
			return fmt.Sprintf("ParseTilePath(%q)=%+v, %v; it names tile number %d of height %d level %d width %d", s2, t2, err, n, tile[0], tile[1], tile[3])
		}
		if t2.Path() != s2 {
			return fmt.Sprintf("Tile%+v.Path()=%q, parsed from %q", t2, t2.Path(), s2)
		}
	}
	return ""
}

func tileKeys(ts []tlog.Tile) [][3]int64 {
	out := make([][3]int64, len(ts))
	for i, t := range ts {
		out[i] = [3]int64{int64(t.L), t.N, int64(t.W)}
	}
	sort.Slice(out, func(a, b int) bool {
		for k := 0; k < 3; k++ {
			if out[a][k] != out[b][k] {
				return out[a][k] < out[b][k]
			}
		}
		return false
	})
	return out
}

// checkNewTiles: NewTiles equals the specification's set, and a publisher that
// publishes exactly NewTiles along a growth sequence serves every read.
func (w *tilesWorld) checkNewTiles(c *core.Case) ([]core.Violation, bool) {
	var in struct {
		H     int   `json:"h"`
		Sizes []int `json:"sizes"` // growth sequence starting at 0
	}
	var exp struct {
		New [][][3]int64 `json:"new"` // per step, the set of tiles (tl, tn, w)
	}
	json.Unmarshal(c.In, &in)
	json.Unmarshal(c.Exp, &exp)
	published := map[[3]int64]bool{}
	for i := 1; i < len(in.Sizes); i++ {
		got := tileKeys(tlog.NewTiles(in.H, int64(in.Sizes[i-1]), int64(in.Sizes[i])))
		want := append([][3]int64(nil), exp.New[i-1]...)
		sort.Slice(want, func(a, b int) bool {
			for k := 0; k < 3; k++ {
				if want[a][k] != want[b][k] {
					return want[a][k] < want[b][k]
				}
			}
			return false
		})
		if !core.Eq(got, want) && !(len(got) == 0 && len(want) == 0) {
			return viol(c, "newtiles:set", "NewTiles(%d,%d,%d)=%v, specification says %v", in.H, in.Sizes[i-1], in.Sizes[i], got, want), true
		}
		for _, k := range got {
			published[k] = true
		}
		// read every stored hash of the current tree through the published tiles only
		n := in.Sizes[i]
		if n == 0 {
			continue
		}
		tr := getTileTree(n)
		rd := &advReader{tr: tr, h: in.H, only: published}
		total := tlog.StoredHashCount(int64(n))
		idx := make([]int64, 0, total)
		for x := int64(0); x < total; x++ {
			idx = append(idx, x)
		}
		hs, err := tlog.TileHashReader(tlog.Tree{N: int64(n), Hash: tlog.Hash(tr.root())}, rd).ReadHashes(idx)
		if err != nil {
			return viol(c, "newtiles:insufficient", "after publishing NewTiles along %v (h=%d), reading all hashes of the tree of %d records fails: %v", in.Sizes[:i+1], in.H, n, err), true
		}
		for x, hh := range hs {
			l, k := tlog.SplitStoredHashIndex(int64(x))
			if [32]byte(hh) != tr.hash(l, k) {
				return viol(c, "newtiles:wronghash", "hash %d read through published tiles is wrong", x), true
			}
		}
	}
	return nil, true
}

// Record: big trees, heights 1..8, random index sets, every fetched tile corrupted in turn.
func (w *tilesWorld) Record(rng *rand.Rand, n int, emit func(k string, in, obs any)) {
	for emitted := 0; emitted < n; {
		h := 1 + rng.Intn(8)
		size := 1 + rng.Intn(3000)
		if rng.Intn(3) == 0 {
			size = 1 + rng.Intn(70)
		}
		nidx := 1 + rng.Intn(5)
		in := tileReadIn{H: h, N: size, Cors: []tileCor{}}
		total := tlog.StoredHashCount(int64(size))
		for i := 0; i < nidx; i++ {
			l, k := tlog.SplitStoredHashIndex(rng.Int63n(total))
			in.Idx = append(in.Idx, [2]int64{int64(l), k})
		}
		// honest run first: learn which tiles are fetched
		ok, rt, st, hs, rd, _ := runTileRead(in)
		asked := append([][3]int64(nil), rd.asked...)
		emit("read", in, map[string]any{"returnedTrue": rt, "savedTrue": st, "honestOk": !hs || ok, "_drift": map[string]any{"ok": ok, "plan": asked}})
		emitted++
		for _, key := range asked {
			if emitted >= n {
				break
			}
			c := tileCor{Tile: key}
			wd := int(key[2])
			switch rng.Intn(6) {
			case 0:
				c.Kind, c.J, c.K = "bit", 1+rng.Intn(wd), rng.Intn(256)
			case 1:
				c.Kind, c.J = "junk", 1+rng.Intn(wd)
			case 2:
				if wd < 2 {
					c.Kind, c.J, c.K = "bit", 1, rng.Intn(256)
				} else {
					c.Kind, c.J = "swap", 1+rng.Intn(wd-1)
					c.K = c.J + 1 + rng.Intn(wd-c.J)
				}
			case 3:
				if wd < 2 {
					c.Kind, c.J, c.K = "bit", 1, rng.Intn(256)
				} else {
					c.Kind, c.J = "dup", 1+rng.Intn(wd)
					c.K = 1 + rng.Intn(wd)
					if c.K == c.J {
						c.K = c.J%wd + 1
					}
				}
			case 4:
				c.Kind = "truncate"
			case 5:
				c.Kind = "extend"
			}
			in2 := in
			in2.Cors = []tileCor{c}
			ok, rt, st, hs, _, _ := runTileRead(in2)
			emit("read", in2, map[string]any{"returnedTrue": rt, "savedTrue": st, "honestOk": !hs || ok, "_drift": map[string]any{"ok": ok}})
			emitted++
		}
	}
}
