package worlds

import (
	"compress/flate"
	"hash/crc32"
	"io"
)

func newFlate(w io.Writer) (*flate.Writer, error) {
	return flate.NewWriter(w, flate.DefaultCompression)
}
func crc(b []byte) uint32 { return crc32.ChecksumIEEE(b) }
