package worlds

import (
	"bytes"
	"encoding/json"
	"fmt"
	"math/rand"
	"os"
	"regexp"
	"sort"
	"strconv"
	"strings"
	"time"
	"unicode/utf8"

	"golang.org/x/mod/modfile"

	"verifharness/internal/concrete"
	"verifharness/internal/core"
)

func init() { core.Register("modsyntax", func() core.World { return &modSyntaxWorld{} }) }

type modSyntaxWorld struct{}

// synDoc is the projection of a syntax tree the properties speak of.
type synStmt struct {
	Type   string    `json:"type"`
	Tokens [][]int   `json:"tokens"`
	Lines  [][][]int `json:"lines,omitempty"`
}

type synMark struct {
	Text []int `json:"text"`
	Line int   `json:"line"`
	Col  int   `json:"col"`
	Byte int   `json:"byte"`
}

type synExp struct {
	Ok       bool      `json:"ok"`
	Why      string    `json:"why"`
	Stmts    []synStmt `json:"stmts"`
	Comments [][]int   `json:"comments"`
	Marks    []synMark `json:"marks"`
}

// MarshalJSON: a block always has its "lines" field (possibly empty), a line never has one.
func (s synStmt) MarshalJSON() ([]byte, error) {
	toks := s.Tokens
	if toks == nil {
		toks = [][]int{}
	}
	if s.Type == "block" {
		lines := s.Lines
		if lines == nil {
			lines = [][][]int{}
		}
		return json.Marshal(map[string]any{"type": s.Type, "tokens": toks, "lines": lines})
	}
	return json.Marshal(map[string]any{"type": s.Type, "tokens": toks})
}

func toksOf(ts []string) [][]int {
	out := make([][]int, len(ts))
	for i, t := range ts {
		out[i] = concrete.Ints(t)
	}
	return out
}

type posItem struct {
	what string
	pos  modfile.Position
	text string // text that must start at pos.Byte ("" = unknown)
	end  bool   // the position is an end: text must end at pos.Byte instead
}

// projectSyntax returns the statements, the comment texts in source order and every position of the tree.
func projectSyntax(fs *modfile.FileSyntax) (stmts []synStmt, comments []string, positions []posItem) {
	type com struct {
		b int
		t string
	}
	var coms []com
	addComs := func(c *modfile.Comments) {
		for _, g := range [][]modfile.Comment{c.Before, c.Suffix, c.After} {
			for _, x := range g {
				if x.Token == "" {
					continue // blank line marker inside a block
				}
				coms = append(coms, com{x.Start.Byte, strings.TrimSpace(x.Token)})
				positions = append(positions, posItem{"comment", x.Start, x.Token, false})
			}
		}
	}
	addComs(&fs.Comments)
	for _, st := range fs.Stmt {
		switch x := st.(type) {
		case *modfile.CommentBlock:
			addComs(&x.Comments)
		case *modfile.Line:
			addComs(&x.Comments)
			stmts = append(stmts, synStmt{Type: "line", Tokens: toksOf(x.Token)})
			if len(x.Token) > 0 {
				positions = append(positions, posItem{"line start", x.Start, x.Token[0], false})
				positions = append(positions, posItem{"line end", x.End, x.Token[len(x.Token)-1], true})
			}
		case *modfile.LineBlock:
			addComs(&x.Comments)
			addComs(&x.LParen.Comments)
			b := synStmt{Type: "block", Tokens: toksOf(x.Token), Lines: [][][]int{}}
			if len(x.Token) > 0 {
				positions = append(positions, posItem{"block start", x.Start, x.Token[0], false})
			}
			positions = append(positions, posItem{"lparen", x.LParen.Pos, "(", false})
			for _, l := range x.Line {
				addComs(&l.Comments)
				b.Lines = append(b.Lines, toksOf(l.Token))
				if len(l.Token) > 0 {
					positions = append(positions, posItem{"line start", l.Start, l.Token[0], false})
					positions = append(positions, posItem{"line end", l.End, l.Token[len(l.Token)-1], true})
				}
			}
			addComs(&x.RParen.Comments)
			positions = append(positions, posItem{"rparen", x.RParen.Pos, ")", false})
			stmts = append(stmts, b)
		}
	}
	sort.SliceStable(coms, func(i, j int) bool { return coms[i].b < coms[j].b })
	for _, c := range coms {
		comments = append(comments, c.t)
	}
	return
}

// positionOK checks that byte offset, line and column agree with the input and that the described text starts there.
func positionOK(data []byte, p posItem) string {
	if p.pos.Byte < 0 || p.pos.Byte > len(data) {
		return fmt.Sprintf("%s: byte offset %d outside the input of %d bytes", p.what, p.pos.Byte, len(data))
	}
	before := data[:p.pos.Byte]
	line := 1 + bytes.Count(before, []byte("\n"))
	col := 1 + utf8.RuneCount(before[bytes.LastIndexByte(before, '\n')+1:])
	if line != p.pos.Line || col != p.pos.LineRune {
		return fmt.Sprintf("%s: position %d:%d does not agree with byte offset %d (which is %d:%d)", p.what, p.pos.Line, p.pos.LineRune, p.pos.Byte, line, col)
	}
	if p.end {
		if p.text != "" && !bytes.HasSuffix(data[:p.pos.Byte], []byte(p.text)) {
			return fmt.Sprintf("%s: the text ending at byte offset %d is not %q", p.what, p.pos.Byte, p.text)
		}
		return ""
	}
	if p.text != "" && !bytes.HasPrefix(data[p.pos.Byte:], []byte(p.text)) {
		return fmt.Sprintf("%s: the text at byte offset %d is not %q", p.what, p.pos.Byte, p.text)
	}
	return ""
}

type parseOutcome struct {
	fs    *modfile.FileSyntax
	err   error
	panic any
	hang  bool
}

func guardedParse(data []byte) parseOutcome {
	ch := make(chan parseOutcome, 1)
	go func() {
		var out parseOutcome
		defer func() {
			if r := recover(); r != nil {
				out.panic = r
			}
			ch <- out
		}()
		out.fs, out.err = modfile.VerifParseSyntax("go.mod", data)
	}()
	select {
	case o := <-ch:
		return o
	case <-time.After(5 * time.Second):
		return parseOutcome{hang: true}
	}
}

// checkExported: C20 on the exported parsers.  Whatever the bytes, Parse, ParseLax and ParseWork return a file or
// errors - they do not panic, hang or report an internal error - every error position lies inside the input, and a
// file the strict parser accepts is accepted by the lax one with the same module, go, require and retract values.
func checkExported(data []byte) []core.Violation {
	var vs []core.Violation
	q := fmt.Sprintf("%q", data)
	if len(q) > 300 {
		q = q[:300] + "..."
	}
	type result struct {
		f     *modfile.File
		w     *modfile.WorkFile
		err   error
		panic any
		hang  bool
	}
	run := func(name string) result {
		ch := make(chan result, 1)
		go func() {
			var out result
			defer func() {
				if r := recover(); r != nil {
					out.panic = r
				}
				ch <- out
			}()
			switch name {
			case "Parse":
				out.f, out.err = modfile.Parse("go.mod", data, nil)
			case "ParseLax":
				out.f, out.err = modfile.ParseLax("go.mod", data, nil)
			case "ParseWork":
				out.w, out.err = modfile.ParseWork("go.work", data, nil)
			}
		}()
		select {
		case o := <-ch:
			return o
		case <-time.After(5 * time.Second):
			return result{hang: true}
		}
	}
	res := map[string]result{}
	for _, name := range []string{"Parse", "ParseLax", "ParseWork"} {
		o := run(name)
		res[name] = o
		switch {
		case o.hang:
			vs = append(vs, core.Violation{Sig: "c20:hang:" + name, What: fmt.Sprintf("%s did not return within 5s on %s", name, q)})
		case o.panic != nil:
			vs = append(vs, core.Violation{Sig: "c20:panic:" + name, What: fmt.Sprintf("%s panicked (%v) on %s", name, o.panic, q)})
		case o.err != nil:
			if s := o.err.Error(); strings.Contains(s, "internal error") || strings.Contains(s, "internal lexer error") || strings.Contains(s, "internal parse error") {
				vs = append(vs, core.Violation{Sig: "c20:internal-error:" + name, What: fmt.Sprintf("%s reported an internal error (%v) on %s", name, o.err, q)})
			}
			if el, ok := o.err.(modfile.ErrorList); ok {
				for _, e := range el {
					if msg := positionOK(data, posItem{"error", e.Pos, "", false}); msg != "" {
						vs = append(vs, core.Violation{Sig: "c20:error-position:" + name, What: msg + " in error " + e.Error() + " of " + name + " on " + q})
						break
					}
				}
			}
		}
	}
	// the quick module-path extractor is total too
	func() {
		defer func() {
			if r := recover(); r != nil {
				vs = append(vs, core.Violation{Sig: "c20:panic:ModulePath", What: fmt.Sprintf("ModulePath panicked (%v) on %s", r, q)})
			}
		}()
		modfile.ModulePath(data)
	}()
	strict, lax := res["Parse"], res["ParseLax"]
	if strict.f != nil && strict.err == nil && !lax.hang && lax.panic == nil {
		if lax.err != nil || lax.f == nil {
			vs = append(vs, core.Violation{Sig: "c20:lax-rejects", What: fmt.Sprintf("ParseLax rejects (%v) what the strict parser accepts: %s", lax.err, q)})
		} else {
			s1, _ := projectMod(strict.f)
			s2, _ := projectMod(lax.f)
			for _, col := range diffStates(&s1, &s2) {
				if col == "module" || col == "go" || col == "require" || col == "retract" || col == "rationale" {
					vs = append(vs, core.Violation{Sig: "c20:lax-values", What: fmt.Sprintf("ParseLax gives different %s values than the strict parser on %s", col, q)})
				}
			}
			if (strict.f.Module == nil) != (lax.f.Module == nil) || (strict.f.Module != nil && strict.f.Module.Deprecated != lax.f.Module.Deprecated) {
				vs = append(vs, core.Violation{Sig: "c20:lax-values", What: fmt.Sprintf("ParseLax and the strict parser disagree about the module directive or its deprecation notice on %s", q)})
			}
		}
	}
	return vs
}

func stmtsEqual(a []synStmt, b []synStmt) bool { return core.Eq(normStmts(a), normStmts(b)) }

func normStmts(a []synStmt) []synStmt {
	out := make([]synStmt, len(a))
	for i, s := range a {
		out[i] = s
		if out[i].Tokens == nil {
			out[i].Tokens = [][]int{}
		}
		if s.Type == "block" && out[i].Lines == nil {
			out[i].Lines = [][][]int{}
		}
		if s.Type == "line" {
			out[i].Lines = nil
		}
	}
	if out == nil {
		return []synStmt{}
	}
	return out
}

// checkSyntaxInput evaluates C02 (round trip against the specification's reading of the input, idempotence)
// and C20 (totality, positions) on one input; exp may be nil (recorded inputs are judged by TLC afterwards).
func checkSyntaxInput(data []byte, exp *synExp) (vs []core.Violation, accepted bool, stmts []synStmt, comments []string) {
	o := guardedParse(data)
	q := fmt.Sprintf("%q", data)
	if len(q) > 300 {
		q = q[:300] + "..."
	}
	defer func() { vs = append(vs, checkExported(data)...) }()
	switch {
	case o.hang:
		return []core.Violation{{Sig: "c20:hang", What: "the syntax parser did not return within 5s on " + q}}, false, nil, nil
	case o.panic != nil:
		return []core.Violation{{Sig: "c20:panic", What: fmt.Sprintf("the syntax parser panicked (%v) on %s", o.panic, q)}}, false, nil, nil
	}
	if o.err != nil {
		if strings.Contains(o.err.Error(), "internal error") || strings.Contains(o.err.Error(), "internal lexer error") || strings.Contains(o.err.Error(), "internal parse error") {
			vs = append(vs, core.Violation{Sig: "c20:internal-error", What: fmt.Sprintf("the parser reported an internal error (%v) on %s", o.err, q)})
		}
		if el, ok := o.err.(modfile.ErrorList); ok {
			for _, e := range el {
				if msg := positionOK(data, posItem{"error", e.Pos, "", false}); msg != "" {
					vs = append(vs, core.Violation{Sig: "c20:error-position", What: msg + " in error " + e.Error() + " on " + q})
				}
			}
		}
		if exp != nil && exp.Ok {
			core.NoteDrift(fmt.Sprintf("syntax parser rejects %s (%v), the specification accepts it", q, o.err))
		}
		return vs, false, nil, nil
	}
	if exp != nil && !exp.Ok {
		core.NoteDrift(fmt.Sprintf("syntax parser accepts %s, the specification rejects it (%s)", q, exp.Why))
	}
	st1, com1, positions := projectSyntax(o.fs)
	for _, p := range positions {
		if msg := positionOK(data, p); msg != "" {
			vs = append(vs, core.Violation{Sig: "c20:position", What: msg + " on " + q})
			break
		}
	}
	// C02: format, re-parse, compare with the specification's reading of the input
	out := modfile.Format(o.fs)
	o2 := guardedParse(out)
	if o2.fs == nil {
		vs = append(vs, core.Violation{Sig: "c02:output-does-not-parse", What: fmt.Sprintf("formatted output %q of %s does not parse: %v %v", out, q, o2.err, o2.panic)})
		return vs, true, st1, com1
	}
	st2, com2, _ := projectSyntax(o2.fs)
	wantSt, wantCom := st1, com1
	if exp != nil && exp.Ok {
		wantSt = exp.Stmts
		wantCom = concrete.Strs(exp.Comments)
		if !stmtsEqual(st1, wantSt) || !core.Eq(nz(com1), nz(wantCom)) {
			core.NoteDrift(fmt.Sprintf("first parse of %s differs from the specification: statements %v comments %q", q, st1, com1))
		}
	}
	if !stmtsEqual(st2, wantSt) {
		vs = append(vs, core.Violation{Sig: "c02:statements", What: fmt.Sprintf("after formatting, the statements and tokens differ: input %s formatted %q", q, out)})
	}
	if !core.Eq(nz(com2), nz(wantCom)) {
		vs = append(vs, core.Violation{Sig: "c02:comments", What: fmt.Sprintf("after formatting, the comment texts differ: want %q got %q; input %s formatted %q", wantCom, com2, q, out)})
	}
	if out2 := modfile.Format(o2.fs); !bytes.Equal(out, out2) {
		vs = append(vs, core.Violation{Sig: "c02:not-idempotent", What: fmt.Sprintf("formatting the formatted output changes it: %q -> %q (input %s)", out, out2, q)})
	}
	// formatting reads the tree: formatting the same parsed file once more gives the same bytes
	if again := modfile.Format(o.fs); !bytes.Equal(out, again) {
		vs = append(vs, core.Violation{Sig: "c02:not-idempotent", What: fmt.Sprintf("formatting the same parsed file a second time gives other bytes: %q then %q (input %s)", out, again, q)})
	}
	if exp != nil && exp.Ok {
		// protocol level: positions the specification predicts
		want := map[int]synMark{}
		for _, m := range exp.Marks {
			want[m.Byte] = m
		}
		for _, p := range positions {
			if p.end {
				// an end position: the specification's token that ends there (its start + its length in bytes)
				if m, ok := want[p.pos.Byte-len(p.text)]; !ok || concrete.Str(m.Text) != p.text {
					core.NoteDrift(fmt.Sprintf("%s at byte %d: the specification has no token %q ending there on %s", p.what, p.pos.Byte, p.text, q))
					break
				}
				continue
			}
			if m, ok := want[p.pos.Byte]; !ok || m.Line != p.pos.Line || m.Col != p.pos.LineRune {
				core.NoteDrift(fmt.Sprintf("position of %s at byte %d not predicted by the specification on %s", p.what, p.pos.Byte, q))
				break
			}
		}
	}
	return vs, true, st1, com1
}

func nz(s []string) []string {
	if s == nil {
		return []string{}
	}
	return s
}

func (w *modSyntaxWorld) Check(c *core.Case) ([]core.Violation, bool) {
	switch c.K {
	case "syn":
		var in struct {
			S []int `json:"s"`
		}
		if err := json.Unmarshal(c.In, &in); err != nil {
			panic(err)
		}
		var exp *synExp
		if len(c.Exp) > 0 {
			exp = &synExp{}
			json.Unmarshal(c.Exp, exp)
		}
		vs, accepted, _, _ := checkSyntaxInput([]byte(concrete.Str(in.S)), exp)
		for i := range vs {
			vs[i].Case = c
		}
		return vs, accepted
	case "wf":
		return checkWellFormed(c)
	case "quote":
		return checkQuote(c)
	}
	panic("modsyntax: unknown case kind " + c.K)
}

func (w *modSyntaxWorld) Finish() []core.Violation { return nil }

// ---- well-formed files: directive values survive formatting (C02); lax and quick extractors agree (C20) ----

type wfVariant struct {
	name   string
	quote  bool // paths in double quotes
	crlf   bool
	blank  bool // blank line between statements
	unkown string
	opener string // local directory paths end in this comment opener, inside quotes
	tws    bool   // comments carry trailing white space; a deprecation comment is added
	noSpec bool   // values are not the layout's: no comparison with the specification's state
	modblk bool   // the module directive is written as a block
	short  bool   // versions v1.0.0 are written v1.0, v1 (accepted without a fixer and canonicalized)
	gover  string // the go directive is replaced by (or added as) this version
	pre    string // text put in front of the file
	escmod bool   // the module path is written as a quoted string with an escape sequence for its last character
}

var moduleLineRE = regexp.MustCompile(`(?m)^module ([^\s"()]+)[ \t]*(//.*)?\r?$`)

func quoteArgs(verb string, it mfItem) mfItem {
	q := func(s string) string {
		if s == "" {
			return s
		}
		return "\"" + s + "\""
	}
	switch verb {
	case "module":
		it.V = q(it.V)
	case "require", "exclude", "tool", "use":
		it.P = q(it.P)
	case "replace":
		it.Op, it.Np = q(it.Op), q(it.Np)
	}
	return it
}

// openerArgs: directory arguments (replacement targets without version, use directories) end in "//" or "/*"
func openerArgs(verb string, it mfItem, opener string) mfItem {
	// (a placeholder here; renderVariant writes the argument in double quotes whether or not the ending needs them)
	switch verb {
	case "use":
		it.P = it.P + openerMark
	case "replace":
		if it.Nv == "" {
			it.Np = it.Np + openerMark
		}
	}
	return it
}

const openerMark = "QQopenerQQ"

var openerRE = regexp.MustCompile(`[^\s"]*` + openerMark)

func renderVariant(layout []mfStmt, v wfVariant) string {
	l2 := make([]mfStmt, len(layout))
	for i, st := range layout {
		l2[i] = st
		if v.quote {
			l2[i].Items = make([]mfItem, len(st.Items))
			for j, it := range st.Items {
				l2[i].Items[j] = quoteArgs(st.Verb, it)
			}
		}
		if v.opener != "" {
			l2[i].Items = make([]mfItem, len(st.Items))
			for j, it := range st.Items {
				l2[i].Items[j] = openerArgs(st.Verb, it, v.opener)
			}
		}
	}
	var parts []string
	for _, st := range l2 {
		parts = append(parts, renderLayout([]mfStmt{st}))
	}
	if v.opener != "" {
		for i, p := range parts {
			parts[i] = openerRE.ReplaceAllStringFunc(p, func(m string) string {
				return strconv.Quote(strings.TrimSuffix(m, openerMark) + v.opener)
			})
		}
	}
	sep := ""
	if v.blank {
		sep = "\n"
	}
	text := strings.Join(parts, sep)
	if v.tws {
		lines := strings.Split(text, "\n")
		for i, l := range lines {
			if strings.Contains(l, "//") {
				lines[i] = l + " \t"
			}
			if strings.HasPrefix(l, "module ") {
				lines[i] = "// Deprecated: use v2 \t\n" + lines[i]
			}
		}
		text = strings.Join(lines, "\n")
	}
	if v.modblk {
		lines := strings.Split(text, "\n")
		for i, l := range lines {
			if strings.HasPrefix(l, "module ") {
				lines[i] = "module (\n\t" + strings.TrimPrefix(l, "module ") + "\n)"
			}
		}
		text = strings.Join(lines, "\n")
	}
	if v.short {
		text = strings.Replace(text, " v1.0.0", " v1.0", -1)
		text = strings.Replace(text, " v1.1.0", " v1.1", -1)
		text = strings.Replace(text, " v2.0.0", " v2", -1)
	}
	if v.gover != "" {
		lines := strings.Split(text, "\n")
		found := false
		for i, l := range lines {
			if strings.HasPrefix(l, "go ") {
				lines[i] = "go " + v.gover
				found = true
			}
		}
		text = strings.Join(lines, "\n")
		if !found {
			text += "go " + v.gover + "\n"
		}
	}
	text = v.pre + text
	if v.crlf {
		text = strings.Replace(text, "\n", "\r\n", -1)
	}
	return text
}

// itemArgs quotes module values itself (AutoQuote); the quoting variant passes already quoted values,
// which AutoQuote would quote again: undo that for the module line.
func fixModuleQuote(text string) string {
	return strings.Replace(text, "module \"\\\"", "module \"", 1)
}

// canonFixer is the version fixer of the "fix" runs: like the go command's, it completes shortened versions (v1 -> v1.0.0,
// v1.2 -> v1.2.0) and leaves everything else as it is (own code: the fixer is an input, not something under test).
var shortVersionRE = regexp.MustCompile(`^v[0-9]+(\.[0-9]+)?$`)

func canonFixer(path, vers string) (string, error) {
	if shortVersionRE.MatchString(vers) {
		for strings.Count(vers, ".") < 2 {
			vers += ".0"
		}
	}
	return vers, nil
}

var moduleBlockRE = regexp.MustCompile(`(?m)^module[ \t]*\(`)

func checkWellFormed(c *core.Case) ([]core.Violation, bool) {
	var in struct {
		Kind   string   `json:"kind"`
		Layout []mfStmt `json:"layout"`
	}
	if err := json.Unmarshal(c.In, &in); err != nil {
		panic(err)
	}
	var exp struct {
		M mfState `json:"m"`
	}
	json.Unmarshal(c.Exp, &exp)
	var vs []core.Violation
	add := func(sig, format string, a ...any) {
		vs = append(vs, core.Violation{Sig: sig, What: fmt.Sprintf(format, a...), Case: c})
	}
	variants := []wfVariant{{name: "plain"}, {name: "crlf", crlf: true}, {name: "blank", blank: true}, {name: "quoted", quote: true}, {name: "quoted-crlf-blank", quote: true, crlf: true, blank: true},
		{name: "dir-ends-in-slashes", opener: "//", noSpec: true}, {name: "dir-ends-in-slash-star", opener: "/*", noSpec: true},
		{name: "module-as-block", modblk: true, noSpec: true}, {name: "module-as-block-trailing-space", modblk: true, tws: true, noSpec: true},
		{name: "short-versions", short: true, noSpec: true},
		{name: "go-patch-version", gover: "1.21.0", noSpec: true}, {name: "go-rc-version", gover: "1.21rc2", noSpec: true}, {name: "go-beta-version", gover: "1.23beta1", noSpec: true},
		{name: "line-starting-with-modules", pre: "require modules.example.com/x v1.0.0\n", noSpec: true},
		{name: "block-line-starting-with-modules", pre: "require (\n\tmodules.example.com/x v1.0.0\n\tmodule.example.com/y v1.0.0\n)\n", noSpec: true},
		{name: "dir-with-backslash-and-space", opener: "\\my dir", noSpec: true}, {name: "dir-with-tilde-and-bar", opener: "/~w|x", noSpec: true},
		{name: "module-quoted-with-escape", escmod: true, noSpec: true},
		// a line of 70 000 bytes before the module directive (line readers with a fixed buffer stop there), and one of 65 536 exactly
		{name: "long-comment-line-first", pre: "// " + strings.Repeat("x", 70000) + "\n", noSpec: true},
		{name: "line-of-65536-bytes-first", pre: "// " + strings.Repeat("y", 65533-1) + "\n", noSpec: true}, {name: "comment-trailing-space", tws: true, noSpec: true}, {name: "comment-trailing-space-crlf", tws: true, crlf: true, noSpec: true}}
	for _, v := range variants {
		text := renderVariant(in.Layout, v)
		if v.escmod {
			text = moduleLineRE.ReplaceAllStringFunc(text, func(line string) string {
				m := moduleLineRE.FindStringSubmatch(line)
				p := m[1]
				return strings.Replace(line, p, fmt.Sprintf("\"%s\\x%02x\"", p[:len(p)-1], p[len(p)-1]), 1)
			})
		}
		if v.quote {
			text = strings.Replace(text, "\"\\\"", "\"", -1)
			text = strings.Replace(text, "\\\"\"", "\"", -1)
		}
		for _, fixName := range []string{"nofix", "fix"} {
			var fix modfile.VersionFixer
			if fixName == "fix" {
				fix = canonFixer
			}
			parse := func(t string) (mfState, error) {
				if in.Kind == "work" {
					f, err := modfile.ParseWork("go.work", []byte(t), fix)
					if err != nil {
						return mfState{}, err
					}
					st, _ := projectWork(f)
					return st, nil
				}
				f, err := modfile.Parse("go.mod", []byte(t), fix)
				if err != nil {
					return mfState{}, err
				}
				st, _ := projectMod(f)
				return st, nil
			}
			if in.Kind == "work" && (v.pre != "" || v.modblk) {
				continue
			}
			st1, err := parse(text)
			if err != nil && v.noSpec {
				continue // this rendering is not a file of this kind (e.g. a back-slashed replacement directory in go.mod)
			}
			if err != nil {
				core.NoteDrift(fmt.Sprintf("well-formed layout (%s) rejected by the strict parser: %v\n%s", v.name, err, text))
				continue
			}
			if d := diffStates(&exp.M, &st1); len(d) > 0 && !v.noSpec {
				core.NoteDrift(fmt.Sprintf("strict parse of a %s layout differs from the specification in %v\n%s", v.name, d, text))
			}
			// format without any edit, parse again: the directive values must be identical
			var out []byte
			if in.Kind == "work" {
				f, _ := modfile.ParseWork("go.work", []byte(text), fix)
				out = modfile.Format(f.Syntax)
				if again := modfile.Format(f.Syntax); !bytes.Equal(out, again) {
					add("c02:wf:format-twice", "formatting the same parsed go.work a second time gives other bytes (%s, %s)\nfirst:\n%s\nsecond:\n%s", v.name, fixName, out, again)
				}
			} else {
				f, _ := modfile.Parse("go.mod", []byte(text), fix)
				out, err = f.Format()
				if err != nil {
					add("c02:wf:format-error", "Format fails on an accepted file (%s, %s): %v\n%s", v.name, fixName, err, text)
					continue
				}
				if again, _ := f.Format(); !bytes.Equal(out, again) {
					add("c02:wf:format-twice", "formatting the same parsed go.mod a second time gives other bytes (%s, %s)\nfirst:\n%s\nsecond:\n%s", v.name, fixName, out, again)
				}
			}
			st2, err := parse(string(out))
			if err != nil {
				add("c02:wf:output-rejected", "formatted output of an accepted file is rejected by the strict parser (%s, %s): %v\ninput:\n%s\noutput:\n%s", v.name, fixName, err, text, out)
				continue
			}
			if in.Kind != "work" {
				f1, _ := modfile.Parse("go.mod", []byte(text), fix)
				f2, _ := modfile.Parse("go.mod", out, fix)
				if f1 != nil && f2 != nil && f1.Module != nil && f2.Module != nil && f1.Module.Deprecated != f2.Module.Deprecated {
					add("c02:wf:values-changed", "deprecation message %q before and %q after formatting (%s, %s)\ninput:\n%s\noutput:\n%s", f1.Module.Deprecated, f2.Module.Deprecated, v.name, fixName, text, out)
				}
			}
			if d := diffStates(&st1, &st2); len(d) > 0 {
				add("c02:wf:values-changed", "directive values %v differ before and after formatting (%s, %s)\ninput:\n%s\noutput:\n%s", d, v.name, fixName, text, out)
			}
			if in.Kind == "work" || v.opener != "" {
				continue
			}
			// ---- C20: lax accepts what strict accepts, with the same module, go, require and retract values
			// (with the same version fixer, where one is given)
			lf, err := modfile.ParseLax("go.mod", []byte(text), fix)
			if err != nil {
				add("c20:lax-rejects", "ParseLax rejects a file the strict parser accepts (%s): %v\n%s", v.name, err, text)
			} else {
				lst, _ := projectMod(lf)
				for _, col := range diffStates(&st1, &lst) {
					if col == "module" || col == "go" || col == "require" || col == "retract" || col == "rationale" {
						add("c20:lax-values", "ParseLax gives different %s values than the strict parser (%s)\n%s", col, v.name, text)
					}
				}
			}
			if fixName == "fix" {
				continue
			}
			// lax ignores unknown directives and blocks
			nl := "\n"
			if v.crlf {
				nl = "\r\n"
			}
			for _, unk := range []string{"frobnicate example.com/x v1.0.0" + nl, "frobnicate (" + nl + "\ta b" + nl + "\tc" + nl + ")" + nl, "exclude2 x" + nl,
				// blocks whose header has more than one word are unknown blocks whatever their first word is
				"require future (" + nl + "\texample.com/zzz v1.0.0" + nl + ")" + nl, "module experimental (" + nl + "\texample.com/other" + nl + ")" + nl,
				"retract soon (" + nl + "\tv9.9.9" + nl + ")" + nl} {
				t2 := text + unk
				lf2, err := modfile.ParseLax("go.mod", []byte(t2), nil)
				if err != nil {
					add("c20:lax-unknown", "ParseLax does not ignore an unknown directive (%s): %v\n%s", v.name, err, t2)
					continue
				}
				lst2, _ := projectMod(lf2)
				for _, col := range diffStates(&st1, &lst2) {
					if col == "module" || col == "go" || col == "require" || col == "retract" || col == "rationale" {
						add("c20:lax-unknown-values", "an unknown directive changes the %s values ParseLax reports (%s)\n%s", col, v.name, t2)
					}
				}
			}
			// the quick module-path extractor agrees with the strict parser
			// (the property speaks of files whose module directive is a single line)
			if st1.Mod != "" && !v.modblk && !moduleBlockRE.MatchString(text) {
				if got := modfile.ModulePath([]byte(text)); got != st1.Mod {
					kind := "differs"
					if got != "" && got != st1.Mod && strings.Contains(text, "\tmodule ") {
						kind = "block-line-starting-with-module"
					}
					add("c20:modulepath:"+kind, "ModulePath returns %q, the strict parser says the module path is %q (%s)\n%s", got, st1.Mod, v.name, text)
				}
			}
		}
	}
	return vs, true
}

// fixture texts: the repository's modfile testdata plus a few embedded files
func syntaxSeeds() [][]byte {
	var out [][]byte
	dir := os.Getenv("VERIF_REPO")
	if dir == "" {
		dir = "/repo"
	}
	ents, _ := os.ReadDir(dir + "/modfile/testdata")
	for _, e := range ents {
		if b, err := os.ReadFile(dir + "/modfile/testdata/" + e.Name()); err == nil && len(b) < 1500 {
			out = append(out, b)
		}
	}
	for _, s := range mfSeedTexts {
		out = append(out, []byte(s))
	}
	for _, s := range mfWorkSeedTexts {
		out = append(out, []byte(s))
	}
	out = append(out, []byte("module m // c\r\nrequire (\r\n\ta v1 // x\r\n\r\n\t// lead\r\n\tb v2\r\n) // after\r\n"),
		[]byte("x [ a , b ] { c } ( d )\ny \"q\\\"r\" `raw\\`\nz ()\nw ( )\n"))
	return out
}

// allowedRune: the character classes of these runes are in the specification's tables
func allowedText(b []byte) bool {
	for i := 0; i < len(b); {
		r, n := utf8.DecodeRune(b[i:])
		if r == utf8.RuneError && n <= 1 {
			i++
			continue
		}
		if !(r == 9 || r == 10 || r == 13 || (r >= 32 && r <= 126) || r == 233 || r == 160 || r == 1 || r == 127 || r == 0x2028) {
			return false
		}
		i += n
	}
	return true
}

var mutBytes = []byte{'"', '`', '\\', '(', ')', '[', ']', ',', '/', '*', '\n', '\r', ' ', '\t', 0xff, 0xc3, 1, '{', '}', 'a'}

func mutateBytes(rng *rand.Rand, b []byte) []byte {
	out := append([]byte(nil), b...)
	for k, n := 0, 1+rng.Intn(3); k < n; k++ {
		if len(out) == 0 {
			out = append(out, mutBytes[rng.Intn(len(mutBytes))])
			continue
		}
		i := rng.Intn(len(out))
		switch rng.Intn(4) {
		case 0:
			out = append(out[:i], out[i+1:]...)
		case 1:
			out = append(out[:i+1], out[i:]...)
		case 2:
			out[i] = mutBytes[rng.Intn(len(mutBytes))]
		default:
			out = append(out[:i], append([]byte{mutBytes[rng.Intn(len(mutBytes))]}, out[i:]...)...)
		}
	}
	return out
}

func syntaxObs(data []byte) (map[string]any, bool) {
	vs, accepted, stmts, comments := checkSyntaxInput(data, nil)
	flags := map[string]bool{"total": true, "roundtrip": true, "idempotent": true, "positions": true}
	for _, v := range vs {
		switch {
		case strings.HasPrefix(v.Sig, "c20:hang"), strings.HasPrefix(v.Sig, "c20:panic"), strings.HasPrefix(v.Sig, "c20:internal"):
			flags["total"] = false
		case strings.HasPrefix(v.Sig, "c20:"):
			flags["positions"] = false
		case v.Sig == "c02:not-idempotent":
			flags["idempotent"] = false
		default:
			flags["roundtrip"] = false
		}
	}
	cs := [][]int{}
	for _, c := range comments {
		cs = append(cs, concrete.Ints(c))
	}
	return map[string]any{"ok": accepted, "stmts": normStmts(stmts), "comments": cs, "flags": flags}, accepted
}

func (w *modSyntaxWorld) Record(rng *rand.Rand, n int, emit func(k string, in, obs any)) {
	seeds := syntaxSeeds()
	for i := 0; i < n; i++ {
		var data []byte
		switch {
		case i%97 == 96:
			// very long line / very large block: totality only
			var sb strings.Builder
			if rng.Intn(2) == 0 {
				sb.WriteString("require (\n")
				for j := 0; j < 10000; j++ {
					sb.WriteString("\texample.com/m v1.0.0 // c\n")
				}
				sb.WriteString(")\n")
			} else {
				sb.WriteString("module ")
				sb.WriteString(strings.Repeat("x", 65536))
				sb.WriteString(" \"")
				sb.WriteString(strings.Repeat("y", 65536))
				if rng.Intn(2) == 0 {
					sb.WriteString("\"")
				}
				sb.WriteString("\n")
			}
			obs, _ := syntaxObs([]byte(sb.String()))
			emit("synbig", map[string]any{"len": sb.Len()}, obs["flags"])
			continue
		case rng.Intn(5) == 0:
			// token soup
			pieces := []string{"a", "b/c", "v1.2.3", "\"q r\"", "`r`", "(", ")", "[", "]", ",", "\n", "\r\n", " ", "\t", "// c", "//", "=>", "\xff", "é", "/*", "\"x", "\\"}
			var sb strings.Builder
			for j, m := 0, 1+rng.Intn(14); j < m; j++ {
				sb.WriteString(pieces[rng.Intn(len(pieces))])
			}
			data = []byte(sb.String())
		default:
			data = mutateBytes(rng, seeds[rng.Intn(len(seeds))])
		}
		if !allowedText(data) || len(data) > 1200 {
			i--
			if len(data) > 1200 {
				i++
			}
			continue
		}
		obs, _ := syntaxObs(data)
		emit("syn", map[string]any{"s": concrete.Ints(string(data))}, obs)
	}
}

// ---- the quoting rule (specification ModfileQuote): MustQuote / AutoQuote against the specification's verdict and text,
// and the string pushed through the edit operations that write arguments with it, formatted and parsed strictly ----

func checkQuote(c *core.Case) (vs []core.Violation, nontrivial bool) {
	var in struct {
		S []int `json:"s"`
	}
	var exp struct {
		Must bool  `json:"must"`
		Text []int `json:"text"`
		Lone bool  `json:"lone"`
		Repl bool  `json:"repl"`
	}
	if err := json.Unmarshal(c.In, &in); err != nil {
		panic(err)
	}
	json.Unmarshal(c.Exp, &exp)
	s := concrete.Str(in.S)
	add := func(sig, format string, a ...any) {
		vs = append(vs, core.Violation{Sig: sig, What: fmt.Sprintf(format, a...), Case: c})
	}
	defer func() {
		if r := recover(); r != nil {
			add("c02:quote-panic", "quoting %q panics: %v", s, r)
			add("c08:quote-panic", "an edit operation with the argument %q panics: %v", s, r)
		}
	}()
	if got := modfile.MustQuote(s); got != exp.Must {
		add("c02:mustquote", "MustQuote(%q) = %v; the token rule says %v", s, got, exp.Must)
	}
	if got, want := modfile.AutoQuote(s), concrete.Str(exp.Text); got != want {
		add("c02:autoquote", "AutoQuote(%q) = %s; the one token whose value is the string is %s", s, got, want)
	}
	if exp.Lone || s == "" {
		return vs, true
	}
	// go.work: use <dir>, replace m => ./<dir>
	wf, err := modfile.ParseWork("go.work", []byte("go 1.21\n"), nil)
	if err != nil {
		panic(err)
	}
	dir := "./" + s
	if err := wf.AddUse(s, ""); err != nil {
		core.NoteDrift(fmt.Sprintf("AddUse(%q) refused: %v", s, err))
		return vs, true
	}
	if !exp.Repl {
		dir = "./d"
	}
	if err := wf.AddReplace("example.com/m", "", dir, ""); err != nil {
		core.NoteDrift(fmt.Sprintf("AddReplace(=> %q) refused: %v", dir, err))
		return vs, true
	}
	wf.Cleanup()
	out := modfile.Format(wf.Syntax)
	wf2, err := modfile.ParseWork("go.work", out, nil)
	if err != nil {
		add("c08:quote-roundtrip", "after AddUse(%q) and AddReplace(=> %q) the formatted go.work does not parse strictly: %v\n%s", s, dir, err, out)
		add("c15:quote-roundtrip", "after AddUse(%q) and AddReplace(=> %q) the in-memory structure holds them, the formatted go.work does not parse: %v", s, dir, err)
		add("c02:quote-roundtrip", "a go.work with the directory %q written by the package's quoting rule does not parse: %v", s, err)
		return vs, true
	}
	if len(wf2.Use) != 1 || wf2.Use[0].Path != s || len(wf2.Replace) != 1 || wf2.Replace[0].New.Path != dir {
		add("c08:quote-roundtrip", "after AddUse(%q) and AddReplace(=> %q) the formatted go.work reads back as use %+v replace %+v\n%s", s, dir, usePaths(wf2), wf2.Replace, out)
		add("c15:quote-roundtrip", "after AddUse(%q) and AddReplace(=> %q) the in-memory structure holds use %v, a strict parse of the formatted file yields use %v", s, dir, usePaths(wf), usePaths(wf2))
		add("c02:quote-roundtrip", "a go.work with the directory %q written by the package's quoting rule reads back differently", s)
	}
	// formatting the parsed file again changes nothing, and the values survive (C02, second sentence)
	if out2 := modfile.Format(wf2.Syntax); !bytes.Equal(out, out2) {
		add("c02:quote-idempotent", "formatting a go.work that uses %q twice gives different bytes:\n%s\n---\n%s", s, out, out2)
	}
	// go.mod: replace m => ./<dir>
	mf, err := modfile.Parse("go.mod", []byte("module example.com/x\n"), nil)
	if err != nil {
		panic(err)
	}
	if err := mf.AddReplace("example.com/m", "", dir, ""); err == nil && exp.Repl {
		mf.Cleanup()
		if out, err := mf.Format(); err == nil {
			mf2, err := modfile.Parse("go.mod", out, nil)
			if err != nil {
				add("c08:quote-roundtrip", "after AddReplace(=> %q) the formatted go.mod does not parse strictly: %v\n%s", dir, err, out)
			} else if len(mf2.Replace) != 1 || mf2.Replace[0].New.Path != dir {
				add("c08:quote-roundtrip", "after AddReplace(=> %q) the formatted go.mod reads back as %+v\n%s", dir, mf2.Replace, out)
			}
		}
	}
	return vs, true
}

func usePaths(wf *modfile.WorkFile) []string {
	var ps []string
	for _, u := range wf.Use {
		ps = append(ps, u.Path)
	}
	return ps
}
