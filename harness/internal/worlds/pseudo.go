package worlds

import (
	"encoding/json"
	"fmt"
	"math/rand"
	"strings"
	"time"

	"golang.org/x/mod/module"
	"golang.org/x/mod/semver"

	"verifharness/internal/concrete"
	"verifharness/internal/core"
)

func init() { core.Register("pseudo", func() core.World { return &pseudoWorld{} }) }

type pseudoWorld struct{}

func (w *pseudoWorld) Finish() []core.Violation { return nil }

type pseudoIn struct {
	Major []int   `json:"major"`
	Older []int   `json:"older"`
	T     [6]int  `json:"t"` // UTC civil time
	Zone  int     `json:"zone"`
	Ns    int     `json:"ns"`
	Rev   []int   `json:"rev"`
	Later [][]int `json:"later"`
	Next  []int   `json:"next"`
}

func pseudoObs(in *pseudoIn) (map[string]any, string, time.Time) {
	utc := time.Date(in.T[0], time.Month(in.T[1]), in.T[2], in.T[3], in.T[4], in.T[5], in.Ns, time.UTC)
	local := utc.In(time.FixedZone("z", in.Zone*60))
	major, older, rev := concrete.Str(in.Major), concrete.Str(in.Older), concrete.Str(in.Rev)
	pv := module.PseudoVersion(major, older, local, rev)
	obs := map[string]any{"pv": concrete.Ints(pv), "ispseudo": module.IsPseudoVersion(pv), "valid": semver.IsValid(pv)}
	obs["iszero"], obs["zero"] = module.IsZeroPseudoVersion(pv), concrete.Ints(module.ZeroPseudoVersion(major))
	base, err := module.PseudoVersionBase(pv)
	obs["baseok"] = err == nil
	if err != nil {
		base = ""
	}
	obs["base"] = concrete.Ints(base)
	ts := ""
	if t, err := module.PseudoVersionTime(pv); err == nil {
		ts = t.Format("20060102150405")
		if !t.Equal(utc.Truncate(time.Second)) || t.Location() != time.UTC {
			ts = "mismatch:" + t.String()
		}
	}
	obs["ts"] = concrete.Ints(ts)
	r, _ := module.PseudoVersionRev(pv)
	obs["rev"] = concrete.Ints(r)
	// history: the same questions about a version that differs in build metadata only, then about pv again -
	// the answers about pv are the same as the first time
	sib := pv + "+incompatible"
	if i := strings.IndexByte(pv, '+'); i >= 0 {
		sib = pv[:i]
	}
	module.PseudoVersionBase(sib)
	module.PseudoVersionTime(sib)
	module.PseudoVersionRev(sib)
	b2, e2 := module.PseudoVersionBase(pv)
	r2, _ := module.PseudoVersionRev(pv)
	if (e2 == nil) != (err == nil) || (e2 == nil && b2 != base) || r2 != r {
		obs["base"], obs["rev"] = concrete.Ints("after a call on "+sib+": "+b2), concrete.Ints(r2)
	}
	if semver.IsValid(older) {
		obs["cmpbase"] = semver.Compare(older, pv)
		p := module.PseudoVersion // silence
		_ = p
	} else {
		obs["cmpbase"] = 0
	}
	return obs, pv, utc
}

// safePseudoObs: a panic in the code under test becomes part of the observation (the trace cannot match)
func safePseudoObs(in *pseudoIn) (obs map[string]any, pv string) {
	defer func() {
		if r := recover(); r != nil {
			obs = map[string]any{"panic": fmt.Sprint(r)}
		}
	}()
	obs, pv, _ = pseudoObs(in)
	return obs, pv
}

// nextRelease is computed by the specification; the harness only compares with what it is given.
func (w *pseudoWorld) Check(c *core.Case) ([]core.Violation, bool) {
	if c.K != "make" {
		panic("pseudo: unknown case kind " + c.K)
	}
	var in pseudoIn
	if err := json.Unmarshal(c.In, &in); err != nil {
		panic(err)
	}
	var exp map[string]any
	json.Unmarshal(c.Exp, &exp)
	obs, pv, _ := pseudoObs(&in)
	// the comparison with the next release uses the specification's pseudo-version string as the reference point
	var expS struct {
		Pv      []int `json:"pv"`
		Cmpnext int   `json:"cmpnext"`
	}
	json.Unmarshal(c.Exp, &expS)
	if len(in.Next) > 0 {
		obs["cmpnext"] = semver.Compare(pv, concrete.Str(in.Next))
	} else {
		delete(exp, "cmpnext")
	}
	var vs []core.Violation
	desc := fmt.Sprintf("PseudoVersion(%q,%q,%v zone %+d min,%q)=%q", concrete.Str(in.Major), concrete.Str(in.Older), in.T, in.Zone, concrete.Str(in.Rev), pv)
	if d := core.Diff(exp, obs); len(d) > 0 {
		vs = append(vs, core.Violation{Sig: "make:" + d[0], What: fmt.Sprintf("%s: %v differ: code %v, specification %v", desc, d, pickKeys(obs, d), pickKeys(exp, d)), Case: c, Obs: obs})
	}
	// ordering against later times with other revisions (strings from the specification, order from the code)
	for i, l := range in.Later {
		other := concrete.Str(l)
		want := 0
		switch {
		case other == pv:
			want = 0
		default:
			// later time (by stamp) must compare greater; earlier smaller; equal stamp: no claim
			a, b := stampOf(pv), stampOf(other)
			if a < b {
				want = -1
			} else if a > b {
				want = 1
			} else {
				continue
			}
		}
		if got := semver.Compare(pv, other); got != want {
			vs = append(vs, core.Violation{Sig: "make:time-order", What: fmt.Sprintf("%s compared with %q (case %d) gives %d, a later time must give a higher version (want %d)", desc, other, i, got, want), Case: c})
		}
	}
	return vs, semver.IsValid(concrete.Str(in.Older))
}

func stampOf(pv string) string {
	if t, err := module.PseudoVersionTime(pv); err == nil {
		return t.Format("20060102150405")
	}
	return ""
}

func (w *pseudoWorld) Record(rng *rand.Rand, n int, emit func(k string, in, obs any)) {
	revs := []string{"0", "abc", "abcdef123456", "ABCdef", "0123456789ab", "deadbeefcafe"}
	for i := 0; i < n; i++ {
		older := ""
		if rng.Intn(6) != 0 {
			older = randVersion(rng)
		}
		major := semver.Major(older)
		if major == "" {
			major = []string{"", "v0", "v1", "v2", "v17"}[rng.Intn(5)]
		}
		y := 1 + rng.Intn(9999)
		if rng.Intn(4) == 0 {
			y = []int{1, 999, 1000, 1970, 2038, 9999}[rng.Intn(6)]
		}
		t := time.Date(y, time.Month(1+rng.Intn(12)), 1+rng.Intn(28), rng.Intn(24), rng.Intn(60), rng.Intn(60), 0, time.UTC)
		in := pseudoIn{Major: concrete.Ints(major), Older: concrete.Ints(older), T: [6]int{t.Year(), int(t.Month()), t.Day(), t.Hour(), t.Minute(), t.Second()},
			Zone: rng.Intn(27*60) - 13*60, Ns: rng.Intn(2) * 123456789, Rev: concrete.Ints(revs[rng.Intn(len(revs))])}
		if !specAlphabetOK(older) {
			i--
			continue
		}
		obs, pv := safePseudoObs(&in)
		next := ""
		_ = next
		obs["pvvalid"] = semver.IsValid(pv)
		delete(obs, "pvvalid")
		emit("make", map[string]any{"major": in.Major, "older": in.Older, "t": in.T, "zone": in.Zone, "ns": in.Ns, "rev": in.Rev}, obs)
	}
}
