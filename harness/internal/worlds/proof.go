package worlds

import (
	"encoding/json"
	"fmt"
	"math/rand"
	"sync"

	"golang.org/x/mod/sumdb/tlog"

	"verifharness/internal/core"
	"verifharness/internal/refmerkle"
)

// proofWorld is a log built for one record sequence of a generated case.
type proofWorld struct {
	leaves []refmerkle.Hash
	store  *memStore
}

var proofWorlds sync.Map // string(recs) -> *proofWorld

func getProofWorld(recs []int) *proofWorld {
	key := fmt.Sprint(recs)
	if w, ok := proofWorlds.Load(key); ok {
		return w.(*proofWorld)
	}
	w := &proofWorld{store: &memStore{}}
	for i, d := range recs {
		data := refmerkle.DefaultRec(d)
		hs, err := tlog.StoredHashes(int64(i), data, w.store)
		if err != nil {
			panic(err)
		}
		w.store.h = append(w.store.h, hs...)
		w.leaves = append(w.leaves, refmerkle.LeafHash(data))
	}
	// the store is read-only from here on; drop the read log to stay race free
	ro := &memStore{h: w.store.h}
	w.store = ro
	proofWorlds.Store(key, w)
	return w
}

type roStore struct{ h []tlog.Hash }

func (s roStore) ReadHashes(idx []int64) ([]tlog.Hash, error) {
	out := make([]tlog.Hash, len(idx))
	for i, x := range idx {
		if x < 0 || x >= int64(len(s.h)) {
			return nil, fmt.Errorf("read of index %d outside store of %d", x, len(s.h))
		}
		out[i] = s.h[x]
	}
	return out, nil
}

// desc is a hash descriptor: ["R",lo,hi] or ["J",k].
type desc []json.RawMessage

func (w *proofWorld) concrete(d desc) tlog.Hash {
	var tag string
	json.Unmarshal(d[0], &tag)
	switch tag {
	case "R":
		var lo, hi int
		json.Unmarshal(d[1], &lo)
		json.Unmarshal(d[2], &hi)
		return tlog.Hash(refmerkle.MTH(w.leaves[lo:hi]))
	case "J":
		var k int
		json.Unmarshal(d[1], &k)
		return tlog.Hash(refmerkle.Junk(k))
	}
	panic("bad descriptor")
}

func init() { core.Register("tlogproof", func() core.World { return &tlogProofWorld{} }) }

type tlogProofWorld struct{}

func (w *tlogProofWorld) Check(c *core.Case) ([]core.Violation, bool) { return checkProofCase(c) }
func (w *tlogProofWorld) Finish() []core.Violation                    { return nil }

// Record: big random trees; each event is one proof with the stored-hash
// positions it was assembled from and the fate of simple mutations.
func (w *tlogProofWorld) Record(rng *rand.Rand, n int, emit func(k string, in, obs any)) {
	size := 200 + rng.Intn(1800)
	st := &memStore{}
	var leaves []refmerkle.Hash
	for i := 0; i < size; i++ {
		data := recData(i) // lengths sweep the boundaries of hash blocks and small buffers (1..1000 bytes)
		hs, err := tlog.StoredHashes(int64(i), data, st)
		if err != nil {
			panic(err)
		}
		st.h = append(st.h, hs...)
		leaves = append(leaves, refmerkle.LeafHash(data))
	}
	roots := map[int]tlog.Hash{}
	root := func(t int) tlog.Hash {
		if h, ok := roots[t]; ok {
			return h
		}
		h := tlog.Hash(refmerkle.MTH(leaves[:t]))
		roots[t] = h
		return h
	}
	for i := 0; i < n; i++ {
		t := 1 + rng.Intn(size)
		if rng.Intn(4) == 0 {
			t = 1 + rng.Intn(40)
		}
		junk := tlog.Hash(refmerkle.Junk(i))
		if rng.Intn(2) == 0 {
			nn := rng.Intn(t)
			st.reads = nil
			p, err := tlog.ProveRecord(int64(t), int64(nn), st)
			if err != nil {
				panic(err)
			}
			reads := append([]int64(nil), st.reads...)
			leaf := tlog.Hash(leaves[nn])
			obs := map[string]any{"len": len(p), "ok": tlog.CheckRecord(p, int64(t), root(t), int64(nn), leaf) == nil}
			if len(p) > 0 {
				j := rng.Intn(len(p))
				q := append(tlog.RecordProof(nil), p...)
				q[j] = junk
				obs["flipRejected"] = tlog.CheckRecord(q, int64(t), root(t), int64(nn), leaf) != nil
				q = append(append(tlog.RecordProof(nil), p[:j]...), p[j+1:]...)
				obs["delRejected"] = tlog.CheckRecord(q, int64(t), root(t), int64(nn), leaf) != nil
			} else {
				obs["flipRejected"], obs["delRejected"] = true, true
			}
			obs["appRejected"] = tlog.CheckRecord(append(append(tlog.RecordProof(nil), p...), junk), int64(t), root(t), int64(nn), leaf) != nil
			obs["leafRejected"] = tlog.CheckRecord(p, int64(t), root(t), int64(nn), junk) != nil
			obs["rootRejected"] = tlog.CheckRecord(p, int64(t), junk, int64(nn), leaf) != nil
			obs["_drift"] = map[string]any{"reads": reads}
			emit("recproof", map[string]any{"t": t, "n": nn}, obs)
		} else {
			nn := 1 + rng.Intn(t)
			st.reads = nil
			p, err := tlog.ProveTree(int64(t), int64(nn), st)
			if err != nil {
				panic(err)
			}
			reads := append([]int64(nil), st.reads...)
			obs := map[string]any{"len": len(p), "ok": tlog.CheckTree(p, int64(t), root(t), int64(nn), root(nn)) == nil}
			if len(p) > 0 {
				j := rng.Intn(len(p))
				q := append(tlog.TreeProof(nil), p...)
				q[j] = junk
				obs["flipRejected"] = tlog.CheckTree(q, int64(t), root(t), int64(nn), root(nn)) != nil
				q = append(append(tlog.TreeProof(nil), p[:j]...), p[j+1:]...)
				obs["delRejected"] = tlog.CheckTree(q, int64(t), root(t), int64(nn), root(nn)) != nil
			} else {
				obs["flipRejected"], obs["delRejected"] = true, true
			}
			obs["appRejected"] = tlog.CheckTree(append(append(tlog.TreeProof(nil), p...), junk), int64(t), root(t), int64(nn), root(nn)) != nil
			obs["leafRejected"] = tlog.CheckTree(p, int64(t), root(t), int64(nn), junk) != nil
			obs["rootRejected"] = tlog.CheckTree(p, int64(t), junk, int64(nn), root(nn)) != nil
			obs["_drift"] = map[string]any{"reads": reads}
			emit("treeproof", map[string]any{"t": t, "n": nn}, obs)
		}
	}
}

func checkProofCase(c *core.Case) ([]core.Violation, bool) {
	switch c.K {
	case "proverec", "provetree":
		var in struct {
			Recs []int
			T, N int64
		}
		var exp struct{ P []desc }
		json.Unmarshal(c.In, &in)
		json.Unmarshal(c.Exp, &exp)
		w := getProofWorld(in.Recs)
		var got []tlog.Hash
		var err error
		if c.K == "proverec" {
			var p tlog.RecordProof
			p, err = tlog.ProveRecord(in.T, in.N, roStore{w.store.h})
			got = p
		} else {
			var p tlog.TreeProof
			p, err = tlog.ProveTree(in.T, in.N, roStore{w.store.h})
			got = p
		}
		if err != nil {
			return viol(c, c.K+":error", "%s(%d,%d): %v", c.K, in.T, in.N, err), true
		}
		if len(got) != len(exp.P) {
			return viol(c, c.K+":length", "%s(%d,%d) has %d hashes, RFC 6962 proof has %d", c.K, in.T, in.N, len(got), len(exp.P)), true
		}
		for i := range got {
			if got[i] != w.concrete(exp.P[i]) {
				return viol(c, c.K+":hash", "%s(%d,%d): hash %d differs from the RFC 6962 proof (%s)", c.K, in.T, in.N, i, exp.P[i]), true
			}
		}
		return nil, true
	case "proofrec", "prooftree":
		var in struct {
			Recs    []int
			P       []desc
			T, N    int64
			Th, H   desc
			Mutated bool
		}
		var exp struct{ V string }
		json.Unmarshal(c.In, &in)
		json.Unmarshal(c.Exp, &exp)
		w := getProofWorld(in.Recs)
		p := make([]tlog.Hash, len(in.P))
		for i := range p {
			p[i] = w.concrete(in.P[i])
		}
		th, h := w.concrete(in.Th), w.concrete(in.H)
		var err error
		if c.K == "proofrec" {
			err = tlog.CheckRecord(tlog.RecordProof(p), in.T, th, in.N, h)
		} else {
			err = tlog.CheckTree(tlog.TreeProof(p), in.T, th, in.N, h)
		}
		// a panic is caught by the replay driver and reported as <kind>:panic
		if (err == nil) != (exp.V == "accept") {
			sig := c.K + ":" + exp.V
			return viol(c, sig, "%s: t=%d n=%d proof of %d hashes: err=%v, RFC 9162 verification says %s", c.K, in.T, in.N, len(p), err, exp.V), true
		}
		return nil, in.Mutated
	}
	panic("tlog: unknown proof case " + c.K)
}
