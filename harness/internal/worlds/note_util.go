package worlds

import (
	"unicode"
	"unicode/utf8"
)

func decodeRune(s string) (rune, int) { return utf8.DecodeRuneInString(s) }

// validNoteName: non-empty, well-formed UTF-8, no Unicode space, no plus (from the package documentation)
func validNoteName(name string) bool {
	if name == "" || !utf8.ValidString(name) {
		return false
	}
	for _, r := range name {
		if unicode.IsSpace(r) || r == '+' {
			return false
		}
	}
	return true
}
