package worlds

import (
	"encoding/json"
	"errors"
	"fmt"
	"hash/fnv"
	"math/rand"
	"os"
	"sort"
	"strings"

	"golang.org/x/mod/sumdb"

	"verifharness/internal/core"
	"verifharness/internal/sumworld"
)

func init() {
	core.Register("clientc01", func() core.World { return &clientRunWorld{forked: false} })
	core.Register("clientc13", func() core.World { return &clientRunWorld{forked: true} })
}

// clientRunWorld records randomized runs of the real client against a random
// adversary (E3 for C01 and C13) and re-executes a single run for replay.
type clientRunWorld struct{ forked bool }

type runIn struct {
	Seed   int64 `json:"seed"`
	Run    int   `json:"run"`
	Forked bool  `json:"forked"`
	Big    bool  `json:"big"`
}

func (w *clientRunWorld) Check(c *core.Case) ([]core.Violation, bool) {
	if c.K != "run" {
		panic("client run world: unknown case kind " + c.K)
	}
	var in runIn
	if err := json.Unmarshal(c.In, &in); err != nil {
		panic(err)
	}
	name := "clientc01"
	if w.forked {
		name = "clientc13"
	}
	ev, done := core.RunTrace(name)
	vs := execRun(in, ev)
	done()
	for i := range vs {
		vs[i].Case = c
	}
	return vs, true
}

func (w *clientRunWorld) Finish() []core.Violation { return nil }

func (w *clientRunWorld) Record(rng *rand.Rand, n int, emit func(k string, in, obs any)) {
	seed := rng.Int63()
	big := os.Getenv("VERIF_TIER") == "thorough"
	for run := 0; run < n; run++ {
		in := runIn{Seed: seed, Run: run, Forked: w.forked, Big: big}
		execRun(in, func(k string, f any) { emit(k, f, map[string]any{}) })
	}
}

func pick(rng *rand.Rand, xs ...string) string { return xs[rng.Intn(len(xs))] }

// execRun performs one randomized run; ev (optional) receives the labelled events.
// The Go-side observers (scriptOps.viol and checkLookupResult) run as well, so that a
// run flagged by the TLA+ monitor can be reproduced by re-executing it.
func execRun(in runIn, ev func(k string, f any)) []core.Violation {
	rng := rand.New(rand.NewSource(in.Seed*1000003 + int64(in.Run)))
	h := 1 + rng.Intn(8)
	maxSize := 300
	if in.Big {
		maxSize = 2000
	}
	if rng.Intn(3) == 0 {
		maxSize = 40
	}
	prefix, sizeA, sizeB := 0, 2+rng.Intn(maxSize), 0
	if in.Forked {
		maxF := 500
		if maxSize < maxF {
			maxF = maxSize
		}
		prefix = rng.Intn(maxF)
		if rng.Intn(3) == 0 {
			prefix = rng.Intn(8)
		}
		sizeA = prefix + 1 + rng.Intn(1+maxF/4)
		sizeB = prefix + 1 + rng.Intn(1+maxF/4)
	}
	// the first run of every recording is an honest one on a long log at height 1: the records looked up lie in the
	// level-0 tiles number 999, 1000 and 1001 (the thousand is where tile paths get a second group of digits)
	long := in.Run == 0 && !in.Forked
	if long {
		h, sizeA = 1, 2004+rng.Intn(3)
	}
	w := sumworld.New(h, prefix, sizeA, sizeB)
	served := map[string]int{"A": sizeA}
	if in.Forked {
		served["B"] = sizeB
	}
	// served heads may start smaller and grow
	if rng.Intn(2) == 0 && !long {
		for tl := range served {
			lo := prefix
			if lo < 1 {
				lo = 1
			}
			served[tl] = lo + rng.Intn(w.Size[tl]-lo+1)
		}
	}
	cfg0 := sumworld.HeadLabel{Kind: "empty", Tl: "P"}
	if rng.Intn(3) == 0 && !long {
		tl := "A"
		if in.Forked && rng.Intn(2) == 0 {
			tl = "B"
		}
		n := 1 + rng.Intn(served[tl])
		cfg0 = sumworld.HeadLabel{Kind: "good", Tl: w.Norm(tl, n), N: n}
	}
	ops := newScriptOps(w, cfg0, served)
	pFault := 0.0
	if rng.Intn(10) >= 3 {
		pFault = 0.02 + rng.Float64()*0.15
	}
	if long {
		pFault = 0
	}
	if in.Forked {
		pFault = 0 // the fork itself is the adversary; C01 covers corrupted responses
		if rng.Intn(4) == 0 {
			pFault = 0.03
		}
	}
	g := 0
	emit := func(k string, f any) {
		if ev == nil {
			return
		}
		if m, ok := f.(map[string]any); ok {
			m["g"] = g
		}
		ev(k, f)
	}
	ops.ev = emit
	forgedPending := map[int]bool{} // leaf ids for which a forged record was served: also forge their leaf tile
	// The adversary decides per (operation, file, how often that file was asked for), not in call order: tile
	// reads of one lookup run on parallel goroutines, and a run must be the same run when it is executed again.
	asked := map[string]int{}
	ops.chaos = func(op string, f absFile) *scripted {
		tl := ops.curTl
		key := op + " " + f.String()
		hsh := fnv.New64a()
		fmt.Fprintf(hsh, "%d %d %s %d", in.Seed, in.Run, key, asked[key])
		asked[key]++
		rng := rand.New(rand.NewSource(int64(hsh.Sum64())))
		if op == "ReadCache" {
			// poisoned cache content, rarely
			if rng.Float64() >= pFault/2 {
				return nil
			}
		} else if f.Kind == "tile" && f.L == 0 {
			var ids []int
			for id := range forgedPending {
				ids = append(ids, id)
			}
			sort.Ints(ids)
			for _, id := range ids {
				if int64(id)>>uint(h) == f.N && id-int(f.N)<<uint(h) < f.W && rng.Intn(4) != 0 {
					return &scripted{fault: true, lab: &tileLab{Kind: "tforged", Tl: tl, Pos: id - int(f.N)<<uint(h) + 1}}
				}
			}
			if rng.Float64() >= pFault {
				return nil
			}
		} else if rng.Float64() >= pFault {
			return nil
		}
		if f.Kind == "lookup" {
			cur := ops.served[tl]
			good := sumworld.HeadLabel{Kind: "good", Tl: tl, N: cur}
			tr := sumworld.RecLabel{Kind: "true", Tl: tl, ID: f.K}
			switch rng.Intn(8) {
			case 0:
				forgedPending[f.K] = true
				return &scripted{fault: true, resp: &respLabel{Kind: "resp", Rec: sumworld.RecLabel{Kind: "forged", ID: f.K}, Head: good}}
			case 1:
				other := rng.Intn(cur)
				return &scripted{fault: true, resp: &respLabel{Kind: "resp", Rec: sumworld.RecLabel{Kind: "true", Tl: tl, ID: other}, Head: good}}
			case 2:
				return &scripted{fault: true, resp: &respLabel{Kind: "resp", Rec: tr, Head: sumworld.HeadLabel{Kind: "good", Tl: tl, N: 1 + rng.Intn(cur)}}}
			case 3:
				return &scripted{fault: true, resp: &respLabel{Kind: "resp", Rec: tr, Head: sumworld.HeadLabel{Kind: "badsig", Tl: tl, N: cur}}}
			case 4:
				return &scripted{fault: true, resp: &respLabel{Kind: "resp", Rec: tr, Head: sumworld.HeadLabel{Kind: "garbage"}}}
			case 5:
				return &scripted{fault: true, resp: &respLabel{Kind: "malformed"}}
			case 6:
				return &scripted{fault: true, resp: &respLabel{Kind: "err"}}
			default:
				return &scripted{fault: true, resp: &respLabel{Kind: "resp", Rec: sumworld.RecLabel{Kind: "forged", ID: f.K}, Head: sumworld.HeadLabel{Kind: "badsig", Tl: tl, N: cur}}}
			}
		}
		if !w.TileExists(tl, f.L, f.N, f.W) {
			return nil
		}
		kind := pick(rng, "tjunk", "tbit", "tswap", "ttruncate", "textend", "tforged", "err")
		if kind == "tswap" && f.W < 2 {
			kind = "tbit"
		}
		if kind == "ttruncate" && f.W < 2 {
			kind = "tjunk"
		}
		if kind == "tforged" && f.L != 0 {
			kind = "tjunk"
		}
		return &scripted{fault: true, lab: &tileLab{Kind: kind, Tl: tl, Pos: 1 + rng.Intn(f.W)}}
	}
	emit("Reset", map[string]any{"prefix": prefix, "forked": in.Forked, "cfg0": cfg0, "h": h, "sizeA": sizeA, "sizeB": sizeB, "seed": in.Seed, "run": in.Run})
	newClient := func() *sumdb.Client {
		cl := sumdb.NewClient(ops)
		cl.SetTileHeight(h)
		return cl
	}
	cl := newClient()
	var vs []core.Violation
	nlook := 3 + rng.Intn(10)
	var prev []int
	for i := 0; i < nlook; i++ {
		g = i + 1
		if in.Forked && rng.Intn(3) == 0 {
			ops.mu.Lock()
			if ops.curTl == "A" {
				ops.curTl = "B"
			} else {
				ops.curTl = "A"
			}
			ops.mu.Unlock()
		}
		if rng.Intn(4) == 0 { // the served head grows
			ops.mu.Lock()
			for tl := range ops.served {
				if ops.served[tl] < w.Size[tl] {
					ops.served[tl] += 1 + rng.Intn(w.Size[tl]-ops.served[tl])
				}
			}
			ops.mu.Unlock()
		}
		if i > 0 && rng.Intn(5) == 0 {
			cl = newClient()
			ops.mu.Lock()
			ops.secKeys = nil
			ops.mu.Unlock()
			emit("Restart", map[string]any{"c": 0})
		}
		minServed := ops.served["A"]
		if in.Forked && ops.served["B"] < minServed {
			minServed = ops.served["B"]
		}
		k := rng.Intn(minServed)
		if long {
			k = 1997 + (i*3)%(minServed-1997)
		}
		if len(prev) > 0 && rng.Intn(4) == 0 {
			k = prev[rng.Intn(len(prev))]
		}
		prev = append(prev, k)
		path, vers := lookupArgs(w, k)
		emit("LookupStart", map[string]any{"key": k})
		ops.mu.Lock()
		cfgBefore := append([]byte(nil), ops.cfg...)
		secBefore := len(ops.sec)
		faultsBefore := ops.faultsServed
		ops.mu.Unlock()
		lines, err, pan := safeLookup(cl, path, vers)
		if pan != nil {
			sig := "c01:panic"
			if in.Forked {
				sig = "c13:panic"
			}
			vs = append(vs, core.Violation{Sig: sig, What: fmt.Sprintf("Lookup(%s,%s) panics: %v", path, vers, pan)})
			// a client that panicked may hold its own locks for ever: go on with a new one, as after a crash
			emit("Restart", map[string]any{"c": 0})
			ops.mu.Lock()
			ops.secKeys = nil
			ops.mu.Unlock()
			cl = newClient()
		}
		cls := "other"
		tlTrue := ""
		if err == nil {
			if len(lines) == 0 {
				cls = "none"
			}
			for _, tl := range w.Timelines() {
				if k < w.Size[tl] && core.Eq(lines, sumworld.Lines(w.RecText(tl, k), path, vers)) {
					cls, tlTrue = "true", w.Norm(tl, k+1)
				}
			}
		} else {
			cls = "none"
		}
		emit("LookupEnd", map[string]any{"key": k, "ok": err == nil, "err": classifyErr(err), "lines": cls, "tl": tlTrue, "skip": false})
		vs = append(vs, checkLookupResult(ops, w, k, lines, err, cfgBefore, secBefore, in.Forked)...)
		ops.mu.Lock()
		honest := ops.faultsServed == 0 && !in.Forked
		_ = faultsBefore
		ops.mu.Unlock()
		if honest && (err != nil || cls != "true") && !errors.Is(err, sumdb.ErrGONOSUMDB) {
			vs = append(vs, core.Violation{Sig: "c01:honest-fails", What: fmt.Sprintf("honest server and cache, but Lookup(%s,%s) = %q, %v", path, vers, lines, err)})
		}
	}
	vs = append(vs, ops.viol...)
	for i := range vs {
		if !strings.Contains(vs[i].What, "run seed=") {
			vs[i].What = fmt.Sprintf("%s [run seed=%d run=%d h=%d prefix=%d sizes=%d/%d]", vs[i].What, in.Seed, in.Run, h, prefix, sizeA, sizeB)
		}
	}
	return vs
}
