package worlds

import (
	azip "archive/zip"
	"bytes"
	"encoding/json"
	"errors"
	"fmt"
	"io"
	"io/fs"
	"math/rand"
	"os"
	"path"
	"path/filepath"
	"sort"
	"strings"
	"time"

	"golang.org/x/mod/module"
	"golang.org/x/mod/sumdb/dirhash"
	mzip "golang.org/x/mod/zip"

	"verifharness/internal/concrete"
	"verifharness/internal/core"
)

func init() { core.Register("modzip", func() core.World { return &modzipWorld{} }) }

type modzipWorld struct{}

func (w *modzipWorld) Finish() []core.Violation { return nil }

var zipMod = module.Version{Path: "example.com/m", Version: "v1.0.0"}

const zipPrefix = "example.com/m@v1.0.0/"
const bigSize = 16<<20 + 1

// ---- in-memory zip.File ----

type mzFile struct {
	P        []int  `json:"path"`
	Mode     string `json:"mode"`
	Size     string `json:"size"`
	LstatErr bool   `json:"lstat"`
	Gover    string `json:"gover"`
	idx      int
}

func (f *mzFile) Path() string { return concrete.Str(f.P) }

func (f *mzFile) content() []byte {
	p := f.Path()
	if f.Size == "empty" {
		return []byte{}
	}
	if p == "go.mod" {
		switch f.Gover {
		case "old":
			return []byte("module example.com/m\n\ngo 1.21\n")
		case "new":
			return []byte("module example.com/m\n\ngo 1.24\n")
		case "bad":
			return []byte("this is ((( not a go.mod\n")
		}
		return []byte("module example.com/m\n")
	}
	return []byte(fmt.Sprintf("content of %q (file %d)\n", p, f.idx))
}

type mzInfo struct{ f *mzFile }

func (i mzInfo) Name() string { return filepath.Base(i.f.Path()) }
func (i mzInfo) Size() int64 {
	if n := classSize(i.f.Size); n > 0 {
		return n
	}
	return int64(len(i.f.content()))
}
func (i mzInfo) Mode() fs.FileMode {
	switch i.f.Mode {
	case "dir":
		return fs.ModeDir | 0755
	case "symlink":
		return fs.ModeSymlink | 0777
	case "irregular":
		return fs.ModeNamedPipe | 0644
	}
	return 0644
}
func (i mzInfo) ModTime() time.Time { return time.Time{} }
func (i mzInfo) IsDir() bool        { return i.f.Mode == "dir" }
func (i mzInfo) Sys() any           { return nil }

func (f *mzFile) Lstat() (os.FileInfo, error) {
	if f.LstatErr {
		return nil, errors.New("lstat fails (injected)")
	}
	return mzInfo{f}, nil
}

// thirdSize: 170 MiB - two such files fit into an archive (500 MiB), three do not
const thirdSize = 170 << 20

func classSize(class string) int64 {
	switch class {
	case "big":
		return bigSize
	case "third":
		return thirdSize
	}
	return 0
}

type zeroReader struct{ n int64 }

func (z *zeroReader) Read(p []byte) (int, error) {
	if z.n <= 0 {
		return 0, io.EOF
	}
	if int64(len(p)) > z.n {
		p = p[:z.n]
	}
	for i := range p {
		p[i] = 0
	}
	z.n -= int64(len(p))
	return len(p), nil
}

func (f *mzFile) Open() (io.ReadCloser, error) {
	if f.Mode != "regular" {
		return nil, errors.New("not a regular file")
	}
	if n := classSize(f.Size); n > 0 {
		return io.NopCloser(&zeroReader{n}), nil
	}
	return io.NopCloser(bytes.NewReader(f.content())), nil
}

func errPaths(es []mzip.FileError) []string {
	out := make([]string, len(es))
	for i, e := range es {
		out[i] = e.Path
	}
	return out
}

func nzs(s []string) []string {
	if s == nil {
		return []string{}
	}
	return s
}

func walkTree(dir string) (map[string][]byte, error) {
	out := map[string][]byte{}
	err := filepath.Walk(dir, func(p string, info os.FileInfo, err error) error {
		if err != nil {
			return err
		}
		if info.IsDir() {
			return nil
		}
		rel, _ := filepath.Rel(dir, p)
		b, err := os.ReadFile(p)
		if err != nil {
			return err
		}
		out[filepath.ToSlash(rel)] = b
		return nil
	})
	return out, err
}

func scratchDir() string {
	base := os.Getenv("VERIF_SCRATCH")
	if base == "" {
		base = os.TempDir()
	}
	d, err := os.MkdirTemp(base, "vhzip")
	if err != nil {
		panic(err)
	}
	return d
}

func (w *modzipWorld) Check(c *core.Case) ([]core.Violation, bool) {
	switch c.K {
	case "files":
		return checkZipFiles(c)
	case "zip", "ziprec":
		return checkZipArchive(c)
	}
	panic("modzip: unknown case kind " + c.K)
}

type zipRun struct {
	valid, omitted, invalid []string
	cfErrOK, sizeErr        bool
	createErr               error
	flags                   []core.Violation // self-consistency violations (round trip, directory side, hashes)
	desc                    string
}

// runZipFiles does everything the properties talk about with one file list.
func runZipFiles(c *core.Case, fsl []*mzFile) zipRun {
	files := make([]mzip.File, len(fsl))
	var descs []string
	for i, f := range fsl {
		f.idx = i
		files[i] = f
		descs = append(descs, fmt.Sprintf("%q(%s,%s,lstatErr=%v,go=%s)", f.Path(), f.Mode, f.Size, f.LstatErr, f.Gover))
	}
	r := zipRun{desc: strings.Join(descs, " ")}
	add := func(sig, format string, a ...any) {
		r.flags = append(r.flags, core.Violation{Sig: sig, What: fmt.Sprintf(format, a...) + "; files: " + r.desc, Case: c})
	}
	cf, cfErr := mzip.CheckFiles(files)
	r.valid, r.omitted, r.invalid = nzs(cf.Valid), nzs(errPaths(cf.Omitted)), nzs(errPaths(cf.Invalid))
	r.cfErrOK = (cfErr == nil) == (len(r.invalid) == 0 && cf.SizeError == nil)
	r.sizeErr = cf.SizeError != nil
	// C17: a directory tree of regular files gives the same result as the list of its files
	if treeable(fsl) {
		r.flags = append(r.flags, dirVersusList(c, fsl, r.desc)...)
	}
	var buf bytes.Buffer
	r.createErr = mzip.Create(&buf, zipMod, files)
	if r.createErr != nil {
		return r
	}
	gotV := r.valid
	dir := scratchDir()
	defer os.RemoveAll(dir)
	zpath := filepath.Join(dir, "m.zip")
	os.WriteFile(zpath, buf.Bytes(), 0644)
	zcf, zerr := mzip.CheckZip(zipMod, zpath)
	if zerr != nil || len(zcf.Invalid) > 0 {
		add("c05:created-zip-rejected", "the archive produced by Create does not pass CheckZip: %v invalid %q", zerr, errPaths(zcf.Invalid))
	}
	// the documented restrictions, evaluated on the produced bytes with strings.EqualFold as the oracle
	// (independent of the collision checker that Create, CheckFiles and CheckZip share)
	if why := archiveRestrictions(buf.Bytes()); why != "" {
		add("c05:archive-restrictions", "the archive produced by Create breaks a documented restriction: %s", why)
	}
	// the same files under a module path with upper-case letters, a major-version suffix and a pre-release version:
	// the archive must carry that module's prefix and pass its check
	for _, mod2 := range []module.Version{
		{Path: "example.com/Azure/Mixed/v2", Version: "v2.1.0-pre.1"},
		{Path: "example.com/m", Version: "v2.0.0+incompatible"},
		{Path: "gopkg.in/yaml.v3", Version: "v3.0.1"},
	} {
		var b2 bytes.Buffer
		if err := mzip.Create(&b2, mod2, files); err != nil {
			add("c05:module-variant", "Create succeeds for %v but fails for %v: %v", zipMod, mod2, err)
			continue
		}
		z2 := filepath.Join(dir, "m2.zip")
		os.WriteFile(z2, b2.Bytes(), 0644)
		cf2, err2 := mzip.CheckZip(mod2, z2)
		var want2 []string
		for _, v := range gotV {
			want2 = append(want2, mod2.Path+"@"+mod2.Version+"/"+v)
		}
		if err2 != nil || len(cf2.Invalid) > 0 || !core.Eq(nzs(cf2.Valid), nzs(want2)) {
			add("c05:module-variant", "archive created for %v does not pass CheckZip with exactly the valid files: err %v invalid %q valid %q", mod2, err2, errPaths(cf2.Invalid), cf2.Valid)
		}
	}
	var wantNames []string
	for _, v := range gotV {
		wantNames = append(wantNames, zipPrefix+v)
	}
	if !core.Eq(nzs(zcf.Valid), nzs(wantNames)) {
		add("c05:created-zip-entries", "entries of the created archive %q, valid files %q", zcf.Valid, wantNames)
	}
	out := filepath.Join(dir, "out")
	if err := mzip.Unzip(out, zipMod, zpath); err != nil {
		add("c05:created-zip-does-not-extract", "Unzip of the archive produced by Create fails: %v", err)
		return r
	}
	tree, _ := walkTree(out)
	want := map[string][]byte{}
	for _, f := range fsl {
		for _, v := range gotV {
			if f.Path() == v && f.Mode == "regular" {
				if _, dup := want[v]; !dup {
					if n := classSize(f.Size); n > 0 {
						want[v] = make([]byte, n)
					} else {
						want[v] = f.content()
					}
				}
			}
		}
	}
	var tnames, wnames []string
	for k := range tree {
		tnames = append(tnames, k)
	}
	for k := range want {
		wnames = append(wnames, k)
	}
	sort.Strings(tnames)
	sort.Strings(wnames)
	if !core.Eq(nzs(tnames), nzs(wnames)) {
		add("c05:extracted-tree", "extracted files %q, files reported valid %q", tnames, wnames)
	} else {
		for k, b := range tree {
			if !bytes.Equal(b, want[k]) {
				add("c05:extracted-content", "content of extracted file %q differs from the source file", k)
				break
			}
		}
	}
	// C19: hashing the zip equals hashing the directory it extracts to
	hz, err1 := dirhash.HashZip(zpath, dirhash.Hash1)
	hd, err2 := dirhash.HashDir(out, strings.TrimSuffix(zipPrefix, "/"), dirhash.Hash1)
	if err1 != nil || err2 != nil || hz != hd {
		add("c19:zip-vs-dir", "HashZip=%s (%v) HashDir=%s (%v)", hz, err1, hd, err2)
	} else {
		var names []string
		for k := range tree {
			names = append(names, zipPrefix+k)
		}
		sort.Strings(names)
		if f := formulaHash(names, func(n string) []byte { return tree[strings.TrimPrefix(n, zipPrefix)] }); f != hz {
			add("c19:zip-formula", "HashZip=%s, documented formula gives %s", hz, f)
		}
	}
	return r
}

func checkZipFiles(c *core.Case) ([]core.Violation, bool) {
	var in struct {
		Files []*mzFile `json:"files"`
	}
	if err := json.Unmarshal(c.In, &in); err != nil {
		panic(err)
	}
	var exp struct {
		Valid, Omitted, Invalid [][]int
		Createok                bool
		Sizeerr                 bool
		Ge124                   bool
	}
	json.Unmarshal(c.Exp, &exp)
	r := runZipFiles(c, in.Files)
	var vs []core.Violation
	add := func(sig, format string, a ...any) {
		vs = append(vs, core.Violation{Sig: sig, What: fmt.Sprintf(format, a...) + "; files: " + r.desc, Case: c})
	}
	wantV, wantO, wantI := concrete.Strs(exp.Valid), concrete.Strs(exp.Omitted), concrete.Strs(exp.Invalid)
	// C17: each file lands in the list the documented rules put it in
	if !core.Eq(r.valid, nzs(wantV)) || !core.Eq(r.omitted, nzs(wantO)) || !core.Eq(r.invalid, nzs(wantI)) {
		add("c17:classification", "CheckFiles: valid %q omitted %q invalid %q; the documented rules give valid %q omitted %q invalid %q", r.valid, r.omitted, r.invalid, wantV, wantO, wantI)
	}
	if !r.cfErrOK {
		add("c17:err-inconsistent", "CheckFiles error does not match its report (invalid %q)", r.invalid)
	}
	if r.sizeErr != exp.Sizeerr {
		add("c05:size-verdict", "CheckFiles reports a size error: %v; the files that belong in the archive %s 500 MiB together", r.sizeErr, map[bool]string{true: "exceed", false: "stay within"}[exp.Sizeerr])
	}
	// C05: creation succeeds exactly when nothing is invalid
	if (r.createErr == nil) != exp.Createok {
		add("c05:create-verdict", "Create: err=%v, the file check reports invalid=%q (creation should succeed iff none)", r.createErr, wantI)
	}
	// C05: what a created archive holds (and extracts to, compared above with the list the code reports valid) is the files that
	// belong in it by the documented rules
	if r.createErr == nil && !core.Eq(r.valid, nzs(wantV)) {
		add("c05:archive-content", "the created archive holds %q; the files that belong in it are %q", r.valid, wantV)
	}
	vs = append(vs, r.flags...)
	return vs, len(in.Files) > 1
}

func archiveRestrictions(b []byte) string {
	zr, err := azip.NewReader(bytes.NewReader(b), int64(len(b)))
	if err != nil {
		return "not a zip archive: " + err.Error()
	}
	var rels []string
	for _, f := range zr.File {
		if !strings.HasPrefix(f.Name, zipPrefix) {
			return fmt.Sprintf("entry %q lacks the prefix", f.Name)
		}
		rel := f.Name[len(zipPrefix):]
		if rel == "" || path.Clean(rel) != rel || strings.HasPrefix(rel, "/") || strings.HasPrefix(rel, "../") || rel == ".." {
			return fmt.Sprintf("entry %q is not a clean relative path", f.Name)
		}
		if strings.EqualFold(path.Base(rel), "go.mod") && rel != "go.mod" {
			return fmt.Sprintf("go.mod entry %q is not the lower-case root go.mod", f.Name)
		}
		rels = append(rels, rel)
	}
	ancestors := func(p string) []string {
		var out []string
		for i := 0; i < len(p); i++ {
			if p[i] == '/' {
				out = append(out, p[:i])
			}
		}
		return out
	}
	for i, a := range rels {
		for j, c := range rels {
			if i == j {
				continue
			}
			if strings.EqualFold(a, c) {
				return fmt.Sprintf("entries %q and %q are equal under case folding", a, c)
			}
			for _, d := range ancestors(c) {
				if strings.EqualFold(a, d) {
					return fmt.Sprintf("entry %q is a file and, through %q, a directory", a, c)
				}
				for _, e := range ancestors(a) {
					if d != e && strings.EqualFold(d, e) {
						return fmt.Sprintf("directories %q and %q differ only in case", d, e)
					}
				}
			}
		}
	}
	return ""
}

// treeable: the list can be materialized as a directory tree of regular files (no VCS directories)
func treeable(fs []*mzFile) bool {
	seen := map[string]bool{}
	for _, f := range fs {
		p := f.Path()
		if f.Mode != "regular" || f.LstatErr || classSize(f.Size) > 0 || p == "" || strings.HasPrefix(p, "/") || strings.Contains(p, "\x00") {
			return false
		}
		elems := strings.Split(p, "/")
		for i, e := range elems {
			if e == "" || e == "." || e == ".." {
				return false
			}
			// directories with the names of version-control metadata are outside the property; a regular file of
			// such a name (a git worktree's .git file) is just a file
			if i < len(elems)-1 && (e == ".git" || e == ".hg" || e == ".svn" || e == ".bzr") {
				return false
			}
		}
		if seen[p] {
			return false
		}
		seen[p] = true
	}
	for p := range seen {
		for q := range seen {
			if strings.HasPrefix(q, p+"/") {
				return false // p would have to be a file and a directory
			}
		}
	}
	return true
}

func zipEntries(data []byte) (map[string][]byte, error) {
	zr, err := azip.NewReader(bytes.NewReader(data), int64(len(data)))
	if err != nil {
		return nil, err
	}
	out := map[string][]byte{}
	for _, f := range zr.File {
		rc, err := f.Open()
		if err != nil {
			return nil, err
		}
		b, _ := io.ReadAll(rc)
		rc.Close()
		out[f.Name] = b
	}
	return out, nil
}

func dirVersusList(c *core.Case, fsl []*mzFile, desc string) []core.Violation {
	var vs []core.Violation
	root := scratchDir()
	defer os.RemoveAll(root)
	for _, f := range fsl {
		p := filepath.Join(root, filepath.FromSlash(f.Path()))
		if err := os.MkdirAll(filepath.Dir(p), 0755); err != nil {
			return nil
		}
		if err := os.WriteFile(p, f.content(), 0644); err != nil {
			return nil // the name cannot exist on this file system
		}
	}
	// the list of the tree's files, from an independent walk
	var list []mzip.File
	filepath.Walk(root, func(p string, info os.FileInfo, err error) error {
		if err != nil || info.IsDir() {
			return nil
		}
		rel, _ := filepath.Rel(root, p)
		for _, f := range fsl {
			if f.Path() == filepath.ToSlash(rel) {
				list = append(list, f)
			}
		}
		return nil
	})
	var b1, b2 bytes.Buffer
	e1 := mzip.CreateFromDir(&b1, zipMod, root)
	e2 := mzip.Create(&b2, zipMod, list)
	if (e1 == nil) != (e2 == nil) {
		vs = append(vs, core.Violation{Sig: "c17:dir-vs-list-verdict", What: fmt.Sprintf("CreateFromDir err=%v but Create on the list of the same files err=%v; files: %s", e1, e2, desc), Case: c})
	} else if e1 == nil {
		m1, _ := zipEntries(b1.Bytes())
		m2, _ := zipEntries(b2.Bytes())
		if !core.Eq(keysOf(m1), keysOf(m2)) {
			vs = append(vs, core.Violation{Sig: "c17:dir-vs-list-entries", What: fmt.Sprintf("CreateFromDir includes %q, Create on the list includes %q; files: %s", keysOf(m1), keysOf(m2), desc), Case: c})
		} else {
			for k := range m1 {
				if !bytes.Equal(m1[k], m2[k]) {
					vs = append(vs, core.Violation{Sig: "c17:dir-vs-list-content", What: fmt.Sprintf("entry %q differs between CreateFromDir and Create; files: %s", k, desc), Case: c})
					break
				}
			}
		}
	}
	// the same directory spelled in ways that are not clean: a trailing slash, a doubled separator, a dot element,
	// through a subdirectory and back.  The tree is the same tree.
	if e1 == nil {
		m1, _ := zipEntries(b1.Bytes())
		spellings := []string{root + "/", filepath.Dir(root) + "//" + filepath.Base(root), filepath.Dir(root) + "/./" + filepath.Base(root), root + "/."}
		for _, sp := range spellings {
			var b3 bytes.Buffer
			e3 := mzip.CreateFromDir(&b3, zipMod, sp)
			m3, _ := zipEntries(b3.Bytes())
			if e3 != nil || !core.Eq(keysOf(m1), keysOf(m3)) {
				vs = append(vs, core.Violation{Sig: "c17:dir-spelling", What: fmt.Sprintf("CreateFromDir on the directory spelled %q: err=%v entries %q; spelled cleanly: entries %q; files: %s", strings.Replace(sp, root, "<root>", 1), e3, keysOf(m3), keysOf(m1), desc), Case: c})
				break
			}
		}
	}
	cd, _ := mzip.CheckDir(root)
	cl, _ := mzip.CheckFiles(list)
	rel := func(ps []string) []string {
		out := []string{}
		for _, p := range ps {
			r, _ := filepath.Rel(root, p)
			out = append(out, filepath.ToSlash(r))
		}
		sort.Strings(out)
		return out
	}
	sorted := func(ps []string) []string {
		out := append([]string{}, ps...)
		sort.Strings(out)
		return out
	}
	if !core.Eq(rel(cd.Valid), sorted(cl.Valid)) || !core.Eq(rel(errPaths(cd.Invalid)), sorted(errPaths(cl.Invalid))) {
		vs = append(vs, core.Violation{Sig: "c17:checkdir-vs-checkfiles", What: fmt.Sprintf("CheckDir valid %q invalid %q, CheckFiles valid %q invalid %q; files: %s",
			rel(cd.Valid), rel(errPaths(cd.Invalid)), sorted(cl.Valid), sorted(errPaths(cl.Invalid)), desc), Case: c})
	}
	return vs
}

func keysOf(m map[string][]byte) []string {
	out := []string{}
	for k := range m {
		out = append(out, k)
	}
	sort.Strings(out)
	return out
}

// ---- archives ----

type mzEntry struct {
	Name []int  `json:"name"`
	Size string `json:"size"`
}

func writeRawZip(path string, entries []mzEntry) error {
	f, err := os.Create(path)
	if err != nil {
		return err
	}
	defer f.Close()
	zw := azip.NewWriter(f)
	for i, e := range entries {
		name := concrete.Str(e.Name)
		data := []byte(fmt.Sprintf("entry %d content\n", i))
		switch e.Size {
		case "big":
			w, err := zw.CreateHeader(&azip.FileHeader{Name: name, Method: azip.Deflate})
			if err != nil {
				return err
			}
			io.Copy(w, &zeroReader{bigSize})
		case "dirmode":
			// a file entry (no trailing slash, real content) whose mode bits say "directory"
			fh := &azip.FileHeader{Name: name, Method: azip.Deflate}
			fh.SetMode(fs.ModeDir | 0755)
			w, err := zw.CreateHeader(fh)
			if err != nil {
				return err
			}
			w.Write(data)
		case "lie-more", "lie-less", "lie-zero", "over", "huge":
			// deflate the real content, declare another uncompressed size
			var cb bytes.Buffer
			fw, _ := newFlate(&cb)
			fw.Write(data)
			fw.Close()
			declared := uint64(len(data) - 4)
			switch e.Size {
			case "lie-less":
				declared = uint64(len(data) + 4)
			case "lie-zero":
				declared = 0
			case "over":
				declared = uint64(mzip.MaxZipFile) + 1
			case "huge":
				declared = 1 << 63
			}
			h := &azip.FileHeader{Name: name, Method: azip.Deflate, CRC32: crc(data), CompressedSize64: uint64(cb.Len()), UncompressedSize64: declared}
			w, err := zw.CreateRaw(h)
			if err != nil {
				return err
			}
			w.Write(cb.Bytes())
		default:
			if strings.HasSuffix(name, "/") {
				if _, err := zw.CreateHeader(&azip.FileHeader{Name: name}); err != nil {
					return err
				}
				continue
			}
			w, err := zw.CreateHeader(&azip.FileHeader{Name: name, Method: azip.Deflate})
			if err != nil {
				return err
			}
			w.Write(data)
		}
	}
	return zw.Close()
}

func snapshot(dir string) []string {
	var out []string
	filepath.Walk(dir, func(p string, info os.FileInfo, err error) error {
		if err == nil {
			rel, _ := filepath.Rel(dir, p)
			out = append(out, rel)
		}
		return nil
	})
	sort.Strings(out)
	return out
}

func checkZipArchive(c *core.Case) ([]core.Violation, bool) {
	var in struct {
		Entries []mzEntry `json:"entries"`
	}
	if err := json.Unmarshal(c.In, &in); err != nil {
		panic(err)
	}
	var exp struct {
		Valid, Invalid [][]int
		Unzipok        bool
		Sizeerr        bool
		Tree           [][]int
	}
	json.Unmarshal(c.Exp, &exp)
	var names []string
	for _, e := range in.Entries {
		names = append(names, fmt.Sprintf("%q(%s)", concrete.Str(e.Name), e.Size))
	}
	desc := strings.Join(names, " ")
	var vs []core.Violation
	add := func(sig, format string, a ...any) {
		vs = append(vs, core.Violation{Sig: sig, What: fmt.Sprintf(format, a...) + "; entries: " + desc, Case: c})
	}
	sentinel := scratchDir()
	defer os.RemoveAll(sentinel)
	zdir := scratchDir()
	defer os.RemoveAll(zdir)
	zpath := filepath.Join(zdir, "in.zip")
	if err := writeRawZip(zpath, in.Entries); err != nil {
		core.NoteDrift("cannot write raw archive: " + err.Error() + " " + desc)
		return nil, false
	}
	cf, cerr := mzip.CheckZip(zipMod, zpath)
	gotV, gotI := nzs(cf.Valid), errPaths(cf.Invalid)
	if !core.Eq(gotV, nzs(concrete.Strs(exp.Valid))) || !core.Eq(nzs(gotI), nzs(concrete.Strs(exp.Invalid))) {
		add("c12:checkzip", "CheckZip: valid %q invalid %q (err %v); the documented restrictions give valid %q invalid %q", gotV, gotI, cerr, concrete.Strs(exp.Valid), concrete.Strs(exp.Invalid))
	}
	if (cf.SizeError != nil) != exp.Sizeerr || (cerr == nil) != (len(gotI) == 0 && cf.SizeError == nil) {
		add("c12:size-limit", "CheckZip: size error %v, err %v; the declared sizes %s the limit of %d bytes", cf.SizeError, cerr, map[bool]string{true: "exceed", false: "are within"}[exp.Sizeerr], int64(mzip.MaxZipFile))
	}
	// extraction into a fresh target inside a sentinel directory that must stay untouched otherwise
	os.MkdirAll(filepath.Join(sentinel, "parent", "sibling"), 0755)
	os.WriteFile(filepath.Join(sentinel, "parent", "sibling", "keep"), []byte("keep"), 0644)
	target := filepath.Join(sentinel, "parent", "target")
	before := snapshot(sentinel)
	uerr := mzip.Unzip(target, zipMod, zpath)
	after := snapshot(sentinel)
	var outside []string
	bset := map[string]bool{}
	for _, p := range before {
		bset[p] = true
	}
	for _, p := range after {
		if !bset[p] && !strings.HasPrefix(p, filepath.Join("parent", "target")) {
			outside = append(outside, p)
		}
	}
	if len(outside) > 0 {
		add("c12:escape", "Unzip created paths outside the target directory: %q (err %v)", outside, uerr)
	}
	if b, _ := os.ReadFile(filepath.Join(sentinel, "parent", "sibling", "keep")); string(b) != "keep" {
		add("c12:escape", "Unzip modified a file outside the target directory")
	}
	if (uerr == nil) != exp.Unzipok {
		add("c12:unzip-verdict", "Unzip err=%v; extraction should succeed exactly when the zip check accepts and sizes match (expected ok=%v, CheckZip err %v)", uerr, exp.Unzipok, cerr)
	}
	if uerr == nil {
		tree, _ := walkTree(target)
		var got []string
		for k := range tree {
			got = append(got, k)
		}
		sort.Strings(got)
		want := concrete.Strs(exp.Tree)
		sort.Strings(want)
		if !core.Eq(nzs(got), nzs(want)) {
			add("c12:tree", "extracted tree %q, entries say %q", got, want)
		}
		// a second extraction into the now non-empty target must be refused
		if err := mzip.Unzip(target, zipMod, zpath); err == nil && len(got) > 0 {
			add("c12:nonempty-target", "Unzip into a non-empty target directory succeeded")
		}
		// a target that is not empty and whose first-level names are links leading out of it: whatever happens,
		// nothing may appear outside the target
		if len(got) > 0 {
			t2 := filepath.Join(sentinel, "parent", "target2")
			outside := filepath.Join(sentinel, "parent", "outside")
			os.MkdirAll(t2, 0755)
			os.MkdirAll(outside, 0755)
			os.WriteFile(filepath.Join(t2, "stale"), []byte("stale"), 0644)
			linked := map[string]bool{}
			for _, k := range got {
				first := strings.SplitN(k, "/", 2)[0]
				if first != k && !linked[first] {
					linked[first] = true
					os.Symlink("../outside", filepath.Join(t2, first))
				}
			}
			beforeOut := snapshot(outside)
			err := mzip.Unzip(t2, zipMod, zpath)
			if afterOut := snapshot(outside); !core.Eq(beforeOut, afterOut) {
				add("c12:escape", "Unzip into a non-empty target with a link leading out of it (err=%v) created %q outside the target", err, afterOut)
			} else if err == nil {
				add("c12:nonempty-target", "Unzip into a non-empty target directory succeeded")
			}
		}
	}
	return vs, len(in.Entries) > 1
}

var zipElems = []string{"a", "A", "b.go", "go.mod", "GO.MOD", "vendor", "modules.txt", "sub", "é", "É", "\u212a", "k", "\u017f", "s", "con", "aux.txt", "a~1", "a b",
	".", "..", "a.", ".hg_archival.txt", "LICENSE", "中", "pkg", "x.go", "Sub", "v2", "internal", "x*y", "aux.tar.gz", "example.com", "m@v1.0.0", "\u00b5", "\u039c", "\u03bc", "\u03b2", "\u0392"}

var zipBenign = []string{"a", "b.go", "pkg", "sub", "x.go", "é", "v2", "internal", "LICENSE", "中", "k", "s", "a b", "vendor", "go.mod", "A", "Sub", "\u039c", "\u03bc"}

func randZipPath(rng *rand.Rand, benign bool) string {
	n := 1 + rng.Intn(4)
	parts := make([]string, n)
	if benign {
		for i := range parts {
			parts[i] = zipBenign[rng.Intn(len(zipBenign))]
		}
		return strings.Join(parts, "/")
	}
	for i := range parts {
		parts[i] = zipElems[rng.Intn(len(zipElems))]
		if rng.Intn(3) == 0 {
			parts[i] = []string{"a", "b.go", "pkg", "sub", "vendor", "x.go"}[rng.Intn(6)]
		}
	}
	p := strings.Join(parts, "/")
	switch rng.Intn(25) {
	case 0:
		p = "/" + p
	case 1:
		p += "/"
	case 2:
		p = strings.Replace(p, "/", "//", 1)
	}
	return p
}

// Record: random larger file lists and archives.
func (w *modzipWorld) Record(rng *rand.Rand, n int, emit func(k string, in, obs any)) {
	for i := 0; i < n; i++ {
		if rng.Intn(3) == 0 {
			// an archive
			m := 1 + rng.Intn(12)
			benign := rng.Intn(2) == 0
			var entries []mzEntry
			var ev []map[string]any
			for j := 0; j < m; j++ {
				name := zipPrefix + randZipPath(rng, benign)
				k := rng.Intn(14)
				if benign {
					k = 4 + rng.Intn(60)
				}
				switch k {
				case 0:
					name = strings.Replace(name, "example.com/m", "example.com/M", 1)
				case 1:
					name = strings.TrimPrefix(name, zipPrefix)
				case 2:
					name = zipPrefix + "../" + randZipPath(rng, false)
				case 3:
					name += "/"
				}
				size := "ok"
				if !benign && rng.Intn(40) == 0 {
					size = []string{"over", "huge"}[rng.Intn(2)]
				} else if !benign && rng.Intn(20) == 0 {
					size = []string{"lie-more", "lie-less", "lie-zero"}[rng.Intn(3)]
				}
				entries = append(entries, mzEntry{Name: concrete.Ints(name), Size: size})
				ev = append(ev, map[string]any{"name": concrete.Ints(name), "size": size})
			}
			raw, _ := json.Marshal(map[string]any{"entries": entries})
			vs, _ := checkZipArchive(&core.Case{W: "modzip", K: "ziprec", In: raw})
			obs := zipArchiveObs(entries)
			if obs["writeerr"] != nil {
				continue
			}
			obs["noescape"] = true
			for _, v := range vs {
				if v.Sig == "c12:escape" || v.Sig == "c12:nonempty-target" {
					obs["noescape"] = false
				}
			}
			emit("zip", map[string]any{"entries": ev}, obs)
			continue
		}
		m := 1 + rng.Intn(30)
		benign := rng.Intn(2) == 0
		var fsl []*mzFile
		var ev []map[string]any
		for j := 0; j < m; j++ {
			f := &mzFile{P: concrete.Ints(randZipPath(rng, benign)), Mode: "regular", Size: "small", Gover: "none"}
			k := rng.Intn(12)
			if benign {
				k = rng.Intn(40)
				if k == 3 {
					k = 4
				}
			}
			switch k {
			case 0:
				f.Mode = "dir"
			case 1:
				f.Mode = "symlink"
			case 2:
				f.Mode = "irregular"
			case 3:
				f.LstatErr = true
			}
			if f.Path() == "go.mod" {
				f.Gover = []string{"none", "old", "new", "bad"}[rng.Intn(4)]
			}
			fsl = append(fsl, f)
			ev = append(ev, map[string]any{"path": f.P, "mode": f.Mode, "size": f.Size, "lstat": f.LstatErr, "gover": f.Gover})
		}
		r := runZipFiles(nil, fsl)
		flags := map[string]bool{"roundtrip": true, "dirlist": true, "hash": true}
		for _, v := range r.flags {
			switch {
			case strings.HasPrefix(v.Sig, "c05:"):
				flags["roundtrip"] = false
			case strings.HasPrefix(v.Sig, "c17:"):
				flags["dirlist"] = false
			case strings.HasPrefix(v.Sig, "c19:"):
				flags["hash"] = false
			}
		}
		emit("files", map[string]any{"files": ev}, map[string]any{"valid": concrete.IntsList(r.valid), "omitted": concrete.IntsList(r.omitted), "invalid": concrete.IntsList(r.invalid),
			"createok": r.createErr == nil, "errok": r.cfErrOK, "flags": flags})
	}
}

// zipArchiveObs observes CheckZip and Unzip on a raw archive.
func zipArchiveObs(entries []mzEntry) map[string]any {
	zdir := scratchDir()
	defer os.RemoveAll(zdir)
	zpath := filepath.Join(zdir, "in.zip")
	if err := writeRawZip(zpath, entries); err != nil {
		return map[string]any{"valid": [][]int{}, "invalid": [][]int{}, "unzipok": false, "tree": [][]int{}, "writeerr": true}
	}
	cf, _ := mzip.CheckZip(zipMod, zpath)
	target := filepath.Join(zdir, "t")
	uerr := mzip.Unzip(target, zipMod, zpath)
	tree := []string{}
	if uerr == nil {
		tr, _ := walkTree(target)
		for k := range tr {
			tree = append(tree, k)
		}
		sort.Strings(tree)
	}
	return map[string]any{"valid": concrete.IntsList(nzs(cf.Valid)), "invalid": concrete.IntsList(nzs(errPaths(cf.Invalid))), "sizeerr": cf.SizeError != nil, "unzipok": uerr == nil, "tree": concrete.IntsList(tree)}
}
