//go:build verif

package worlds

import "golang.org/x/mod/sumdb"

func installVerifHook() { sumdb.VerifHook = dispatchHook }
