package worlds

import (
	"encoding/json"
	"fmt"
	"math/rand"
	"os"
	"sort"
	"strconv"
	"strings"
	"sync"
	"unicode"

	"golang.org/x/mod/modfile"
	"golang.org/x/mod/module"

	"verifharness/internal/core"
)

func init() { core.Register("modfile", func() core.World { return &modfileWorld{} }) }

type modfileWorld struct{}

// ---- layouts (specification -> text) ----

type mfItem struct {
	// value fields (per verb)
	V   string `json:"v,omitempty"`
	P   string `json:"p,omitempty"`
	Ind bool   `json:"ind,omitempty"`
	Op  string `json:"op,omitempty"`
	Ov  string `json:"ov,omitempty"`
	Np  string `json:"np,omitempty"`
	Nv  string `json:"nv,omitempty"`
	Lo  string `json:"lo,omitempty"`
	Hi  string `json:"hi,omitempty"`
	K   string `json:"k,omitempty"`
	Rat string `json:"rat,omitempty"`
	// comment identities
	Cb string `json:"cb"`
	Cs string `json:"cs"`
}

type mfStmt struct {
	Verb  string   `json:"verb"`
	Form  string   `json:"form"`
	Bc    string   `json:"bc"`
	Items []mfItem `json:"items"`
}

type mfOp struct {
	Name string            `json:"name"`
	A    []string          `json:"a"`
	B    bool              `json:"b"`
	L    []json.RawMessage `json:"l"`
}

func (o mfOp) String() string {
	var args []string
	for _, a := range o.A {
		if a != "" {
			args = append(args, a)
		}
	}
	s := o.Name + "(" + strings.Join(args, ",")
	if len(o.L) > 0 {
		var parts []string
		for _, l := range o.L {
			parts = append(parts, string(l))
		}
		s += "[" + strings.Join(parts, " ") + "]"
	}
	return s + ")"
}

// mfState is the model-shaped projection of a file.
type mfState struct {
	Kind    string   `json:"kind"`
	Mod     string   `json:"mod"`
	Gov     string   `json:"gov"`
	Tc      string   `json:"tc"`
	Godebug []mfItem `json:"godebug"`
	Require []mfItem `json:"require"`
	Exclude []mfItem `json:"exclude"`
	Replace []mfItem `json:"replace"`
	Retract []mfItem `json:"retract"`
	Tool    []mfItem `json:"tool"`
	Use     []mfItem `json:"use"`
}

// renderQuote is the renderer's own quoting (not the package's AutoQuote, which is code under test): a double-quoted
// Go string whenever the bare text would not be one identifier token of the go.mod grammar.
func renderQuote(s string) string {
	need := s == "" || strings.Contains(s, "//") || strings.Contains(s, "/*")
	for _, r := range s {
		if r <= ' ' || r == '"' || r == '\'' || r == '`' || r == '(' || r == ')' || r == '[' || r == ']' || r == '{' || r == '}' || r == ',' || r == 0x7f || !unicode.IsPrint(r) {
			need = true
		}
	}
	if need {
		return strconv.Quote(s)
	}
	return s
}

func itemArgs(verb string, it mfItem) string {
	switch verb {
	case "module", "go", "toolchain":
		return renderQuote(it.V)
	case "require", "exclude":
		return it.P + " " + it.V
	case "replace":
		s := it.Op
		if it.Ov != "" {
			s += " " + it.Ov
		}
		s += " => " + renderQuote(it.Np)
		if it.Nv != "" {
			s += " " + it.Nv
		}
		return s
	case "retract":
		if it.Lo == it.Hi {
			return it.Lo
		}
		return "[" + it.Lo + ", " + it.Hi + "]"
	case "tool", "use":
		return renderQuote(it.P)
	case "godebug":
		return it.K + "=" + it.V
	}
	panic("verb " + verb)
}

func suffixOf(verb string, it mfItem) string {
	if verb == "require" && it.Ind {
		if it.Cs != "" {
			return " // indirect; " + it.Cs
		}
		return " // indirect"
	}
	if it.Cs != "" {
		return " // " + it.Cs
	}
	return ""
}

// renderLayout is the trusted renderer from a specification layout to file text.
func renderLayout(layout []mfStmt) string { return renderLayoutOpt(layout, false) }

// renderLayoutOpt: with blankBeforeComments, commented lines inside blocks are set off by an empty line
// (the layout people use for a group with its own explanation)
func renderLayoutOpt(layout []mfStmt, blankBeforeComments bool) string {
	var sb strings.Builder
	for _, st := range layout {
		if st.Form == "line" {
			it := st.Items[0]
			if it.Cb != "" {
				for _, l := range strings.Split(it.Cb, "\n") {
					sb.WriteString("// " + l + "\n")
				}
			}
			sb.WriteString(st.Verb + " " + itemArgs(st.Verb, it) + suffixOf(st.Verb, it) + "\n")
			continue
		}
		if st.Bc != "" {
			sb.WriteString("// " + st.Bc + "\n")
		}
		sb.WriteString(st.Verb + " (\n")
		for i, it := range st.Items {
			if it.Cb != "" {
				if blankBeforeComments && i > 0 {
					sb.WriteString("\n")
				}
				for _, l := range strings.Split(it.Cb, "\n") {
					sb.WriteString("\t// " + l + "\n")
				}
			}
			sb.WriteString("\t" + itemArgs(st.Verb, it) + suffixOf(st.Verb, it) + "\n")
		}
		sb.WriteString(")\n")
	}
	return sb.String()
}

// ---- projections (real file -> model shape) ----

func commentTexts(cs []modfile.Comment) []string {
	var out []string
	for _, c := range cs {
		t := strings.TrimSpace(strings.TrimPrefix(c.Token, "//"))
		if t != "" {
			out = append(out, t)
		}
	}
	return out
}

func lineComments(l *modfile.Line) (cb, cs string) {
	if l == nil {
		return "", ""
	}
	return strings.Join(commentTexts(l.Before), "\n"), strings.Join(commentTexts(l.Suffix), "\n")
}

// projectMod projects the exported fields of a go.mod File.  Cleared placeholder entries
// (zero values left behind by Drop operations) are reported in holes.
func projectMod(f *modfile.File) (st mfState, holes []string) {
	st.Kind = "mod"
	if f.Module != nil {
		st.Mod = f.Module.Mod.Path
	}
	if f.Go != nil {
		st.Gov = f.Go.Version
	}
	if f.Toolchain != nil {
		st.Tc = f.Toolchain.Name
	}
	for _, g := range f.Godebug {
		if g == nil || g.Key == "" || g.Syntax == nil {
			holes = append(holes, "godebug")
			continue
		}
		cb, cs := lineComments(g.Syntax)
		st.Godebug = append(st.Godebug, mfItem{K: g.Key, V: g.Value, Cb: cb, Cs: cs})
	}
	for _, r := range f.Require {
		if r == nil || r.Mod.Path == "" || r.Syntax == nil {
			holes = append(holes, "require")
			continue
		}
		cb, cs := lineComments(r.Syntax)
		st.Require = append(st.Require, mfItem{P: r.Mod.Path, V: r.Mod.Version, Ind: r.Indirect, Cb: cb, Cs: cs})
	}
	for _, x := range f.Exclude {
		if x == nil || x.Mod.Path == "" || x.Syntax == nil {
			holes = append(holes, "exclude")
			continue
		}
		cb, cs := lineComments(x.Syntax)
		st.Exclude = append(st.Exclude, mfItem{P: x.Mod.Path, V: x.Mod.Version, Cb: cb, Cs: cs})
	}
	for _, r := range f.Replace {
		if r == nil || r.Old.Path == "" || r.Syntax == nil {
			holes = append(holes, "replace")
			continue
		}
		cb, cs := lineComments(r.Syntax)
		st.Replace = append(st.Replace, mfItem{Op: r.Old.Path, Ov: r.Old.Version, Np: r.New.Path, Nv: r.New.Version, Cb: cb, Cs: cs})
	}
	for _, r := range f.Retract {
		if r == nil || (r.Low == "" && r.High == "") || r.Syntax == nil {
			holes = append(holes, "retract")
			continue
		}
		st.Retract = append(st.Retract, mfItem{Lo: r.Low, Hi: r.High, Rat: r.Rationale})
	}
	for _, t := range f.Tool {
		if t == nil || t.Path == "" || t.Syntax == nil {
			holes = append(holes, "tool")
			continue
		}
		cb, cs := lineComments(t.Syntax)
		st.Tool = append(st.Tool, mfItem{P: t.Path, Cb: cb, Cs: cs})
	}
	return
}

func projectWork(f *modfile.WorkFile) (st mfState, holes []string) {
	st.Kind = "work"
	if f.Go != nil {
		st.Gov = f.Go.Version
	}
	if f.Toolchain != nil {
		st.Tc = f.Toolchain.Name
	}
	for _, g := range f.Godebug {
		if g == nil || g.Key == "" || g.Syntax == nil {
			holes = append(holes, "godebug")
			continue
		}
		cb, cs := lineComments(g.Syntax)
		st.Godebug = append(st.Godebug, mfItem{K: g.Key, V: g.Value, Cb: cb, Cs: cs})
	}
	for _, u := range f.Use {
		if u == nil || u.Path == "" || u.Syntax == nil {
			holes = append(holes, "use")
			continue
		}
		cb, cs := lineComments(u.Syntax)
		st.Use = append(st.Use, mfItem{P: u.Path, Cb: cb, Cs: cs})
	}
	for _, r := range f.Replace {
		if r == nil || r.Old.Path == "" || r.Syntax == nil {
			holes = append(holes, "replace")
			continue
		}
		cb, cs := lineComments(r.Syntax)
		st.Replace = append(st.Replace, mfItem{Op: r.Old.Path, Ov: r.Old.Version, Np: r.New.Path, Nv: r.New.Version, Cb: cb, Cs: cs})
	}
	return
}

// value keys of the entries of one collection (comment identities left out)
func valueKeys(col string, items []mfItem, withRat bool) []string {
	out := make([]string, len(items))
	for i, it := range items {
		switch col {
		case "require":
			out[i] = fmt.Sprintf("%s %s ind=%v", it.P, it.V, it.Ind)
		case "exclude":
			out[i] = it.P + " " + it.V
		case "replace":
			out[i] = fmt.Sprintf("%s@%s => %s@%s", it.Op, it.Ov, it.Np, it.Nv)
		case "retract":
			out[i] = "[" + it.Lo + "," + it.Hi + "]"
			if withRat {
				out[i] += " why=" + it.Rat
			}
		case "tool", "use":
			out[i] = it.P
		case "godebug":
			out[i] = it.K + "=" + it.V
		}
	}
	sort.Strings(out)
	return out
}

var mfCollections = []string{"godebug", "require", "exclude", "replace", "retract", "tool", "use"}

func colOf(st *mfState, col string) []mfItem {
	switch col {
	case "godebug":
		return st.Godebug
	case "require":
		return st.Require
	case "exclude":
		return st.Exclude
	case "replace":
		return st.Replace
	case "retract":
		return st.Retract
	case "tool":
		return st.Tool
	case "use":
		return st.Use
	}
	return nil
}

// diffStates lists the collections (as multisets of values) in which a and b differ.
func diffStates(a, b *mfState) []string {
	var out []string
	if a.Mod != b.Mod {
		out = append(out, "module")
	}
	if a.Gov != b.Gov {
		out = append(out, "go")
	}
	if a.Tc != b.Tc {
		out = append(out, "toolchain")
	}
	for _, col := range mfCollections {
		ka, kb := valueKeys(col, colOf(a, col), false), valueKeys(col, colOf(b, col), false)
		if strings.Join(ka, "|") != strings.Join(kb, "|") {
			out = append(out, col)
		} else if col == "retract" {
			if strings.Join(valueKeys(col, colOf(a, col), true), "|") != strings.Join(valueKeys(col, colOf(b, col), true), "|") {
				out = append(out, "rationale")
			}
		}
	}
	return out
}

// lostComments lists model entries whose comment identities are not found on an entry with the same value.
func lostComments(model, real *mfState) []string {
	var out []string
	for _, col := range mfCollections {
		if col == "retract" {
			continue // the comments of a retraction are its rationale, compared as a value
		}
		used := map[int]bool{}
		ritems := colOf(real, col)
		rkeys := make([]string, len(ritems))
		for i := range ritems {
			rkeys[i] = valueKeys(col, ritems[i:i+1], false)[0]
		}
		for _, mi := range colOf(model, col) {
			if mi.Cb == "" && mi.Cs == "" {
				continue
			}
			mk := valueKeys(col, []mfItem{mi}, false)[0]
			found := false
			for j, rk := range rkeys {
				if used[j] || rk != mk {
					continue
				}
				all := ritems[j].Cb + "\n" + ritems[j].Cs
				if (mi.Cb == "" || strings.Contains(all, mi.Cb)) && (mi.Cs == "" || strings.Contains(all, mi.Cs)) {
					used[j] = true
					found = true
					break
				}
			}
			if !found {
				out = append(out, fmt.Sprintf("%s entry %s lost its comments (lead %q, end-of-line %q)", col, mk, mi.Cb, mi.Cs))
			}
		}
	}
	return out
}

// ---- applying operations ----

type mfFile struct {
	mod  *modfile.File
	work *modfile.WorkFile
}

func parseMF(kind, text string) (*mfFile, error) {
	if kind == "work" {
		f, err := modfile.ParseWork("go.work", []byte(text), nil)
		return &mfFile{work: f}, err
	}
	f, err := modfile.Parse("go.mod", []byte(text), nil)
	return &mfFile{mod: f}, err
}

func (f *mfFile) cleanup() {
	if f.mod != nil {
		f.mod.Cleanup()
	} else {
		f.work.Cleanup()
	}
}

func (f *mfFile) format() ([]byte, error) {
	if f.mod != nil {
		return f.mod.Format()
	}
	return modfile.Format(f.work.Syntax), nil
}

func (f *mfFile) project() (mfState, []string) {
	if f.mod != nil {
		return projectMod(f.mod)
	}
	return projectWork(f.work)
}

func isBulk(name string) bool {
	return name == "SetRequire" || name == "SetRequireSeparateIndirect" || name == "SetUse"
}

type reqL struct {
	P   string `json:"p"`
	V   string `json:"v"`
	Ind bool   `json:"ind"`
}

func (f *mfFile) apply(o mfOp) error {
	a := func(i int) string {
		if i < len(o.A) {
			return o.A[i]
		}
		return ""
	}
	if f.mod != nil {
		m := f.mod
		switch o.Name {
		case "AddModuleStmt":
			return m.AddModuleStmt(a(0))
		case "AddGoStmt":
			return m.AddGoStmt(a(0))
		case "DropGoStmt":
			m.DropGoStmt()
			return nil
		case "AddToolchainStmt":
			return m.AddToolchainStmt(a(0))
		case "DropToolchainStmt":
			m.DropToolchainStmt()
			return nil
		case "AddGodebug":
			return m.AddGodebug(a(0), a(1))
		case "DropGodebug":
			return m.DropGodebug(a(0))
		case "AddRequire":
			return m.AddRequire(a(0), a(1))
		case "AddNewRequire":
			m.AddNewRequire(a(0), a(1), o.B)
			return nil
		case "DropRequire":
			return m.DropRequire(a(0))
		case "AddExclude":
			return m.AddExclude(a(0), a(1))
		case "DropExclude":
			return m.DropExclude(a(0), a(1))
		case "AddReplace":
			return m.AddReplace(a(0), a(1), a(2), a(3))
		case "DropReplace":
			return m.DropReplace(a(0), a(1))
		case "AddRetract":
			return m.AddRetract(modfile.VersionInterval{Low: a(0), High: a(1)}, a(2))
		case "DropRetract":
			return m.DropRetract(modfile.VersionInterval{Low: a(0), High: a(1)})
		case "AddTool":
			return m.AddTool(a(0))
		case "DropTool":
			return m.DropTool(a(0))
		case "SortBlocks":
			m.SortBlocks()
			return nil
		case "Cleanup":
			m.Cleanup()
			return nil
		case "SetRequire", "SetRequireSeparateIndirect":
			var reqs []*modfile.Require
			for _, raw := range o.L {
				var r reqL
				json.Unmarshal(raw, &r)
				reqs = append(reqs, &modfile.Require{Mod: module.Version{Path: r.P, Version: r.V}, Indirect: r.Ind})
			}
			if o.Name == "SetRequire" {
				m.SetRequire(reqs)
			} else {
				m.SetRequireSeparateIndirect(reqs)
			}
			return nil
		}
		panic("unknown go.mod operation " + o.Name)
	}
	w := f.work
	switch o.Name {
	case "AddGoStmt":
		return w.AddGoStmt(a(0))
	case "DropGoStmt":
		w.DropGoStmt()
		return nil
	case "AddToolchainStmt":
		return w.AddToolchainStmt(a(0))
	case "DropToolchainStmt":
		w.DropToolchainStmt()
		return nil
	case "AddGodebug":
		return w.AddGodebug(a(0), a(1))
	case "DropGodebug":
		return w.DropGodebug(a(0))
	case "AddUse":
		return w.AddUse(a(0), "")
	case "AddNewUse":
		w.AddNewUse(a(0), "")
		return nil
	case "DropUse":
		return w.DropUse(a(0))
	case "SetUse":
		var uses []*modfile.Use
		for _, raw := range o.L {
			var p string
			json.Unmarshal(raw, &p)
			uses = append(uses, &modfile.Use{Path: p})
		}
		w.SetUse(uses)
		return nil
	case "AddReplace":
		return w.AddReplace(a(0), a(1), a(2), a(3))
	case "DropReplace":
		return w.DropReplace(a(0), a(1))
	case "SortBlocks":
		w.SortBlocks()
		return nil
	case "Cleanup":
		w.Cleanup()
		return nil
	}
	panic("unknown go.work operation " + o.Name)
}

type sessionIn struct {
	Kind   string   `json:"kind"`
	Layout []mfStmt `json:"layout"`
	Text   string   `json:"text"` // recorded sessions carry the text instead of a layout
	Ops    []mfOp   `json:"ops"`
}

type sessionStep struct {
	Err bool    `json:"err"`
	M   mfState `json:"m"`
}

// runPrefix applies ops[:n] to a fresh parse (Cleanup before bulk setters and at the end), formats and
// re-parses.  It returns the projections of the exported fields and of the strict re-parse.
func runPrefix(kind, text string, ops []mfOp) (structSt, fileSt mfState, holes []string, lastErr error, out string, perr error, ferr error) {
	f, err := parseMF(kind, text)
	if err != nil {
		return mfState{}, mfState{}, nil, nil, "", nil, fmt.Errorf("initial text does not parse: %v", err)
	}
	for _, o := range ops {
		if isBulk(o.Name) {
			f.cleanup()
		}
		lastErr = f.apply(o)
	}
	f.cleanup()
	data, err := f.format()
	if err != nil {
		return mfState{}, mfState{}, nil, lastErr, "", err, nil
	}
	out = string(data)
	structSt, holes = f.project()
	g, err := parseMF(kind, out)
	if err != nil {
		return structSt, mfState{}, holes, lastErr, out, err, nil
	}
	fileSt, _ = g.project()
	return structSt, fileSt, holes, lastErr, out, nil, nil
}

func (w *modfileWorld) Check(c *core.Case) ([]core.Violation, bool) {
	switch c.K {
	case "session":
		return checkSession(c)
	case "bulk", "bulkrec":
		return checkBulk(c)
	}
	panic("modfile: unknown case kind " + c.K)
}

func (w *modfileWorld) Finish() []core.Violation { return nil }

func checkSession(c *core.Case) ([]core.Violation, bool) {
	var in sessionIn
	if err := json.Unmarshal(c.In, &in); err != nil {
		panic(err)
	}
	var exp struct {
		Init  mfState       `json:"init"`
		After []sessionStep `json:"after"`
	}
	if err := json.Unmarshal(c.Exp, &exp); err != nil {
		panic(err)
	}
	n := len(in.Ops)
	if n == 0 || n > len(exp.After) {
		return nil, false
	}
	if in.Text == "" {
		// a generated layout is run in two renderings: compact, and with commented block lines set off by an empty line
		vs, nt := sessionOnText(c, &in, renderLayout(in.Layout), exp.After)
		if alt := renderLayoutOpt(in.Layout, true); alt != renderLayout(in.Layout) {
			vs2, _ := sessionOnText(c, &in, alt, exp.After)
			have := map[string]bool{}
			for _, v := range vs {
				have[v.Sig] = true
			}
			for _, v := range vs2 {
				if !have[v.Sig] {
					vs = append(vs, v)
				}
			}
		}
		return vs, nt
	}
	return sessionOnText(c, &in, in.Text, exp.After)
}

func sessionOnText(c *core.Case, inp *sessionIn, text string, after []sessionStep) ([]core.Violation, bool) {
	in := *inp
	n := len(in.Ops)
	exp := struct{ After []sessionStep }{after}
	// find the first prefix at which something goes wrong, so that the report names the operation responsible
	// (the search goes on after the first finding: a divergence between structure and file, C15, at one
	//  operation may become a wrong file, C08, only some operations later; each signature is reported once)
	var all []core.Violation
	seen := map[string]bool{}
	for i := 1; i <= n; i++ {
		vs, bad := checkPrefix(&in, text, in.Ops[:i], exp.After[i-1])
		if bad {
			return all, false
		}
		for j := range vs {
			p := vs[j].Sig[:strings.Index(vs[j].Sig, ":")+1]
			if seen[p] {
				continue // the first finding per property names the operation responsible
			}
			vs[j].Case = c
			all = append(all, vs[j])
		}
		for j := range vs {
			seen[vs[j].Sig[:strings.Index(vs[j].Sig, ":")+1]] = true
		}
		if seen["c08:"] && seen["c15:"] {
			break
		}
	}
	return all, true
}

// rationaleKind classifies a difference between retraction rationales.
func rationaleKind(a, b *mfState) string {
	// a: expected / in-memory, b: strict parse of the formatted file
	ka, kb := map[string][]string{}, map[string][]string{}
	for _, it := range a.Retract {
		k := it.Lo + "," + it.Hi
		ka[k] = append(ka[k], it.Rat)
	}
	for _, it := range b.Retract {
		k := it.Lo + "," + it.Hi
		kb[k] = append(kb[k], it.Rat)
	}
	kind := ""
	for k, ra := range ka {
		rb := kb[k]
		sort.Strings(ra)
		sort.Strings(rb)
		for i := range ra {
			if i >= len(rb) || ra[i] == rb[i] {
				continue
			}
			switch {
			case ra[i] == "" && rb[i] != "":
				kind = "inherits-block-comment"
			case strings.HasSuffix(rb[i], "\n"+ra[i]):
				if kind == "" {
					kind = "block-comment-prepended"
				}
			default:
				return "differs"
			}
		}
	}
	if kind == "" {
		return "differs"
	}
	return kind
}

func checkPrefix(in *sessionIn, text string, ops []mfOp, want sessionStep) ([]core.Violation, bool) {
	var vs []core.Violation
	last := ops[len(ops)-1]
	structSt, fileSt, holes, lastErr, out, perr, ierr := runPrefix(in.Kind, text, ops)
	if ierr != nil {
		core.NoteDrift("modfile layout rejected by the parser: " + ierr.Error() + "\n" + text)
		return nil, true
	}
	desc := fmt.Sprintf("after %v on\n%s", ops, text)
	if perr != nil {
		// the file the structure was parsed from, edited and formatted, is no longer a file: wrong for C08 (the
		// documented effect is a file) and for C15 (structure and syntax tree have come apart)
		what := fmt.Sprintf("formatted file does not parse strictly (%v) %s\noutput:\n%s", perr, desc, out)
		return []core.Violation{{Sig: "c08:" + last.Name + ":output-does-not-parse", What: what}, {Sig: "c15:" + last.Name + ":output-does-not-parse", What: what}}, false
	}
	if (lastErr != nil) != want.Err {
		vs = append(vs, core.Violation{Sig: "c08:" + last.Name + ":error", What: fmt.Sprintf("%v returned err=%v, documented behaviour says error=%v; %s", last, lastErr, want.Err, desc)})
	}
	// C08: the re-parsed file is what the model predicts
	for _, col := range diffStates(&want.M, &fileSt) {
		sig := "c08:" + last.Name + ":" + col
		if col == "rationale" {
			// The comments of a retraction are its rationale.  C08 asks that a line keeps its own comments;
			// collapsing a one-line block legitimately adds the block's comments in front of them, so the
			// model's rationale has to be the tail of the file's, not equal to it (equality is C15's business).
			kind := rationaleKind(&want.M, &fileSt)
			if kind == "block-comment-prepended" || kind == "inherits-block-comment" {
				continue
			}
			sig = "c08:Cleanup:rationale:" + kind
		}
		vs = append(vs, core.Violation{Sig: sig, What: fmt.Sprintf("%s directives of the formatted file differ from the model: file %v, model %v; %s\noutput:\n%s", col, describe(&fileSt, col), describe(&want.M, col), desc, out)})
	}
	for _, l := range lostComments(&want.M, &fileSt) {
		vs = append(vs, core.Violation{Sig: "c08:" + last.Name + ":comments", What: l + "; " + desc + "\noutput:\n" + out})
	}
	// C15: exported fields equal the strict re-parse, and hold no cleared placeholders
	for _, col := range diffStates(&structSt, &fileSt) {
		sig := "c15:" + last.Name + ":" + col
		if col == "rationale" {
			sig = "c15:Cleanup:rationale:" + rationaleKind(&structSt, &fileSt)
		}
		vs = append(vs, core.Violation{Sig: sig, What: fmt.Sprintf("%s: in-memory structure %v, strict parse of the formatted file %v; %s\noutput:\n%s", col, describe(&structSt, col), describe(&fileSt, col), desc, out)})
	}
	for _, h := range holes {
		vs = append(vs, core.Violation{Sig: "c15:" + last.Name + ":placeholder-" + h, What: fmt.Sprintf("the %s list of the in-memory structure still holds a cleared entry after Cleanup; %s", h, desc)})
	}
	return vs, false
}

func describe(st *mfState, col string) string {
	switch col {
	case "module":
		return st.Mod
	case "go":
		return st.Gov
	case "toolchain":
		return st.Tc
	case "rationale":
		return fmt.Sprint(valueKeys("retract", st.Retract, true))
	}
	return fmt.Sprint(valueKeys(col, colOf(st, col), false))
}

// ---- C16: bulk setters ----

type bulkLine struct {
	Tokens []string `json:"tokens"` // as written (blocks are sorted by the written tokens)
	Vals   []string `json:"vals"`   // as read (a double-quoted token stands for its value)
	Cb     string   `json:"cb"`
	Cs     string   `json:"cs"`
}

type bulkBlock struct {
	Verb  string     `json:"verb"`
	Block bool       `json:"block"`
	Lines []bulkLine `json:"lines"`
}

// blockStructure reports the statements of a syntax tree: verb, whether it is a block, and per line the
// tokens (without the verb) with the leading and end-of-line comment texts.
// tokenValues: tokens as the directive layer reads them (a double-quoted token stands for its value)
func tokenValues(toks []string) []string {
	out := make([]string, len(toks))
	for i, t := range toks {
		out[i] = t
		if strings.HasPrefix(t, "\"") {
			if v, err := strconv.Unquote(t); err == nil {
				out[i] = v
			}
		}
	}
	return out
}

func blockStructure(fs *modfile.FileSyntax) []bulkBlock {
	var out []bulkBlock
	for _, st := range fs.Stmt {
		switch x := st.(type) {
		case *modfile.Line:
			if len(x.Token) == 0 {
				continue
			}
			cb, cs := lineComments(x)
			out = append(out, bulkBlock{Verb: x.Token[0], Lines: []bulkLine{{Tokens: append([]string{}, x.Token[1:]...), Vals: tokenValues(x.Token[1:]), Cb: cb, Cs: cs}}})
		case *modfile.LineBlock:
			if len(x.Token) == 0 {
				continue
			}
			b := bulkBlock{Verb: x.Token[0], Block: true, Lines: []bulkLine{}}
			for _, l := range x.Line {
				cb, cs := lineComments(l)
				b.Lines = append(b.Lines, bulkLine{Tokens: append([]string{}, l.Token...), Vals: tokenValues(l.Token), Cb: cb, Cs: cs})
			}
			out = append(out, b)
		}
	}
	return out
}

var (
	bulkTraceMu sync.Mutex
	bulkTraceF  *os.File
)

func bulkTrace(ev any) {
	path := os.Getenv("VERIF_BULK_TRACE")
	if path == "" {
		return
	}
	bulkTraceMu.Lock()
	defer bulkTraceMu.Unlock()
	if bulkTraceF == nil {
		f, err := os.OpenFile(path, os.O_CREATE|os.O_WRONLY|os.O_APPEND, 0o644)
		if err != nil {
			panic(err)
		}
		bulkTraceF = f
	}
	b, _ := json.Marshal(ev)
	bulkTraceF.Write(append(b, '\n'))
}

func checkBulk(c *core.Case) ([]core.Violation, bool) {
	var in struct {
		Kind   string   `json:"kind"`
		Layout []mfStmt `json:"layout"`
		Text   string   `json:"text"`
		Op     mfOp     `json:"op"`
		// recorded cases (bulkrec) carry what the predicates need themselves
		Separable bool              `json:"separable"`
		Gov       string            `json:"gov"`
		Kept      []json.RawMessage `json:"kept"`
	}
	if err := json.Unmarshal(c.In, &in); err != nil {
		panic(err)
	}
	var exp struct {
		After     mfState           `json:"after"`
		Separable bool              `json:"separable"`
		Gov       string            `json:"gov"`
		Kept      []json.RawMessage `json:"kept"`
	}
	json.Unmarshal(c.Exp, &exp)
	if c.K == "bulkrec" {
		exp.Separable, exp.Gov, exp.Kept = in.Separable, in.Gov, in.Kept
	}
	if in.Text != "" {
		return checkBulkText(c, in.Kind, in.Text, in.Op, exp.After, exp.Separable, exp.Gov, exp.Kept)
	}
	vs, nt := checkBulkText(c, in.Kind, renderLayout(in.Layout), in.Op, exp.After, exp.Separable, exp.Gov, exp.Kept)
	if alt := renderLayoutOpt(in.Layout, true); alt != renderLayout(in.Layout) {
		vs2, _ := checkBulkText(c, in.Kind, alt, in.Op, exp.After, exp.Separable, exp.Gov, exp.Kept)
		vs = append(vs, vs2...)
	}
	return vs, nt
}

func checkBulkText(c *core.Case, kind, text string, op mfOp, after mfState, separable bool, gov string, keptRaw []json.RawMessage) ([]core.Violation, bool) {
	in := struct {
		Kind string
		Op   mfOp
	}{kind, op}
	exp := struct {
		After     mfState
		Separable bool
		Gov       string
		Kept      []json.RawMessage
	}{after, separable, gov, keptRaw}
	f, err := parseMF(in.Kind, text)
	if err != nil {
		core.NoteDrift("bulk layout rejected by the parser: " + err.Error() + "\n" + text)
		return nil, false
	}
	f.cleanup()
	f.apply(in.Op)
	f.cleanup()
	data, err := f.format()
	desc := fmt.Sprintf("%v on\n%s", in.Op, text)
	if err != nil {
		return []core.Violation{{Sig: "c16:" + in.Op.Name + ":format", What: "Format failed after " + desc + ": " + err.Error(), Case: c}}, true
	}
	g, err := parseMF(in.Kind, string(data))
	if err != nil {
		return []core.Violation{{Sig: "c16:" + in.Op.Name + ":output-does-not-parse", What: fmt.Sprintf("formatted file does not parse strictly (%v) after %s\noutput:\n%s", err, desc, data), Case: c}}, true
	}
	got, _ := g.project()
	var vs []core.Violation
	col := "require"
	if in.Kind == "work" {
		col = "use"
	}
	want := valueKeys(col, colOf(&exp.After, col), false)
	have := valueKeys(col, colOf(&got, col), false)
	if c.K == "bulk" && strings.Join(want, "|") != strings.Join(have, "|") {
		vs = append(vs, core.Violation{Sig: "c16:" + in.Op.Name + ":set", What: fmt.Sprintf("after %s the file has %s directives %v, requested exactly %v\noutput:\n%s", desc, col, have, want, data), Case: c})
	}
	var syn *modfile.FileSyntax
	if g.mod != nil {
		syn = g.mod.Syntax
	} else {
		syn = g.work.Syntax
	}
	kept := []any{}
	for _, k := range exp.Kept {
		var x any
		json.Unmarshal(k, &x)
		kept = append(kept, x)
	}
	bulkTrace(map[string]any{"w": "modfile", "k": "bulk",
		"in":  map[string]any{"kind": in.Kind, "op": in.Op.Name, "separable": exp.Separable, "gov": exp.Gov, "kept": kept, "text": text, "req": traceOp(in.Op)["l"]},
		"obs": map[string]any{"blocks": blockStructure(syn)}})
	return vs, true
}

// traceState renders a projection with every field present (TLA+ records need all their fields).
func traceState(st *mfState) map[string]any {
	items := func(col string, its []mfItem) []map[string]any {
		out := []map[string]any{}
		for _, it := range its {
			switch col {
			case "require":
				out = append(out, map[string]any{"p": it.P, "v": it.V, "ind": it.Ind, "cb": it.Cb, "cs": it.Cs})
			case "exclude":
				out = append(out, map[string]any{"p": it.P, "v": it.V, "cb": it.Cb, "cs": it.Cs})
			case "replace":
				out = append(out, map[string]any{"op": it.Op, "ov": it.Ov, "np": it.Np, "nv": it.Nv, "cb": it.Cb, "cs": it.Cs})
			case "retract":
				out = append(out, map[string]any{"lo": it.Lo, "hi": it.Hi, "rat": it.Rat})
			case "tool", "use":
				out = append(out, map[string]any{"p": it.P, "cb": it.Cb, "cs": it.Cs})
			case "godebug":
				out = append(out, map[string]any{"k": it.K, "v": it.V, "cb": it.Cb, "cs": it.Cs})
			}
		}
		return out
	}
	m := map[string]any{"kind": st.Kind, "mod": st.Mod, "gov": st.Gov, "tc": st.Tc}
	for _, col := range mfCollections {
		m[col] = items(col, colOf(st, col))
	}
	return m
}

func traceOp(o mfOp) map[string]any {
	a := make([]string, 4)
	copy(a, o.A)
	l := []any{}
	for _, raw := range o.L {
		var x any
		json.Unmarshal(raw, &x)
		l = append(l, x)
	}
	return map[string]any{"name": o.Name, "a": a, "b": o.B, "l": l}
}

var mfSeedTexts = []string{
	"module example.com/m\n\ngo 1.21\n\nrequire (\n\texample.com/a v1.0.0\n\texample.com/b v1.0.0 // indirect\n)\n\nexclude example.com/a v1.1.0\n\nreplace example.com/a => ../a\n\nretract v1.0.0 // bad\n",
	"module example.com/m\nrequire example.com/a v1.0.0\nrequire example.com/a v1.1.0 // second\nrequire (\n\t// lead\n\texample.com/b v1.0.0\n)\ntool example.com/t/one\ntool (\n\texample.com/t/two\n\texample.com/t/one\n)\ngodebug k1=v1\ngodebug (\n\tk1=v2\n\tk2=v1\n)\n",
	"module example.com/m\n\nreplace (\n\texample.com/a v1.0.0 => example.com/x v1.0.0\n\texample.com/a => ../z // all\n\texample.com/b v1.0.0 => ../b\n)\n\nexclude (\n\texample.com/a v1.0.0\n\texample.com/a v1.0.0\n\texample.com/b v1.1.0 // why\n)\n\nretract (\n\tv1.0.0 // one\n\t[v1.0.0, v1.1.0] // range\n)\n",
	"module example.com/m\n",
	"",
}

var mfWorkSeedTexts = []string{
	"go 1.21\n\nuse (\n\t./x\n\t./y // why\n)\n\nreplace example.com/a => ../a\n",
	"go 1.20\nuse ./x\nuse ./x\nuse ./y\ngodebug k1=v1\ngodebug (\n\tk1=v2\n\tk2=v1\n)\nreplace (\n\texample.com/a v1.0.0 => ../a\n\texample.com/a => ../b\n)\n",
	"",
}

func randModOp(rng *rand.Rand, kind string) mfOp {
	pick := func(xs ...string) string { return xs[rng.Intn(len(xs))] }
	path := func() string { return pick("example.com/a", "example.com/b", "example.com/c/v2", "example.com/q") }
	vers := func(p string) string {
		if p == "example.com/c/v2" {
			return pick("v2.0.0", "v2.1.0")
		}
		return pick("v1.0.0", "v1.1.0", "v1.2.0")
	}
	op := func(name string, a ...string) mfOp { return mfOp{Name: name, A: a} }
	if kind == "work" {
		switch rng.Intn(12) {
		case 0:
			return op("AddGoStmt", pick("1.20", "1.21", "1.x"))
		case 1:
			return op(pick("DropGoStmt", "DropToolchainStmt"))
		case 2:
			return op("AddToolchainStmt", pick("go1.21.0", "bad"))
		case 3:
			return op("AddGodebug", pick("k1", "k2"), pick("v1", "v2", "v3"))
		case 4:
			return op("DropGodebug", pick("k1", "k2"))
		case 5, 6:
			if rng.Intn(5) == 0 {
				return op("AddNewUse", pick("./x", "./new"))
			}
			return op("AddUse", pick("./x", "./y", "./new", "../z"))
		case 7:
			return op("DropUse", pick("./x", "./y", "./new"))
		case 8:
			n := rng.Intn(4)
			var l []json.RawMessage
			seen := map[string]bool{}
			for i := 0; i < n; i++ {
				p := pick("./x", "./y", "./new", "../z")
				if !seen[p] {
					seen[p] = true
					b, _ := json.Marshal(p)
					l = append(l, b)
				}
			}
			return mfOp{Name: "SetUse", L: l}
		case 9:
			return op("AddReplace", pick("example.com/a", "example.com/b"), pick("", "v1.0.0", "v1.1.0"), pick("../local", "example.com/new"), "")
		case 10:
			return op("DropReplace", pick("example.com/a", "example.com/b"), pick("", "v1.0.0"))
		}
		return op("SortBlocks")
	}
	switch rng.Intn(24) {
	case 0:
		return op("AddModuleStmt", pick("example.com/m", "example.com/n"))
	case 1:
		return op("AddGoStmt", pick("1.20", "1.21", "1.x"))
	case 2:
		return op(pick("DropGoStmt", "DropToolchainStmt"))
	case 3:
		return op("AddToolchainStmt", pick("go1.21.0", "go1.22.1", "bad"))
	case 4:
		return op("AddGodebug", pick("k1", "k2"), pick("v1", "v2", "v3"))
	case 5:
		return op("DropGodebug", pick("k1", "k2"))
	case 6, 7:
		p := path()
		return op("AddRequire", p, vers(p))
	case 8:
		p := path()
		return mfOp{Name: "AddNewRequire", A: []string{p, vers(p)}, B: rng.Intn(2) == 0}
	case 9:
		return op("DropRequire", path())
	case 10:
		p := path()
		v := vers(p)
		if rng.Intn(6) == 0 {
			v = pick("v1.0", "", "v2.0.0")
		}
		return op("AddExclude", p, v)
	case 11:
		p := path()
		return op("DropExclude", p, vers(p))
	case 12, 13:
		np := pick("../local", "example.com/new")
		nv := ""
		if np == "example.com/new" {
			nv = "v1.2.0"
		}
		return op("AddReplace", pick("example.com/a", "example.com/b"), pick("", "v1.0.0", "v1.1.0"), np, nv)
	case 14:
		return op("DropReplace", pick("example.com/a", "example.com/b"), pick("", "v1.0.0", "v1.1.0"))
	case 15, 16:
		lo := pick("v1.0.0", "v1.1.0")
		hi := lo
		if rng.Intn(2) == 0 {
			lo, hi = "v1.0.0", pick("v1.1.0", "v1.2.0")
		}
		if rng.Intn(8) == 0 {
			lo = "v1.0"
		}
		return op("AddRetract", lo, hi, pick("", "newwhy", "two\nlines", "para one\n\npara two"))
	case 17:
		lo := pick("v1.0.0", "v1.1.0")
		return op("DropRetract", lo, pick(lo, "v1.1.0"))
	case 18:
		return op("AddTool", pick("example.com/t/one", "example.com/t/two", "example.com/t/three"))
	case 19:
		return op("DropTool", pick("example.com/t/one", "example.com/t/two"))
	case 20:
		return op("SortBlocks")
	case 21:
		return op("Cleanup")
	}
	name := pick("SetRequire", "SetRequireSeparateIndirect")
	var l []json.RawMessage
	seen := map[string]bool{}
	for i, n := 0, rng.Intn(5); i < n; i++ {
		p := path()
		if seen[p] {
			continue
		}
		seen[p] = true
		b, _ := json.Marshal(reqL{P: p, V: vers(p), Ind: rng.Intn(2) == 0})
		l = append(l, b)
	}
	return mfOp{Name: name, L: l}
}

// Record: random edit sessions; one event per prefix.
func (w *modfileWorld) Record(rng *rand.Rand, n int, emit func(k string, in, obs any)) {
	for s := 0; s < n; s++ {
		kind := "mod"
		texts := mfSeedTexts
		if rng.Intn(4) == 0 {
			kind, texts = "work", mfWorkSeedTexts
		}
		text := texts[rng.Intn(len(texts))]
		f, err := parseMF(kind, text)
		if err != nil {
			continue
		}
		init, _ := f.project()
		init.Kind = kind
		nops := 3 + rng.Intn(12)
		var ops []mfOp
		emit("Reset", map[string]any{"kind": kind, "text": text, "init": traceState(&init)}, map[string]any{})
		for i := 0; i < nops; i++ {
			ops = append(ops, randModOp(rng, kind))
			structSt, fileSt, holes, lastErr, _, perr, ierr := runPrefix(kind, text, ops)
			if ierr != nil || perr != nil {
				// reported by the generated-session replay; a recorded session stops here
				break
			}
			structSt.Kind, fileSt.Kind = kind, kind
			if holes == nil {
				holes = []string{}
			}
			emit("step", map[string]any{"op": traceOp(ops[i]), "i": i + 1},
				map[string]any{"err": lastErr != nil, "file": traceState(&fileSt), "struct": traceState(&structSt), "holes": holes})
		}
	}
}

// ---- E3 for C16: random larger files and requests ----

func init() { core.Register("modfilebulk", func() core.World { return &modfileBulkWorld{} }) }

type modfileBulkWorld struct{ modfileWorld }

func randBulkCase(rng *rand.Rand) (kind, text string, op mfOp, separable bool, gov string, kept []any) {
	pick := func(xs ...string) string { return xs[rng.Intn(len(xs))] }
	var sb strings.Builder
	if rng.Intn(5) == 0 {
		// go.work
		kind = "work"
		sb.WriteString("go 1.21\n")
		dirs := []string{"./a", "./b", "./c", "./d", "../e", "./f/g"}
		first := map[string][2]string{}
		n := rng.Intn(7)
		inBlock := false
		for i := 0; i < n; i++ {
			d := dirs[rng.Intn(len(dirs))]
			cb, cs := "", ""
			if rng.Intn(4) == 0 {
				cb = fmt.Sprintf("lead%d", i)
			}
			if rng.Intn(4) == 0 {
				cs = fmt.Sprintf("eol%d", i)
			}
			if _, ok := first[d]; !ok {
				first[d] = [2]string{cb, cs}
			}
			if !inBlock && rng.Intn(2) == 0 {
				sb.WriteString("use (\n")
				inBlock = true
			}
			ind := ""
			if inBlock {
				ind = "\t"
			}
			if cb != "" {
				sb.WriteString(ind + "// " + cb + "\n")
			}
			line := d
			if !inBlock {
				line = "use " + d
			}
			if cs != "" {
				line += " // " + cs
			}
			sb.WriteString(ind + line + "\n")
			if inBlock && rng.Intn(3) == 0 {
				sb.WriteString(")\n")
				inBlock = false
			}
		}
		if inBlock {
			sb.WriteString(")\n")
		}
		var l []json.RawMessage
		seen := map[string]bool{}
		for i, m := 0, rng.Intn(5); i < m; i++ {
			d := dirs[rng.Intn(len(dirs))]
			if seen[d] {
				continue
			}
			seen[d] = true
			b, _ := json.Marshal(d)
			l = append(l, b)
			if c, ok := first[d]; ok {
				kept = append(kept, map[string]any{"p": d, "cb": c[0], "cs": c[1]})
			}
		}
		return kind, sb.String(), mfOp{Name: "SetUse", L: l}, false, "1.21", kept
	}
	kind = "mod"
	sb.WriteString("module example.com/m\n")
	gov = pick("", "1.20", "1.21", "1.22rc1")
	if gov != "" {
		sb.WriteString("go " + gov + "\n")
	}
	npaths := 4 + rng.Intn(20)
	paths := make([]string, npaths)
	for i := range paths {
		paths[i] = fmt.Sprintf("example.com/p%02d", rng.Intn(30))
	}
	first := map[string][2]string{}
	stmts, commented := 0, false
	inBlock := false
	for i, p := range paths {
		cb, cs := "", ""
		if rng.Intn(6) == 0 {
			cb = fmt.Sprintf("lead%d", i)
			commented = true
		}
		ind := rng.Intn(3) == 0
		if rng.Intn(6) == 0 {
			cs = fmt.Sprintf("eol%d", i)
			commented = true
		}
		if _, ok := first[p]; !ok {
			first[p] = [2]string{cb, cs}
		}
		if !inBlock {
			stmts++
			if rng.Intn(3) != 0 {
				if rng.Intn(8) == 0 {
					sb.WriteString("// blockwhy\n")
					commented = true
				}
				sb.WriteString("require (\n")
				inBlock = true
			}
		}
		tab := ""
		if inBlock {
			tab = "\t"
		}
		if cb != "" {
			sb.WriteString(tab + "// " + cb + "\n")
		}
		line := fmt.Sprintf("%s v1.%d.0", p, rng.Intn(12))
		if !inBlock {
			line = "require " + line
		}
		switch {
		case ind && cs != "":
			line += " // indirect; " + cs
		case ind:
			line += " // indirect"
		case cs != "":
			line += " // " + cs
		}
		sb.WriteString(tab + line + "\n")
		if inBlock && rng.Intn(6) == 0 {
			sb.WriteString(")\n")
			inBlock = false
		}
	}
	if inBlock {
		sb.WriteString(")\n")
	}
	sb.WriteString("exclude (\n")
	for i := 0; i < 2+rng.Intn(5); i++ {
		sb.WriteString(fmt.Sprintf("\texample.com/p%02d v1.%d.0\n", rng.Intn(4), rng.Intn(12)))
	}
	sb.WriteString(")\nretract (\n")
	for i := 0; i < 2+rng.Intn(4); i++ {
		lo := rng.Intn(12)
		if rng.Intn(2) == 0 {
			sb.WriteString(fmt.Sprintf("\tv1.%d.0\n", lo))
		} else {
			sb.WriteString(fmt.Sprintf("\t[v1.%d.0, v1.%d.0]\n", lo, lo+rng.Intn(4)))
		}
	}
	sb.WriteString(")\n")
	var l []json.RawMessage
	seen := map[string]bool{}
	for i, m := 0, rng.Intn(16); i < m; i++ {
		p := fmt.Sprintf("example.com/p%02d", rng.Intn(34))
		if seen[p] {
			continue
		}
		seen[p] = true
		b, _ := json.Marshal(reqL{P: p, V: fmt.Sprintf("v1.%d.0", rng.Intn(12)), Ind: rng.Intn(2) == 0})
		l = append(l, b)
		if c, ok := first[p]; ok {
			kept = append(kept, map[string]any{"p": p, "cb": c[0], "cs": c[1]})
		}
	}
	return kind, sb.String(), mfOp{Name: pick("SetRequire", "SetRequireSeparateIndirect"), L: l}, stmts == 1 && !commented, gov, kept
}

func (w *modfileBulkWorld) Record(rng *rand.Rand, n int, emit func(k string, in, obs any)) {
	for i := 0; i < n; i++ {
		kind, text, op, separable, gov, kept := randBulkCase(rng)
		f, err := parseMF(kind, text)
		if err != nil {
			continue
		}
		f.cleanup()
		f.apply(op)
		f.cleanup()
		data, err := f.format()
		if err != nil {
			continue
		}
		g, err := parseMF(kind, string(data))
		if err != nil {
			emit("bulk", map[string]any{"kind": kind, "op": op.Name, "separable": separable, "gov": gov, "kept": []any{}, "text": text, "req": traceOp(op)["l"]},
				map[string]any{"blocks": []any{}, "parseError": err.Error()})
			continue
		}
		var syn *modfile.FileSyntax
		if g.mod != nil {
			syn = g.mod.Syntax
		} else {
			syn = g.work.Syntax
		}
		if kept == nil {
			kept = []any{}
		}
		emit("bulk", map[string]any{"kind": kind, "op": op.Name, "separable": separable, "gov": gov, "kept": kept, "text": text, "req": traceOp(op)["l"]},
			map[string]any{"blocks": blockStructure(syn)})
	}
}
