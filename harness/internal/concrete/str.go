// Package concrete maps specification values to real values and back.
package concrete

import (
	"unicode/utf8"
)

// Str turns a specification string (code points; -b for a byte b that is not
// part of valid UTF-8) into a Go string.
func Str(xs []int) string {
	b := make([]byte, 0, len(xs))
	for _, x := range xs {
		if x < 0 {
			b = append(b, byte(-x))
		} else {
			b = utf8.AppendRune(b, rune(x))
		}
	}
	return string(b)
}

// Ints is the inverse of Str.
func Ints(s string) []int {
	out := make([]int, 0, len(s))
	for i := 0; i < len(s); {
		r, n := utf8.DecodeRuneInString(s[i:])
		if r == utf8.RuneError && n <= 1 {
			out = append(out, -int(s[i]))
			i++
			continue
		}
		out = append(out, int(r))
		i += n
	}
	return out
}

// Strs maps Str over a list.
func Strs(xs [][]int) []string {
	out := make([]string, len(xs))
	for i, x := range xs {
		out[i] = Str(x)
	}
	return out
}

// IntsList maps Ints over a list.
func IntsList(ss []string) [][]int {
	out := make([][]int, len(ss))
	for i, s := range ss {
		out[i] = Ints(s)
	}
	return out
}
