// Package sumworld builds honest and forked checksum-database worlds
// (records, tiles, signed tree heads) independently of the code under test:
// hashes come from refmerkle, signatures from crypto/ed25519 and the signed
// note format is assembled by hand from its documentation.
package sumworld

import (
	"bytes"
	"crypto/ed25519"
	"crypto/sha256"
	"encoding/base64"
	"encoding/binary"
	"fmt"
	"strconv"
	"strings"
	"sync"

	"verifharness/internal/refmerkle"
)

// World is a pair of timelines A and B sharing Prefix records.
type World struct {
	H         int
	Prefix    int
	Size      map[string]int
	Name      string
	VKey      string
	priv      ed25519.PrivateKey
	keyHash   uint32
	leaves    map[string][]refmerkle.Hash
	mu        sync.Mutex
	memo      map[string]refmerkle.Hash
	heads     map[string]HeadLabel // signed note bytes -> label
	headBytes map[HeadLabel][]byte
	otherPriv ed25519.PrivateKey // a second key, for wrong-key signatures
	rootMemo  map[string]refmerkle.Hash
}

// HeadLabel is the ground truth about a tree-head message.
type HeadLabel struct {
	Kind string `json:"kind"` // good | badsig | garbage | empty | unknown
	Tl   string `json:"tl"`   // "P" when N <= Prefix
	N    int    `json:"n"`
}

// RecLabel is the ground truth about a record.
type RecLabel struct {
	Kind string `json:"kind"` // true | forged | unknown
	Tl   string `json:"tl"`
	ID   int    `json:"id"`
}

func seedKey(seed string) ed25519.PrivateKey {
	s := sha256.Sum256([]byte(seed))
	return ed25519.NewKeyFromSeed(s[:])
}

// New builds a world; sizeB = 0 means a single timeline.
func New(h, prefix, sizeA, sizeB int) *World {
	w := &World{H: h, Prefix: prefix, Size: map[string]int{"A": sizeA}, Name: "verif.example/sumdb",
		leaves: map[string][]refmerkle.Hash{}, memo: map[string]refmerkle.Hash{}, heads: map[string]HeadLabel{},
		headBytes: map[HeadLabel][]byte{}, rootMemo: map[string]refmerkle.Hash{}}
	if sizeB > 0 {
		w.Size["B"] = sizeB
	}
	w.priv = seedKey("verif world key")
	w.otherPriv = seedKey("verif other key")
	pub := w.priv.Public().(ed25519.PublicKey)
	key := append([]byte{1}, pub...)
	hh := sha256.New()
	hh.Write([]byte(w.Name))
	hh.Write([]byte("\n"))
	hh.Write(key)
	w.keyHash = binary.BigEndian.Uint32(hh.Sum(nil))
	w.VKey = fmt.Sprintf("%s+%08x+%s", w.Name, w.keyHash, base64.StdEncoding.EncodeToString(key))
	for tl, n := range w.Size {
		for i := 0; i < n; i++ {
			w.leaves[tl] = append(w.leaves[tl], refmerkle.LeafHash(w.RecText(tl, i)))
		}
	}
	return w
}

// Timelines lists the timelines of the world.
func (w *World) Timelines() []string {
	if _, ok := w.Size["B"]; ok {
		return []string{"A", "B"}
	}
	return []string{"A"}
}

// Norm is the normalised timeline name of a tree of n records.
func (w *World) Norm(tl string, n int) string {
	if n <= w.Prefix {
		return "P"
	}
	return tl
}

// real returns a real timeline for a (possibly normalised) label.
func (w *World) real(tl string) string {
	if tl == "P" || tl == "" {
		return "A"
	}
	return tl
}

// ModPath and Version of the module recorded as record i (an upper-case letter exercises escaping).
func (w *World) ModPath(i int) string { return fmt.Sprintf("example.com/Mod%d", i) }
// every third version has upper-case letters in its pre-release (versions are escaped on the wire, not in go.sum lines)
func (w *World) Version(i int) string {
	if i%3 == 2 {
		return fmt.Sprintf("v1.%d.0-RC1", i)
	}
	return fmt.Sprintf("v1.%d.0", i)
}

func (w *World) recTextTag(tag string, i int) []byte {
	p, v := w.ModPath(i), w.Version(i)
	return []byte(fmt.Sprintf("%s %s h1:%s%dzipzipzipzipzipzipzipzipzipzipzipzipzipz=\n%s %s/go.mod h1:%s%dmodmodmodmodmodmodmodmodmodmodmodmodmodm=\n", p, v, tag, i, p, v, tag, i))
}

// RecText is the text of record i on timeline tl.
func (w *World) RecText(tl string, i int) []byte {
	tag := w.real(tl)
	if i < w.Prefix {
		tag = "P"
	}
	return w.recTextTag(tag, i)
}

// ForgedText is a forged record for id i (same module and version, other hashes).
func (w *World) ForgedText(i int) []byte { return w.recTextTag("F", i) }

// Lines returns the go.sum lines of a record text for the given version suffix ("" or "/go.mod").
func Lines(text []byte, path, vers string) []string {
	var out []string
	for _, l := range strings.Split(string(text), "\n") {
		if strings.HasPrefix(l, path+" "+vers+" ") {
			out = append(out, l)
		}
	}
	return out
}

// Hash returns the true hash of the complete subtree (L, K) on timeline tl.
func (w *World) Hash(tl string, L int, K int64) refmerkle.Hash {
	tl = w.real(tl)
	key := fmt.Sprintf("%s/%d/%d", tl, L, K)
	w.mu.Lock()
	h, ok := w.memo[key]
	w.mu.Unlock()
	if ok {
		return h
	}
	if L == 0 {
		h = w.leaves[tl][K]
	} else {
		h = refmerkle.NodeHash(w.Hash(tl, L-1, 2*K), w.Hash(tl, L-1, 2*K+1))
	}
	w.mu.Lock()
	w.memo[key] = h
	w.mu.Unlock()
	return h
}

// Root is the tree hash of the first n records of timeline tl.
func (w *World) Root(tl string, n int) refmerkle.Hash {
	tl = w.real(tl)
	key := fmt.Sprintf("%s/%d", tl, n)
	w.mu.Lock()
	h, ok := w.rootMemo[key]
	w.mu.Unlock()
	if ok {
		return h
	}
	h = refmerkle.MTH(w.leaves[tl][:n])
	w.mu.Lock()
	w.rootMemo[key] = h
	w.mu.Unlock()
	return h
}

// TileExists reports whether the full timeline has tile (tl-level, tn, width).
func (w *World) TileExists(tl string, level int, tn int64, width int) bool {
	tl = w.real(tl)
	lv := w.H * level
	if lv > 60 {
		return false
	}
	count := int64(w.Size[tl]) >> uint(lv)
	return width >= 1 && width <= 1<<uint(w.H) && tn<<uint(w.H)+int64(width) <= count
}

// TileData is the true content of a tile on timeline tl, or nil.
func (w *World) TileData(tl string, level int, tn int64, width int) []byte {
	if !w.TileExists(tl, level, tn, width) {
		return nil
	}
	out := make([]byte, 0, width*32)
	for i := 0; i < width; i++ {
		h := w.Hash(tl, w.H*level, tn<<uint(w.H)+int64(i))
		out = append(out, h[:]...)
	}
	return out
}

// TreeText is the tree-head text of the documented three-line form.
func (w *World) TreeText(tl string, n int) string {
	r := w.Root(tl, n)
	return fmt.Sprintf("go.sum database tree\n%d\n%s\n", n, base64.StdEncoding.EncodeToString(r[:]))
}

func (w *World) sign(priv ed25519.PrivateKey, text string) string {
	sig := ed25519.Sign(priv, []byte(text))
	var buf [4]byte
	binary.BigEndian.PutUint32(buf[:], w.keyHash)
	return "— " + w.Name + " " + base64.StdEncoding.EncodeToString(append(buf[:], sig...)) + "\n"
}

// Head returns the bytes of a tree-head message of the given kind.
func (w *World) Head(l HeadLabel) []byte {
	l.Tl = w.Norm(w.real(l.Tl), l.N)
	if l.Kind == "empty" {
		return nil
	}
	if l.Kind == "garbage" {
		return []byte("this is not a signed note")
	}
	w.mu.Lock()
	b, ok := w.headBytes[l]
	w.mu.Unlock()
	if ok {
		return b
	}
	text := w.TreeText(l.Tl, l.N)
	var msg string
	switch l.Kind {
	case "good":
		msg = text + "\n" + w.sign(w.priv, text)
	case "badsig":
		// not signed by the configured key.  Two spellings of that (the specification knows one kind): even sizes carry the
		// configured key's name and key hash over a signature made with another key; odd sizes carry only the signature
		// of a key the client has never heard of (another name and key hash) - a well-formed note with no known signer
		if l.N%2 == 0 {
			msg = text + "\n" + w.sign(w.otherPriv, text)
		} else {
			sig := ed25519.Sign(w.otherPriv, []byte(text))
			msg = text + "\n" + "— other.example/unknown-log " + base64.StdEncoding.EncodeToString(append([]byte{0x5a, 0x17, 0xc0, 0xde}, sig...)) + "\n"
		}
	default:
		panic("head kind " + l.Kind)
	}
	b = []byte(msg)
	w.mu.Lock()
	w.headBytes[l] = b
	w.heads[msg] = l
	w.mu.Unlock()
	return b
}

// ClassifyHead gives the ground truth for a tree-head message.
func (w *World) ClassifyHead(msg []byte) HeadLabel {
	if len(msg) == 0 {
		return HeadLabel{Kind: "empty", Tl: "P"}
	}
	w.mu.Lock()
	l, ok := w.heads[string(msg)]
	w.mu.Unlock()
	if ok {
		return l
	}
	// not produced by this world as is: decide from first principles
	i := bytes.LastIndex(msg, []byte("\n\n"))
	if i < 0 {
		return HeadLabel{Kind: "garbage", Tl: "P"}
	}
	text := string(msg[:i+1])
	for _, tl := range w.Timelines() {
		for n := 1; n <= w.Size[tl]; n++ {
			if w.TreeText(tl, n) == text {
				good := text + "\n" + w.sign(w.priv, text)
				if string(msg) == good {
					return HeadLabel{Kind: "good", Tl: w.Norm(tl, n), N: n}
				}
				return HeadLabel{Kind: "unknownsig", Tl: w.Norm(tl, n), N: n}
			}
		}
	}
	return HeadLabel{Kind: "unknown", Tl: "P"}
}

// PrefixOf reports whether the tree of h1 is a prefix of the tree of h2 (ground truth).
func (w *World) PrefixOf(h1, h2 HeadLabel) bool {
	if h1.N == 0 {
		return true
	}
	if h1.N > h2.N {
		return false
	}
	return w.Root(h1.Tl, h1.N) == w.Root(h2.Tl, h1.N)
}

// LookupResp assembles a lookup response: id line, record text, blank line, signed head.
func (w *World) LookupResp(rec RecLabel, head HeadLabel) []byte {
	var text []byte
	if rec.Kind == "forged" {
		text = w.ForgedText(rec.ID)
	} else {
		text = w.RecText(rec.Tl, rec.ID)
	}
	out := []byte(strconv.Itoa(rec.ID) + "\n")
	out = append(out, text...)
	out = append(out, '\n')
	out = append(out, w.Head(head)...)
	return out
}

// ClassifyLookup gives the ground truth for lookup-response bytes.
func (w *World) ClassifyLookup(data []byte) (RecLabel, HeadLabel, bool) {
	i := bytes.IndexByte(data, '\n')
	if i < 0 {
		return RecLabel{Kind: "unknown"}, HeadLabel{Kind: "unknown"}, false
	}
	id, err := strconv.Atoi(string(data[:i]))
	if err != nil {
		return RecLabel{Kind: "unknown"}, HeadLabel{Kind: "unknown"}, false
	}
	rest := data[i+1:]
	j := bytes.Index(rest, []byte("\n\n"))
	if j < 0 {
		return RecLabel{Kind: "unknown"}, HeadLabel{Kind: "unknown"}, false
	}
	text, headMsg := rest[:j+1], rest[j+2:]
	rec := RecLabel{Kind: "unknown", ID: id}
	for _, tl := range w.Timelines() {
		if id >= 0 && id < w.Size[tl] && bytes.Equal(text, w.RecText(tl, id)) {
			rec = RecLabel{Kind: "true", Tl: w.Norm(tl, id+1), ID: id}
			break
		}
	}
	if rec.Kind == "unknown" && id >= 0 && bytes.Equal(text, w.ForgedText(id)) {
		rec.Kind = "forged"
	}
	return rec, w.ClassifyHead(headMsg), true
}

// ClassifyTile reports on which timelines the bytes are the true content of the tile.
func (w *World) ClassifyTile(level int, tn int64, width int, data []byte) []string {
	var out []string
	for _, tl := range w.Timelines() {
		if d := w.TileData(tl, level, tn, width); d != nil && bytes.Equal(d, data) {
			out = append(out, tl)
		}
	}
	return out
}
