// Package core holds the case/event formats shared by all worlds and the
// replay/record drivers.
package core

import (
	"bufio"
	"encoding/json"
	"fmt"
	"io"
	"math/rand"
	"os"
	"reflect"
	"runtime"
	"sort"
	"strconv"
	"sync"
)

// Case is one generated case (TLC -> harness) or one recorded event
// (harness -> TLC).  In and Exp/Obs are world specific.
type Case struct {
	W   string          `json:"w"`
	K   string          `json:"k"`
	In  json.RawMessage `json:"in"`
	Exp json.RawMessage `json:"exp,omitempty"`
	Obs json.RawMessage `json:"obs,omitempty"`
	// Drift holds protocol-level observations (which hashes were read, in
	// what order, ...): a mismatch there is reported as DRIFT, not as a violation.
	Drift json.RawMessage `json:"drift,omitempty"`
	line  int             // line of the input file this case came from (replay only; for crash localisation)
}

// Violation is something the real code did that the property forbids.
type Violation struct {
	Sig  string `json:"sig"`
	What string `json:"what"`
	Case *Case  `json:"case,omitempty"`
	Obs  any    `json:"obs,omitempty"`
}

// Report is printed as the last line of stdout.
type Report struct {
	Cases      int         `json:"cases"`
	Nontrivial int         `json:"nontrivial"`
	Traces     int         `json:"traces"`
	Drift      int         `json:"drift"`
	Violations []Violation `json:"violations"`
	Samples    []any       `json:"samples"`
	Notes      any         `json:"notes,omitempty"`
}

// World is one family of specification/implementation bindings.
type World interface {
	// Check runs one generated case against the real code; nontrivial says
	// whether the case counts as non-trivial for the evidence.
	Check(c *Case) (viol []Violation, nontrivial bool)
	// Finish runs aggregate checks after all cases (may be nil work).
	Finish() []Violation
	// Record produces n recorded events from the real code.
	Record(rng *rand.Rand, n int, emit func(k string, in, obs any))
}

var registry = map[string]func() World{}

// Register adds a world constructor.
func Register(name string, f func() World) { registry[name] = f }

// Get returns a new world.
func Get(name string) (World, error) {
	f, ok := registry[name]
	if !ok {
		return nil, fmt.Errorf("unknown world %q", name)
	}
	return f(), nil
}

// DecodeTLCLine decodes a line printed by PrintT(ToJson(x)): a TLA+ string
// literal whose content is JSON.
func DecodeTLCLine(line []byte) (*Case, bool) {
	if len(line) < 2 || line[0] != '"' {
		return nil, false
	}
	s, err := strconv.Unquote(string(line))
	if err != nil {
		// TLA+ string escapes are a subset of Go's, but be tolerant
		var js string
		if json.Unmarshal(line, &js) != nil {
			return nil, false
		}
		s = js
	}
	var c Case
	if json.Unmarshal([]byte(s), &c) != nil || c.K == "" {
		return nil, false
	}
	return &c, true
}

var (
	driftMu    sync.Mutex
	driftCount int
	driftNotes []string
)

// NoteDrift records a protocol-level difference between the model's exact
// prediction and what the code did; it never affects the verdict.
func NoteDrift(msg string) {
	driftMu.Lock()
	defer driftMu.Unlock()
	driftCount++
	if len(driftNotes) < 3 {
		driftNotes = append(driftNotes, msg)
	}
}

// MaxViol bounds the number of violations kept per signature.
const MaxViol = 3

type collector struct {
	mu    sync.Mutex
	rep   Report
	bySig map[string]int
	seen  map[string]bool
}

func newCollector() *collector {
	return &collector{bySig: map[string]int{}, seen: map[string]bool{}}
}

func (c *collector) sample(x *Case) {
	c.mu.Lock()
	defer c.mu.Unlock()
	if len(c.rep.Samples) < 4 {
		c.rep.Samples = append(c.rep.Samples, x)
	}
}

func (c *collector) add(vs []Violation) {
	c.mu.Lock()
	defer c.mu.Unlock()
	for _, v := range vs {
		if c.bySig[v.Sig] < MaxViol {
			c.rep.Violations = append(c.rep.Violations, v)
		}
		c.bySig[v.Sig]++
	}
}

// Replay reads raw TLC output (or plain ndjson cases) and checks every case.
func Replay(world string, path string, workers int) (*Report, error) {
	w, err := Get(world)
	if err != nil {
		return nil, err
	}
	f, err := os.Open(path)
	if err != nil {
		return nil, err
	}
	defer f.Close()
	if workers <= 0 {
		workers = runtime.NumCPU()
	}
	col := newCollector()
	ch := make(chan *Case, 1024)
	var wg sync.WaitGroup
	var cases, nontriv int64
	var cmu sync.Mutex
	// VERIF_MARK names a file prefix: each worker notes, before it starts on a case, the line of the input file the
	// case came from.  If the code under test brings the process down (stack overflow, fatal error), the orchestrator
	// finds the cases that were in progress there and re-runs each alone.
	markPrefix := os.Getenv("VERIF_MARK")
	for i := 0; i < workers; i++ {
		wg.Add(1)
		go func(i int) {
			defer wg.Done()
			var lc, ln int64
			var mf *os.File
			if markPrefix != "" {
				mf, _ = os.Create(fmt.Sprintf("%s.%d", markPrefix, i))
				if mf != nil {
					defer mf.Close()
				}
			}
			for c := range ch {
				if mf != nil {
					mf.WriteAt([]byte(fmt.Sprintf("%12d\n", c.line)), 0)
				}
				vs, nt := safeCheck(w, c)
				lc++
				if nt {
					ln++
					if ln%997 == 1 {
						col.sample(c)
					}
				}
				if len(vs) > 0 {
					col.add(vs)
				}
			}
			cmu.Lock()
			cases += lc
			nontriv += ln
			cmu.Unlock()
		}(i)
	}
	rd := bufio.NewReaderSize(f, 1<<20)
	nsamp := 0
	lineNo := 0
	for {
		line, err := rd.ReadBytes('\n')
		lineNo++
		if len(line) > 0 {
			l := trimNL(line)
			var c *Case
			var ok bool
			if len(l) > 0 && l[0] == '{' {
				var cc Case
				if json.Unmarshal(l, &cc) == nil && cc.K != "" {
					c, ok = &cc, true
				}
			} else {
				c, ok = DecodeTLCLine(l)
			}
			if ok && (c.W == "" || c.W == world) {
				nsamp++
				c.line = lineNo
				ch <- c
			}
		}
		if err == io.EOF {
			break
		}
		if err != nil {
			return nil, err
		}
	}
	close(ch)
	wg.Wait()
	col.add(w.Finish())
	col.rep.Cases = int(cases)
	col.rep.Nontrivial = int(nontriv)
	col.rep.Drift = driftCount
	if len(driftNotes) > 0 {
		col.rep.Notes = driftNotes
	}
	sortViol(col.rep.Violations)
	return &col.rep, nil
}

func sortViol(v []Violation) {
	sort.SliceStable(v, func(i, j int) bool { return v[i].Sig < v[j].Sig })
}

func trimNL(b []byte) []byte {
	for len(b) > 0 && (b[len(b)-1] == '\n' || b[len(b)-1] == '\r') {
		b = b[:len(b)-1]
	}
	return b
}

func safeCheck(w World, c *Case) (vs []Violation, nt bool) {
	defer func() {
		if r := recover(); r != nil {
			buf := make([]byte, 4096)
			buf = buf[:runtime.Stack(buf, false)]
			vs = []Violation{{Sig: c.K + ":panic", What: fmt.Sprintf("panic: %v\n%s", r, buf), Case: c}}
		}
	}()
	return w.Check(c)
}

// One re-runs a single saved violation (or case) file.
func One(path string) (*Report, error) {
	data, err := os.ReadFile(path)
	if err != nil {
		return nil, err
	}
	var v Violation
	var c *Case
	if json.Unmarshal(data, &v) == nil && v.Case != nil {
		c = v.Case
	} else {
		var cc Case
		if err := json.Unmarshal(data, &cc); err != nil {
			return nil, err
		}
		c = &cc
	}
	w, err := Get(c.W)
	if err != nil {
		return nil, err
	}
	rep := &Report{Cases: 1}
	vs, _ := safeCheck(w, c)
	rep.Violations = append(rep.Violations, vs...)
	rep.Violations = append(rep.Violations, w.Finish()...)
	return rep, nil
}

// Record writes n recorded events as ndjson.
func Record(world, out string, seed int64, n int) (*Report, error) {
	w, err := Get(world)
	if err != nil {
		return nil, err
	}
	f, err := os.Create(out)
	if err != nil {
		return nil, err
	}
	bw := bufio.NewWriterSize(f, 1<<20)
	rep := &Report{}
	enc := json.NewEncoder(bw)
	enc.SetEscapeHTML(false)
	w.Record(rand.New(rand.NewSource(seed)), n, func(k string, in, obs any) {
		ib := marshalNoNull(in)
		var db []byte
		if m, ok := obs.(map[string]any); ok {
			if d, ok := m["_drift"]; ok {
				db = marshalNoNull(d)
				m2 := map[string]any{}
				for k, v := range m {
					if k != "_drift" {
						m2[k] = v
					}
				}
				obs = m2
			}
		}
		ob := marshalNoNull(obs)
		c := Case{W: world, K: k, In: ib, Obs: ob, Drift: db}
		if rep.Cases < 3 {
			rep.Samples = append(rep.Samples, c)
		}
		rep.Cases++
		enc.Encode(&c)
	})
	if err := bw.Flush(); err != nil {
		return nil, err
	}
	return rep, f.Close()
}

// RunTrace: when VERIF_RUN_TRACE names a file, the events of a re-executed run are written there in the recorder's
// format, so that the orchestrator can put them through the TLA+ monitor again (replay of a monitor finding).
func RunTrace(world string) (emit func(k string, f any), done func()) {
	path := os.Getenv("VERIF_RUN_TRACE")
	if path == "" {
		return nil, func() {}
	}
	f, err := os.OpenFile(path, os.O_CREATE|os.O_WRONLY|os.O_APPEND, 0644)
	if err != nil {
		return nil, func() {}
	}
	bw := bufio.NewWriter(f)
	enc := json.NewEncoder(bw)
	enc.SetEscapeHTML(false)
	var mu sync.Mutex
	return func(k string, in any) {
			mu.Lock()
			defer mu.Unlock()
			enc.Encode(&Case{W: world, K: k, In: marshalNoNull(in), Obs: marshalNoNull(map[string]any{})})
		}, func() {
			bw.Flush()
			f.Close()
		}
}

// Eq compares two JSON-able values structurally after a JSON round trip.
func Eq(a, b any) bool {
	return reflect.DeepEqual(norm(a), norm(b))
}

func norm(a any) any {
	b, err := json.Marshal(a)
	if err != nil {
		return nil
	}
	var x any
	json.Unmarshal(b, &x)
	return x
}

// Diff compares expected fields with observed ones and returns the names of
// fields that differ (sorted).
func Diff(exp, obs map[string]any) []string {
	var out []string
	for k, e := range exp {
		if o, ok := obs[k]; !ok || !Eq(e, o) {
			out = append(out, k)
		}
	}
	sort.Strings(out)
	return out
}

// marshalNoNull marshals v with every JSON null (nil slices) replaced by an
// empty array: TLC's Json module has no null.
func marshalNoNull(v any) []byte {
	b, err := json.Marshal(v)
	if err != nil {
		panic(err)
	}
	if !bytesContains(b, "null") {
		return b
	}
	var x any
	if err := json.Unmarshal(b, &x); err != nil {
		panic(err)
	}
	b, _ = json.Marshal(denull(x))
	return b
}

func bytesContains(b []byte, s string) bool {
	for i := 0; i+len(s) <= len(b); i++ {
		if string(b[i:i+len(s)]) == s {
			return true
		}
	}
	return false
}

func denull(x any) any {
	switch v := x.(type) {
	case nil:
		return []any{}
	case []any:
		for i := range v {
			v[i] = denull(v[i])
		}
		return v
	case map[string]any:
		for k := range v {
			v[k] = denull(v[k])
		}
		return v
	}
	return x
}
