// Package refmerkle is a small RFC 6962 reference, written from the RFC text
// and independent of golang.org/x/mod/sumdb/tlog.  It is used only to give
// specification hash terms concrete values and to build test worlds.
package refmerkle

import (
	"crypto/sha256"
	"encoding/json"
	"fmt"
)

// Hash is a SHA-256 value.
type Hash = [32]byte

// LeafHash is SHA-256(0x00 || data).
func LeafHash(data []byte) Hash {
	h := sha256.New()
	h.Write([]byte{0})
	h.Write(data)
	var out Hash
	h.Sum(out[:0])
	return out
}

// NodeHash is SHA-256(0x01 || l || r).
func NodeHash(l, r Hash) Hash {
	h := sha256.New()
	h.Write([]byte{1})
	h.Write(l[:])
	h.Write(r[:])
	var out Hash
	h.Sum(out[:0])
	return out
}

// Empty is the hash of the empty tree.
var Empty = sha256.Sum256(nil)

// MTH is the Merkle Tree Hash of the list of leaf hashes (RFC 6962 2.1).
func MTH(leaves []Hash) Hash {
	switch len(leaves) {
	case 0:
		return Empty
	case 1:
		return leaves[0]
	}
	k := 1
	for k*2 < len(leaves) {
		k *= 2
	}
	return NodeHash(MTH(leaves[:k]), MTH(leaves[k:]))
}

// Junk returns a value that is (with overwhelming probability) no hash of any world.
func Junk(k int) Hash {
	if k == 0 {
		return Hash{} // the all-zero value: what a zero tlog.Hash holds
	}
	return sha256.Sum256([]byte(fmt.Sprintf("verif junk %d", k)))
}

// Terms concretizes specification hash terms ["L",d] ["N",l,r] ["E"] ["J",k]
// and maps concrete hashes back to terms.
type Terms struct {
	Rec  func(d int) []byte
	memo map[string]Hash
	inv  map[Hash]string
}

// NewTerms returns a concretizer; rec gives the record bytes for content d.
func NewTerms(rec func(d int) []byte) *Terms {
	return &Terms{Rec: rec, memo: map[string]Hash{}, inv: map[Hash]string{}}
}

// DefaultRec is the record content used when a world does not care.
func DefaultRec(d int) []byte { return []byte(fmt.Sprintf("example.com/m%d v1.0.0 h1:x\n", d)) }

// Concrete returns the hash for a term given as raw JSON.
func (t *Terms) Concrete(raw json.RawMessage) Hash {
	key := string(raw)
	if h, ok := t.memo[key]; ok {
		return h
	}
	var parts []json.RawMessage
	if err := json.Unmarshal(raw, &parts); err != nil || len(parts) == 0 {
		panic("bad hash term " + key)
	}
	var tag string
	json.Unmarshal(parts[0], &tag)
	var h Hash
	switch tag {
	case "L":
		var d int
		json.Unmarshal(parts[1], &d)
		h = LeafHash(t.Rec(d))
	case "N":
		h = NodeHash(t.Concrete(parts[1]), t.Concrete(parts[2]))
	case "E":
		h = Empty
	case "J":
		var k int
		json.Unmarshal(parts[1], &k)
		h = Junk(k)
	default:
		panic("bad hash term tag " + tag)
	}
	t.memo[key] = h
	t.inv[h] = key
	return h
}

// Term returns the term for a known hash, or "Unknown".
func (t *Terms) Term(h Hash) string {
	if s, ok := t.inv[h]; ok {
		return s
	}
	return "Unknown"
}
