// vh is the Go side of /verif: it replays specification-generated cases into
// the real golang.org/x/mod packages and records real executions for trace
// validation by TLC.
package main

import (
	"encoding/json"
	"flag"
	"fmt"
	"os"
	"strconv"

	"verifharness/internal/core"
	_ "verifharness/internal/worlds"
)

func main() {
	if len(os.Args) < 2 {
		fmt.Fprintln(os.Stderr, "usage: vh replay <world> <file> | record <world> <out> -n N | one <file>")
		os.Exit(2)
	}
	seed := int64(1)
	if s := os.Getenv("VERIF_SEED"); s != "" {
		if v, err := strconv.ParseInt(s, 10, 64); err == nil {
			seed = v
		}
	}
	var rep *core.Report
	var err error
	switch os.Args[1] {
	case "replay":
		fs := flag.NewFlagSet("replay", flag.ExitOnError)
		workers := fs.Int("workers", 0, "parallel workers")
		fs.Parse(os.Args[4:])
		rep, err = core.Replay(os.Args[2], os.Args[3], *workers)
	case "record":
		fs := flag.NewFlagSet("record", flag.ExitOnError)
		n := fs.Int("n", 1000, "events")
		fs.Parse(os.Args[4:])
		rep, err = core.Record(os.Args[2], os.Args[3], seed, *n)
	case "one":
		rep, err = core.One(os.Args[2])
	default:
		err = fmt.Errorf("unknown command %q", os.Args[1])
	}
	if err != nil {
		fmt.Fprintln(os.Stderr, "vh:", err)
		os.Exit(2)
	}
	if rep.Violations == nil {
		rep.Violations = []core.Violation{}
	}
	if rep.Samples == nil {
		rep.Samples = []any{}
	}
	out, _ := json.Marshal(rep)
	fmt.Println(string(out))
}
