module verifharness

go 1.22.0

require golang.org/x/mod v0.0.0

replace golang.org/x/mod => /repo
