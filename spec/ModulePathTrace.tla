-------------------------- MODULE ModulePathTrace --------------------------
(* E3 for C06 / C11: mutated real-world module paths, glob lists and escape  *)
(* calls recorded from the real module package, re-evaluated by the          *)
(* specification (independent events: all mismatches are collected).         *)
EXTENDS ModulePathExp, TLC, Json
VARIABLES l, bad

Trace == ndJsonDeserialize("trace.ndjson")
ExpOf(e) ==
    CASE e.k = "path" -> ExpPathV(e.in.p, e.in.versions)
      [] e.k = "glob" -> ExpGlob(e.in.globs, e.in.target)
      [] e.k = "esc"  -> ExpEscape(e.in.s)
Init == l = 1 /\ bad = {}
Next == /\ l <= Len(Trace)
        /\ l' = l + 1
        /\ LET ok == Trace[l].obs = ExpOf(Trace[l]) IN
             /\ bad' = IF ok THEN bad ELSE bad \cup {l}
             /\ IF ok THEN TRUE ELSE PrintT(ToJson([k |-> "bad", in |-> [l |-> l], exp |-> ExpOf(Trace[l])]))
Done == l = Len(Trace) + 1 => PrintT(ToJson([k |-> "done", in |-> [n |-> Len(Trace), nbad |-> Cardinality(bad)]]))
=============================================================================
