-------------------------- MODULE SumdbServerGen --------------------------
(* E1 + E2 for the server: every sequence of MaxReq - 1 state-changing or   *)
(* state-reading requests followed by one request of any kind (tile reads   *)
(* do not change the state, so they only come last).                        *)
EXTENDS SumdbServer, TLC, Json

TileChoices == {<<l, t, w>> : l \in {-1, 0, 1}, t \in {0, 1}, w \in {1, 2, Pow2(H)}}
NextGen == /\ Len(reqs) < MaxReq
           /\ \/ \E k \in Keys : Lookup(k)
              \/ \E b \in BadKeys : BadLookup(b)
              \/ Latest
              \/ Len(reqs) = MaxReq - 1 /\ \E c \in TileChoices : Tile(c[1], c[2], c[3])
Emit == Len(reqs) = MaxReq =>
    PrintT(ToJson([w |-> "sumserver", k |-> "session", in |-> [h |-> H, reqs |-> [i \in 1..Len(reqs) |-> reqs[i].req]],
                   exp |-> [resps |-> [i \in 1..Len(reqs) |-> reqs[i].resp], log |-> log]]))
============================================================================
