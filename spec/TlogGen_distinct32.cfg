CONSTANTS
  MaxLen = 32
  Contents = {}
  MaxLevel = 6
  MaxK = 32
INIT Init
NEXT Next
INVARIANTS LayoutBijection ClosedFormAgrees StoreIsMTH CountMatches TreeHashIsMTH ReadsArePresent EmitState
