CONSTANTS
  MaxPieces = 3
INIT Init
NEXT Next
INVARIANTS Inclusions SplitShape CheckIsConjunction Emit
