------------------------------- MODULE Escape -------------------------------
(* Escaped paths and versions (C11): every upper-case ASCII letter X becomes  *)
(* "!x"; the result is safe on case-insensitive file systems.                 *)
EXTENDS ModulePath

RECURSIVE Esc(_)
Esc(s) == IF s = <<>> THEN <<>>
          ELSE (IF IsUpper(Head(s)) THEN <<cBang, Head(s) + 32>> ELSE <<Head(s)>>) \o Esc(Tail(s))
\* inputs that may be escaped
EscPathOK(p) == CheckPathOK(p)
EscVersionOK(v) == ElemOK(v, "file") /\ ~Contains(v, cBang) /\ \A i \in 1..Len(v) : IsAscii(v[i])
\* well-formed escaped strings: ASCII, no upper-case letter, every '!' followed by a lower-case letter
RECURSIVE WellEscaped(_)
WellEscaped(e) == IF e = <<>> THEN TRUE
                  ELSE IF ~IsAscii(Head(e)) \/ IsUpper(Head(e)) THEN FALSE
                  ELSE IF Head(e) = cBang THEN Len(e) >= 2 /\ IsLower(e[2]) /\ WellEscaped(Drop(e, 2))
                  ELSE WellEscaped(Tail(e))
RECURSIVE Unesc(_)
Unesc(e) == IF e = <<>> THEN <<>>
            ELSE IF Head(e) = cBang THEN <<e[2] - 32>> \o Unesc(Drop(e, 2)) ELSE <<Head(e)>> \o Unesc(Tail(e))
UnescPathOK(e) == WellEscaped(e) /\ CheckPathOK(Unesc(e))
UnescVersionOK(e) == WellEscaped(e) /\ ElemOK(Unesc(e), "file")

HasUpper(s) == \E i \in 1..Len(s) : IsUpper(s[i])
\* expected observables for one string taken as path, as version, as escaped path and as escaped version
ExpEscape(s) ==
    [escpath    |-> [ok |-> EscPathOK(s), out |-> IF EscPathOK(s) THEN Esc(s) ELSE <<>>],
     escvers    |-> [ok |-> EscVersionOK(s), out |-> IF EscVersionOK(s) THEN Esc(s) ELSE <<>>],
     unescpath  |-> [ok |-> UnescPathOK(s), out |-> IF UnescPathOK(s) THEN Unesc(s) ELSE <<>>],
     unescvers  |-> [ok |-> UnescVersionOK(s), out |-> IF UnescVersionOK(s) THEN Unesc(s) ELSE <<>>]]

\* E1 laws for one string
EscapeLaws(s) ==
    /\ (EscPathOK(s) \/ EscVersionOK(s)) => (~HasUpper(Esc(s)) /\ WellEscaped(Esc(s)) /\ Unesc(Esc(s)) = s)
    /\ EscPathOK(s) => UnescPathOK(Esc(s))
    /\ EscVersionOK(s) => UnescVersionOK(Esc(s))
    \* unescaping succeeds only on the escape of a valid input
    /\ UnescPathOK(s) => (EscPathOK(Unesc(s)) /\ Esc(Unesc(s)) = s)
    /\ UnescVersionOK(s) => (ElemOK(Unesc(s), "file") /\ Esc(Unesc(s)) = s)
=============================================================================
