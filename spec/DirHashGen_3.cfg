CONSTANTS
  MaxFiles = 3
INIT Init
NEXT Next
INVARIANTS OrderIndependent SortedByName Injective Emit
