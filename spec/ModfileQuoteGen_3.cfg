CONSTANTS
  MaxLen = 3
  Alphabet = "full"
INIT Init
NEXT Next
INVARIANTS OneToken OneTokenDir NoComment Emit
