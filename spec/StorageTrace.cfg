INIT Init
NEXT Next
INVARIANT Done
