CONSTANTS
  AuthFrom = "distinctTreeTiles"
  Heights = {1, 2, 3}
  MaxN = 20
  PairMaxN = 9
  MaxCorrupt = 2
  TwoCorruptMaxN = 7
INIT Init
NEXT Next
INVARIANTS HonestReturnsTruth OkImpliesTruth SavedAreTrue PlanClosed StepwiseAgrees Emit
