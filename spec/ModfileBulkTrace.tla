-------------------------- MODULE ModfileBulkTrace --------------------------
(* C16, layout clauses: the block structure of the output of SetRequire,       *)
(* SetRequireSeparateIndirect and SetUse, recorded from the real package, is    *)
(* judged by the predicates of the property:                                   *)
(*   BlockSorted  every block in its documented order (lexical by tokens;       *)
(*                excludes by path then semantic version from go 1.21;          *)
(*                retractions descending by low then high version);             *)
(*   OnePerPath   one requirement / use per path;                               *)
(*   CommentsKept leading and end-of-line comments of kept lines survive        *)
(*                (the indirect marker apart);                                  *)
(*   Separated    from a single uncommented line or block, the separate-        *)
(*                indirect variant leaves no block mixing direct and indirect.  *)
EXTENDS Semver, TLC, Json
VARIABLES l, nbad

Trace == ndJsonDeserialize("trace.ndjson")
e == Trace[l]

StrLess(a, b) == CmpSeq(S(a), S(b)) < 0
\* lexical order on token lists: first difference decides, a proper prefix sorts first
LexLess(x, y) ==
    LET n == IF Len(x) < Len(y) THEN Len(x) ELSE Len(y)
        diff == {k \in 1..n : x[k] # y[k]}
    IN IF diff = {} THEN Len(x) < Len(y)
       ELSE LET k == CHOOSE i \in diff : \A j \in diff : i <= j IN StrLess(x[k], y[k])
SemCmp(a, b) == Cmp(S(a), S(b))
ExcludeLess(x, y) ==
    IF Len(x) # 2 \/ Len(y) # 2 THEN LexLess(x, y)
    ELSE IF x[1] # y[1] THEN StrLess(x[1], y[1]) ELSE SemCmp(x[2], y[2]) < 0
Interval(x) == IF Len(x) = 1 THEN <<x[1], x[1]>>
               ELSE IF Len(x) = 5 /\ x[1] = "[" /\ x[3] = "," /\ x[5] = "]" THEN <<x[2], x[4]>> ELSE <<"", "">>
RetractLess(x, y) ==
    LET a == Interval(x) b == Interval(y) c == SemCmp(a[1], b[1])
    IN IF c # 0 THEN c > 0 ELSE SemCmp(a[2], b[2]) > 0
GoAtLeast121(g) == g \notin {"", "1.20", "1.19", "1.18", "1.17", "1.9", "1.3"}    \* numerically: 1.100 is at least 1.21, 1.9 is not
LessFor(verb, gov, x, y) ==
    IF verb = "exclude" /\ GoAtLeast121(gov) THEN ExcludeLess(x, y)
    ELSE IF verb = "retract" THEN RetractLess(x, y)
    ELSE LexLess(x, y)
BlockSorted(b, gov) ==
    b.block => \A i, j \in 1..Len(b.lines) : i < j => ~LessFor(b.verb, gov, b.lines[j].tokens, b.lines[i].tokens)

ContainsStr(h, n) == n = "" \/ \E i \in 1..(Len(h) - Len(n) + 1) : SubSeq(h, i, i + Len(n) - 1) = n
\* the marker is the word "indirect" alone, or "indirect;" followed by white space and more (a comment such as "indirect;see" is
\* an ordinary comment)
IsIndirect(ln) == ln.cs = "indirect" \/ (Len(ln.cs) > 10 /\ SubSeq(ln.cs, 1, 10) = "indirect; ")
KeyVerb == IF e.in.kind = "mod" THEN "require" ELSE "use"
KeyLines == LET bs == SelectSeq(e.obs.blocks, LAMBDA b : b.verb = KeyVerb)
                RECURSIVE Cat(_)
                Cat(s) == IF s = <<>> THEN <<>> ELSE Head(s).lines \o Cat(Tail(s))
            IN Cat(bs)
OnePerPath == \A i, j \in 1..Len(KeyLines) : i # j => KeyLines[i].vals[1] # KeyLines[j].vals[1]
CommentsKept == \A k \in {e.in.kept[i] : i \in 1..Len(e.in.kept)} :
                    \E i \in 1..Len(KeyLines) : /\ KeyLines[i].vals[1] = k.p
                                                /\ ContainsStr(KeyLines[i].cb, k.cb)
                                                /\ ContainsStr(KeyLines[i].cs, k.cs)
Separated == (e.in.separable /\ e.in.op = "SetRequireSeparateIndirect") =>
                \A b \in {e.obs.blocks[i] : i \in 1..Len(e.obs.blocks)} :
                    b.verb = "require" => (\A i \in 1..Len(b.lines) : IsIndirect(b.lines[i])) \/ (\A i \in 1..Len(b.lines) : ~IsIndirect(b.lines[i]))
\* exactly one directive per requested path with the requested version and marking, none for any other path
ExactSet ==
    IF e.in.kind = "mod"
    THEN /\ Len(KeyLines) = Len(e.in.req)
         /\ \A r \in {e.in.req[i] : i \in 1..Len(e.in.req)} :
               \E i \in 1..Len(KeyLines) : KeyLines[i].vals = <<r.p, r.v>> /\ IsIndirect(KeyLines[i]) = r.ind
    ELSE /\ Len(KeyLines) = Len(e.in.req)
         /\ \A r \in {e.in.req[i] : i \in 1..Len(e.in.req)} : \E i \in 1..Len(KeyLines) : KeyLines[i].vals = <<r>>
AllSorted == \A i \in 1..Len(e.obs.blocks) : BlockSorted(e.obs.blocks[i], e.in.gov)

Failed == (IF ExactSet THEN {} ELSE {"set"}) \cup (IF AllSorted THEN {} ELSE {"sorted"}) \cup (IF OnePerPath THEN {} ELSE {"one-per-path"})
          \cup (IF CommentsKept THEN {} ELSE {"comments"}) \cup (IF Separated THEN {} ELSE {"separated"})

Init == l = 1 /\ nbad = 0
Next == /\ l <= Len(Trace)
        /\ l' = l + 1
        /\ nbad' = nbad + (IF Failed = {} THEN 0 ELSE 1)
        /\ IF Failed = {} THEN TRUE
           ELSE PrintT(ToJson([k |-> "bad", in |-> [l |-> l, failed |-> Failed,
                                                    unsorted |-> {e.obs.blocks[i].verb : i \in {j \in 1..Len(e.obs.blocks) : ~BlockSorted(e.obs.blocks[j], e.in.gov)}}]]))
Done == l = Len(Trace) + 1 => PrintT(ToJson([k |-> "done", in |-> [n |-> Len(Trace), nbad |-> nbad]]))
=============================================================================
