CONSTANTS
  MaxOps = 1
  LayoutSet = "small"
  Kind = "work"
INIT Init
NEXT Next
INVARIANTS DedupIdempotent ErrorsChangeNothing BulkExact Emit
