---------------------------- MODULE SemverGen ----------------------------
(* E2 generators for the semver world.                                     *)
(*  Mode "chars":  every string over Alphabet up to MaxLen (BFS, one state  *)
(*                 per string, each state printed as a case).              *)
(*  Mode "tokens": strings built from multi-character tokens under a VIEW   *)
(*                 that keeps only the grammatical position, so that TLC    *)
(*                 visits each (position x next token) transition once and  *)
(*                 prints one, possibly long, string per transition.        *)
EXTENDS SemverExp, TLC, Json
CONSTANTS MaxLen, Mode
VARIABLE s

Alphabet == {C("v"), C("0"), C("1"), C("9"), C("."), C("-"), C("+"), C("a"), C("A"), C("x")}
Tokens == {S("v"), S("0"), S("1"), S("10"), S("01"), S("99999999999999999999"), S("."), S("-"), S("+"),
           S("a"), S("A"), S("a1"), S("1a"), S("0a"), S("--"), S("_"), S(" "), <<233>>, S("V"), S("incompatible")}
Refs == <<S("v1.0.0"), S("v1.0.0-a"), S("v0.1"), S("v1.0.0-1"), S("v10"), S("v1.0.0-a.1")>>

Case(x) == [w |-> "semver", k |-> "str", in |-> [s |-> x, refs |-> Refs], exp |-> ExpStr(x, Refs)]

Init == s = <<>>
NextChars == /\ Len(s) < MaxLen
             /\ \E c \in Alphabet : s' = Append(s, c)
NextTokens == /\ Len(s) < MaxLen
              /\ \E t \in Tokens : /\ s' = s \o t
                                   /\ PrintT(ToJson(Case(s')))
Next == IF Mode = "chars" THEN NextChars ELSE NextTokens

Emit == Mode = "chars" => PrintT(ToJson(Case(s)))

\* grammatical position of a (possibly invalid) prefix: what the last two characters were,
\* how many core dots, whether a prerelease / build part has started, validity so far
CharClass(c) == IF IsDigit(c) THEN IF c = 48 THEN "0" ELSE "d"
                ELSE IF IsAsciiLetter(c) THEN IF c = cV THEN "v" ELSE "l"
                ELSE IF c \in {cDot, cDash, cPlus} THEN <<c>> ELSE "o"
\* can the prefix still become a valid version?  (without this, a dead prefix such as "v.1." hides the live "v0.1.")
Viable(x) == \E c \in {<<>>, S("0"), S("a")} : Valid(x \o c)
View == <<Valid(s), Viable(s),
          IF Len(s) >= 1 THEN CharClass(s[Len(s)]) ELSE "",
          IF Len(s) >= 2 THEN CharClass(s[Len(s) - 1]) ELSE "",
          LET n == Cardinality({i \in 1..Len(s) : s[i] = cDot /\ ~\E j \in 1..i : s[j] \in {cDash, cPlus}})
          IN IF n > 3 THEN 3 ELSE n,
          Contains(s, cDash), Contains(s, cPlus),
          Len(s) >= 1 /\ s[1] = cV,
          \* is the current identifier all-numeric so far, and does it start with 0
          LET k == IF \E i \in 1..Len(s) : s[i] \in {cDot, cDash, cPlus}
                   THEN CHOOSE i \in 1..Len(s) : s[i] \in {cDot, cDash, cPlus} /\ \A j \in (i+1)..Len(s) : s[j] \notin {cDot, cDash, cPlus}
                   ELSE 1
              cur == Drop(s, k)
          IN <<AllDigits(cur), Len(cur) > 0 /\ cur[1] = 48>>>>
==========================================================================
