-------------------------------- MODULE ModZip --------------------------------
(* Module zip files (C05, C12, C17): which files of a list belong in the       *)
(* archive, what the archive contains, which archives are acceptable and what   *)
(* extraction produces.  Paths are character sequences; the rules are the       *)
(* documented ones in their documented order.                                   *)
(* A file of a list: [path, mode, size, lstat] with mode in "regular" "dir"     *)
(* "symlink" "irregular", size in "empty" "small" "big" (more than 16 MiB), lstat TRUE *)
(* when Lstat fails.                                                            *)
EXTENDS ModulePath

cSl == 47
GoMod == S("go.mod")
VendorSl == S("vendor/")
SlVendorSl == S("/vendor/")

\* ---- paths ----
Base(p) == LET i == IndexLast(p, cSl) IN IF i = 0 THEN p ELSE Drop(p, i)
DirOf(p) == LET i == IndexLast(p, cSl) IN IF i = 0 THEN <<>> ELSE Take(p, i)            \* with the trailing slash, "" for the root
IsAbs(p) == Len(p) > 0 /\ p[1] = cSl
\* p == path.Clean(p): no empty, "." or ".." element except leading ".." of a relative path, the root "/" and "." alone
IsClean(p) ==
    IF p = <<>> THEN FALSE
    ELSE IF p = <<cDot>> \/ p = <<cSl>> THEN TRUE
    ELSE LET e == Elems(IF IsAbs(p) THEN Drop(p, 1) ELSE p)
             dd == <<cDot, cDot>>
             lead == IF IsAbs(p) THEN 0 ELSE Cardinality({i \in 1..Len(e) : \A j \in 1..i : e[j] = dd})
         IN \A i \in 1..Len(e) : e[i] # <<>> /\ e[i] # <<cDot>> /\ (e[i] = dd => i <= lead)
\* Unicode simple case folding to a canonical representative, for the characters in use
FoldChar(c) == IF IsUpper(c) THEN c + 32
               ELSE IF c = 8490 THEN 107          \* KELVIN SIGN folds with k
               ELSE IF c = 383 THEN 115           \* LATIN SMALL LETTER LONG S folds with s
               ELSE IF c = 201 THEN 233           \* E-acute
               ELSE IF c \in {924, 956} THEN 181  \* capital and small mu fold with the micro sign (an orbit of three)
               ELSE IF c \in {914, 976} THEN 946  \* capital beta and the beta symbol fold with small beta
               ELSE c
Fold(s) == [i \in 1..Len(s) |-> FoldChar(s[i])]
EqualFold(a, b) == Fold(a) = Fold(b)
HasSubAt(s, sub, i) == i + Len(sub) - 1 <= Len(s) /\ SubSeq(s, i, i + Len(sub) - 1) = sub
IndexOfSub(s, sub) == LET hits == {i \in 1..Len(s) : HasSubAt(s, sub, i)} IN IF hits = {} THEN 0 ELSE CHOOSE i \in hits : \A j \in hits : i <= j

\* ---- vendored packages ----
\* ge124: the root go.mod declares go 1.24 or later
IsVendored(name, ge124) ==
    IF ge124 /\ name = S("vendor/modules.txt") THEN TRUE
    ELSE IF HasPrefix(name, VendorSl) THEN Contains(Drop(name, Len(VendorSl)), cSl)
    ELSE LET j == IndexOfSub(name, SlVendorSl) IN
         IF j = 0 THEN FALSE
         ELSE IF ge124 THEN Contains(Drop(name, j + Len(SlVendorSl) - 1), cSl)
              \* before 1.24 (golang.org/issue/37397) only the length of "/vendor/" was skipped, from the start of the name
              ELSE Contains(Drop(name, Len(SlVendorSl)), cSl)

\* ---- nested modules ----
\* directories (with trailing slash) that hold a regular file whose name is go.mod in any case
GoModDirs(files) == {DirOf(files[i].path) : i \in {j \in 1..Len(files) : EqualFold(Base(files[j].path), GoMod) /\ ~files[j].lstat /\ files[j].mode = "regular"}}
\* proper ancestor directories of p (with trailing slash), the root excluded
Ancestors(p) == {Take(p, i) : i \in {j \in 1..Len(p) : p[j] = cSl}}
InSubmodule(p, files) == Ancestors(p) \cap (GoModDirs(files) \ {<<>>}) # {}

\* ---- collisions ----
\* cc: function from folded path to [path, isDir]
RECURSIVE CollCheck(_, _, _)
CollCheck(cc, p, isDir) ==            \* <<ok, cc'>>
    LET f == Fold(p)
        parent == IF IndexLast(p, cSl) = 0 THEN <<>> ELSE Take(p, IndexLast(p, cSl) - 1)
        cc1 == IF f \in DOMAIN cc THEN cc ELSE [x \in DOMAIN cc \cup {f} |-> IF x = f THEN [path |-> p, isDir |-> isDir] ELSE cc[x]]
    IN IF f \in DOMAIN cc /\ (cc[f].path # p \/ cc[f].isDir # isDir \/ ~isDir) THEN <<FALSE, cc>>
       ELSE IF parent = <<>> THEN <<TRUE, cc1>> ELSE CollCheck(cc1, parent, TRUE)

\* ---- classification of a file list (CheckFiles) ----
\* result: [valid, omitted, invalid: sequences of paths in order of first report; sizeerr]
\* sizes in bytes: "big" is one byte over the 16 MiB limit of go.mod and LICENSE, "third" is 170 MiB (two fit into an archive,
\* three do not); "small" files are a few dozen bytes and count as nothing (no generated list comes within 1 KiB of the limit)
MaxZipFile == 524288000
SizeBytes(sz) == IF sz = "big" THEN 16777217 ELSE IF sz = "third" THEN 178257920 ELSE 0
Class0 == [valid |-> <<>>, omitted |-> <<>>, invalid |-> <<>>, cc |-> <<>>, reported |-> {}, sizeerr |-> FALSE, budget |-> MaxZipFile]
AddTo(c, list, p) == IF p \in c.reported THEN c ELSE [c EXCEPT ![list] = Append(@, p), !.reported = @ \cup {p}]
ClassOne(c, f, files, ge124) ==
    LET p == f.path IN
    IF ~IsClean(p) THEN AddTo(c, "invalid", p)
    ELSE IF IsAbs(p) THEN AddTo(c, "invalid", p)
    ELSE IF IsVendored(p, ge124) THEN AddTo(c, "omitted", p)
    ELSE IF InSubmodule(p, files) THEN AddTo(c, "omitted", p)
    ELSE IF p = S(".hg_archival.txt") THEN AddTo(c, "omitted", p)
    ELSE IF ~CheckFilePathOK(p) THEN AddTo(c, "invalid", p)
    ELSE IF LowerS(p) = GoMod /\ p # GoMod THEN AddTo(c, "invalid", p)
    ELSE IF f.lstat THEN AddTo(c, "invalid", p)
    ELSE LET r == CollCheck(c.cc, p, f.mode = "dir") IN
         IF ~r[1] THEN AddTo([c EXCEPT !.cc = r[2]], "invalid", p)
         ELSE LET c1 == [c EXCEPT !.cc = r[2]] IN
              IF f.mode = "symlink" THEN AddTo(c1, "omitted", p)
              ELSE IF f.mode # "regular" THEN AddTo(c1, "omitted", p)
              \* the total size: every regular file that got this far is charged to one budget of 500 MiB, in order; a file that no
              \* longer fits sets the size error and is not charged (a go.mod or LICENSE over its own limit is charged first)
              ELSE LET sz == SizeBytes(f.size)
                       c2 == IF sz <= c1.budget THEN [c1 EXCEPT !.budget = @ - sz] ELSE [c1 EXCEPT !.sizeerr = TRUE] IN
                   IF f.size \in {"big", "third"} /\ (p = GoMod \/ p = S("LICENSE")) THEN AddTo(c2, "invalid", p)
                   ELSE [c2 EXCEPT !.valid = Append(@, p)]
\* go.mod files whose Lstat fails are reported invalid while looking for nested modules, before anything else
PreErrors(files) == LET bad == SelectSeq(files, LAMBDA f : EqualFold(Base(f.path), GoMod) /\ f.lstat)
                    IN [i \in 1..Len(bad) |-> bad[i].path]
RECURSIVE ClassFrom(_, _, _, _)
ClassFrom(c, rest, files, ge124) == IF rest = <<>> THEN c ELSE ClassFrom(ClassOne(c, Head(rest), files, ge124), Tail(rest), files, ge124)
RECURSIVE AddAll(_, _)
AddAll(c, ps) == IF ps = <<>> THEN c ELSE AddAll(AddTo(c, "invalid", Head(ps)), Tail(ps))
Classify(files, ge124) ==
    LET c == ClassFrom(AddAll(Class0, PreErrors(files)), files, files, ge124)
    IN [valid |-> c.valid, omitted |-> c.omitted, invalid |-> c.invalid, sizeerr |-> c.sizeerr]

\* the go version class of the list: the last regular root go.mod decides
Ge124(files) == LET roots == {i \in 1..Len(files) : files[i].path = GoMod /\ files[i].mode = "regular" /\ ~files[i].lstat} IN
                roots # {} /\ files[CHOOSE i \in roots : \A j \in roots : j <= i].gover = "new"

\* ---- creation ----
\* with a valid module path and matching canonical version and honest sizes, creation succeeds iff nothing is invalid
CreateOK(files, ge124) == Classify(files, ge124).invalid = <<>> /\ ~Classify(files, ge124).sizeerr
Entries(prefix, files, ge124) == LET v == Classify(files, ge124).valid IN [i \in 1..Len(v) |-> prefix \o v[i]]

\* ---- archives (CheckZip / Unzip) ----
\* an entry: [name (raw), size: "ok" "big" (16 MiB + 1, honest) "lie-more" (content larger than declared) "lie-less"
\*            "lie-zero" (declares no content but has some)
\*            "dirmode" (an honest file entry whose mode bits say directory: still a file, the name has no trailing slash)
\*            "over" (declares 500 MiB + 1, more than an archive may hold) "huge" (declares 2^63, negative as a signed number)]
\* Sizes are added up over the file entries that pass the name checks; a total over the limit is an error of the
\* archive as a whole (sizeerr), not of an entry.
ZipOne(c, e, prefix) ==
    IF ~HasPrefix(e.name, prefix) THEN [c EXCEPT !.invalid = Append(@, e.name)]
    ELSE LET n0 == Drop(e.name, Len(prefix)) IN
         IF n0 = <<>> THEN c
         ELSE LET isDir == n0[Len(n0)] = cSl
                  n == IF isDir THEN Take(n0, Len(n0) - 1) ELSE n0 IN
              IF ~IsClean(n) THEN [c EXCEPT !.invalid = Append(@, e.name)]
              ELSE IF ~CheckFilePathOK(n) THEN [c EXCEPT !.invalid = Append(@, e.name)]
              ELSE LET r == CollCheck(c.cc, n, isDir) IN
                   IF ~r[1] THEN [c EXCEPT !.invalid = Append(@, e.name), !.cc = r[2]]
                   ELSE LET c1 == [c EXCEPT !.cc = r[2]] IN
                        IF isDir THEN c1
                        ELSE IF EqualFold(Base(n), GoMod) /\ (Base(n) # n \/ n # GoMod) THEN [c1 EXCEPT !.invalid = Append(@, e.name)]
                        ELSE LET c2 == [c1 EXCEPT !.sizeerr = @ \/ e.size \in {"over", "huge"}] IN
                             IF e.size \in {"big", "over"} /\ (n = GoMod \/ n = S("LICENSE")) THEN [c2 EXCEPT !.invalid = Append(@, e.name)]
                             ELSE [c2 EXCEPT !.valid = Append(@, e.name)]
RECURSIVE ZipFrom(_, _, _)
ZipFrom(c, es, prefix) == IF es = <<>> THEN c ELSE ZipFrom(ZipOne(c, Head(es), prefix), Tail(es), prefix)
CheckZip(entries, prefix) == LET c == ZipFrom(Class0, entries, prefix) IN [valid |-> c.valid, invalid |-> c.invalid, sizeerr |-> c.sizeerr]
\* extraction succeeds iff the check accepts and no file's content is larger than its declaration;
\* the tree is the set of relative names of the file entries
\* (directory entries, names ending in a slash, carry no content and are not extracted)
IsDirEntry(e) == Len(e.name) > 0 /\ e.name[Len(e.name)] = cSl
UnzipOK(entries, prefix) == CheckZip(entries, prefix).invalid = <<>> /\ ~CheckZip(entries, prefix).sizeerr /\ \A i \in 1..Len(entries) : IsDirEntry(entries[i]) \/ entries[i].size \notin {"lie-more", "lie-less", "lie-zero", "over", "huge"}
UnzipTree(entries, prefix) ==
    {Drop(entries[i].name, Len(prefix)) : i \in {j \in 1..Len(entries) : Len(entries[j].name) > Len(prefix) /\ entries[j].name[Len(entries[j].name)] # cSl}}
===============================================================================
