------------------------------ MODULE TlogGen ------------------------------
(* E2 generator for C09: every reachable state of Tlog is printed as a case  *)
(* with the hashes the append must return (as terms), the tree hash of every *)
(* prefix, the stored-hash count and the layout bijection; plus text cases.  *)
EXTENDS Tlog, TlogText, TLC, Json

EmitState ==
    n >= 1 =>
    PrintT(ToJson([w |-> "tlog", k |-> "append",
                   in  |-> [recs |-> recs],
                   exp |-> [new    |-> NewHashes(n - 1, recs[n], SubSeq(store, 1, Count(n - 1))),
                            count  |-> Count(n),
                            trees  |-> [m \in 1..n |-> MTH(recs, 0, m)],
                            coords |-> WriteSeq(n),
                            reads  |-> ReadSetForAppend(n - 1)]]))
============================================================================
