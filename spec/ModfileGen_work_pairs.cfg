CONSTANTS
  MaxOps = 2
  LayoutSet = "pairs"
  Kind = "work"
INIT Init
NEXT Next
INVARIANTS DedupIdempotent ErrorsChangeNothing BulkExact Emit
