---------------------------- MODULE SumdbMonitor ----------------------------
(* Observer layer for the checksum-database client (C01, C13, C14).           *)
(* Input: a trace recorded from the real sumdb.Client: every external          *)
(* operation (configuration writes, cache writes, security reports, served     *)
(* lookup responses) and every lookup start/end, each labelled by the recorder *)
(* with GROUND TRUTH from the world it built (which timeline and size a head   *)
(* belongs to and whether its signature is by the configured key; whether a    *)
(* record is the true record of a timeline; whether tile bytes are the true    *)
(* tile of a timeline).  The monitor speaks only about these observables: its  *)
(* checks are the clauses of the properties, nothing stronger.                 *)
(* Several runs are concatenated; a Reset event starts a new run.              *)
EXTENDS Integers, Sequences, FiniteSets, TLC, Json

Trace == ndJsonDeserialize("trace.ndjson")

VARIABLES l,        \* next event
          prefix,   \* records shared by the timelines of this run
          forked,   \* this run has two timelines
          cfg,      \* stored head (label)
          stored,   \* all good heads ever stored in this run
          faulty,   \* a corrupted response has been served in this run
          seckeys,  \* keys whose lookup ended in the security error since the client started (a repeated lookup returns the cached error)
          secs,     \* security reports received so far in this run: 0 none, 1 some but none with both heads, 2 one with both signed heads
          cur,      \* per lookup in progress: [key, cfgBefore, served, sec]  (function key -> record)
          fetched,  \* C14: set of <<client, key>> whose lookup file was read (cache or network) since the last restart
          bad       \* violated clauses: set of <<event index, clause>>

vars == <<l, prefix, forked, cfg, stored, faulty, secs, seckeys, cur, fetched, bad>>

Empty == [kind |-> "empty", tl |-> "P", n |-> 0]
\* ground truth: the tree of h1 is a prefix of the tree of h2
PrefixOf(h1, h2) == h1.n = 0 \/ (h1.n <= h2.n /\ (h1.tl = "P" \/ h1.tl = h2.tl))
Consistent(h1, h2) == PrefixOf(h1, h2) \/ PrefixOf(h2, h1)

e == Trace[l]
Has(f, x) == x \in DOMAIN f
Flag(c) == bad' = bad \cup {<<l, c>>}
FlagIf(conds) == bad' = bad \cup {<<l, c[2]>> : c \in {x \in conds : x[1]}}

Init == /\ l = 1 /\ prefix = 0 /\ forked = FALSE /\ cfg = Empty /\ stored = {} /\ faulty = FALSE /\ secs = 0 /\ seckeys = {}
        /\ cur = <<>> /\ fetched = {} /\ bad = {}

Step == l' = l + 1
Reset == /\ e.k = "Reset"
         /\ prefix' = e.in.prefix /\ forked' = e.in.forked /\ cfg' = e.in.cfg0
         /\ stored' = IF e.in.cfg0.kind = "good" THEN {e.in.cfg0} ELSE {}
         /\ faulty' = FALSE /\ secs' = 0 /\ seckeys' = {} /\ cur' = <<>> /\ fetched' = {}
         /\ UNCHANGED bad
LookupStart ==
    /\ e.k = "LookupStart"
    /\ cur' = [x \in DOMAIN cur \cup {e.in.g} |-> IF x = e.in.g THEN [key |-> e.in.key, cfgBefore |-> cfg, served |-> Empty, moved |-> FALSE, newsec |-> 0] ELSE cur[x]]
    /\ UNCHANGED <<prefix, forked, cfg, stored, faulty, secs, seckeys, fetched, bad>>
\* a lookup response (from the network or the cache) was handed to the client
Served ==
    /\ e.k = "Served"
    /\ cur' = IF Has(cur, e.in.g) THEN [cur EXCEPT ![e.in.g].served = e.in.head] ELSE cur
    /\ UNCHANGED <<prefix, forked, cfg, stored, faulty, secs, seckeys, fetched, bad>>
Fault ==
    /\ e.k = "Fault"
    /\ faulty' = TRUE
    /\ UNCHANGED <<prefix, forked, cfg, stored, secs, seckeys, cur, fetched, bad>>
\* C01 ConfigAuthentic, C13 ConfigChain and NoTwoTimelines
WriteConfig ==
    /\ e.k = "WriteConfig"
    /\ IF e.in.conflict
       THEN UNCHANGED <<cfg, stored, bad, cur>>
       ELSE /\ cfg' = e.in.new
            /\ stored' = stored \cup (IF e.in.new.kind = "good" THEN {e.in.new} ELSE {})
            /\ cur' = [x \in DOMAIN cur |-> [cur[x] EXCEPT !.moved = TRUE]]
            /\ FlagIf({<<e.in.new.kind # "good", "C01 stored head is not a tree head signed by the configured key">>,
                       <<e.in.new.kind = "good" /\ ~PrefixOf(cfg, e.in.new), "C13 stored head moved to a tree that does not contain the previous one">>,
                       <<e.in.new.kind = "good" /\ \E s \in stored : ~Consistent(s, e.in.new), "C13 two mutually inconsistent signed trees were both stored">>,
                       <<e.in.old # cfg, "C13 configuration write accepted although the old value did not match">>})
    /\ UNCHANGED <<prefix, forked, faulty, secs, seckeys, fetched>>
\* C01 CacheAuthentic
WriteCacheLookup ==
    /\ e.k = "WriteCacheLookup"
    /\ FlagIf({<<~(e.in.parsed /\ e.in.rec.kind = "true" /\ e.in.head.kind = "good"
                   /\ (e.in.rec.id < e.in.head.n => (e.in.rec.tl = "P" \/ e.in.rec.tl = e.in.head.tl))),
                 "C01 lookup cache file written with content that is not an authentic record under a signed head">>})
    /\ UNCHANGED <<prefix, forked, cfg, stored, faulty, secs, seckeys, cur, fetched>>
WriteCacheTile ==
    /\ e.k = "WriteCacheTile"
    /\ FlagIf({<<Len(e.in.truth) = 0, "C01 tile cache file written with bytes that are not the true tile of any timeline">>})
    /\ UNCHANGED <<prefix, forked, cfg, stored, faulty, secs, seckeys, cur, fetched>>
WriteCacheOther ==
    /\ e.k = "WriteCacheOther"
    /\ Flag("C01 unexpected cache file written")
    /\ UNCHANGED <<prefix, forked, cfg, stored, faulty, secs, seckeys, cur, fetched>>
\* the security callback was invoked; notes = how many signed heads of the world its message contains verbatim
Security ==
    /\ e.k = "Security"
    /\ secs' = IF e.in.notes >= 2 THEN 2 ELSE IF secs = 2 THEN 2 ELSE 1
    /\ cur' = [x \in DOMAIN cur |-> [cur[x] EXCEPT !.newsec = IF e.in.notes >= 2 THEN 2 ELSE IF @ = 2 THEN 2 ELSE 1]]
    /\ UNCHANGED <<prefix, forked, cfg, stored, faulty, seckeys, fetched, bad>>
\* C14 FetchOnce: the lookup file of a key is read at most once per client (until a restart)
Fetch ==
    /\ e.k = "Fetch"
    /\ fetched' = fetched \cup {<<e.in.c, e.in.key>>}
    /\ FlagIf({<<<<e.in.c, e.in.key>> \in fetched, "C14 the same lookup was fetched twice by one client">>})
    /\ UNCHANGED <<prefix, forked, cfg, stored, faulty, secs, seckeys, cur>>
Restart ==
    /\ e.k = "Restart"
    /\ fetched' = {p \in fetched : p[1] # e.in.c}
    /\ seckeys' = {}
    /\ UNCHANGED <<prefix, forked, cfg, stored, faulty, secs, cur, bad>>
\* C01 ResultAuthentic / HonestLive, C13 ForkRefused / SecurityHasBoth
LookupEnd ==
    /\ e.k = "LookupEnd"
    /\ LET c == cur[e.in.g] IN
       FlagIf({<<e.in.ok /\ e.in.lines = "other", "C01 lookup returned lines that are not those of an authentic record">>,
               <<~faulty /\ ~forked /\ ~e.in.skip /\ ~(e.in.ok /\ e.in.lines = "true"), "C01 honest server and cache but the lookup did not return the server's lines">>,
               <<e.w = "clientc14" /\ ~e.in.skip /\ ~(e.in.ok /\ e.in.lines = "true"), "C14 honest server but a concurrent lookup did not return exactly the server's lines">>,
               <<c.served.kind = "good" /\ c.cfgBefore.kind = "good" /\ ~Consistent(c.cfgBefore, c.served) /\ e.in.ok,
                 "C13 lookup succeeded although the server presented a signed tree inconsistent with the stored one">>,
               \* (a repeated lookup of a key returns the cached security error of the first one, without a new report)
               <<e.in.err = "security" /\ c.newsec = 0 /\ c.key \notin seckeys, "C13 security error without a security report">>,
               <<e.in.err = "security" /\ c.newsec = 1, "C13 security report does not carry both signed tree heads">>,
               <<e.in.skip /\ e.in.err # "skip", "C14 a path matching the private pattern list was not skipped">>})
    /\ cur' = [x \in DOMAIN cur \ {e.in.g} |-> cur[x]]
    /\ seckeys' = IF e.in.err = "security" THEN seckeys \cup {cur[e.in.g].key} ELSE seckeys
    /\ UNCHANGED <<prefix, forked, cfg, stored, faulty, secs, fetched>>
\* C14 at quiescence the stored head is the largest head any client received
Quiesce ==
    /\ e.k = "Quiesce"
    /\ FlagIf({<<~faulty /\ ~forked /\ e.in.maxServed > 0 /\ cfg.n # e.in.maxServed, "C14 at quiescence the stored head is not the largest tree any client received">>})
    /\ UNCHANGED <<prefix, forked, cfg, stored, faulty, secs, seckeys, cur, fetched>>

Next == l <= Len(Trace) /\ Step /\
        (Reset \/ LookupStart \/ Served \/ Fault \/ WriteConfig \/ WriteCacheLookup \/ WriteCacheTile \/ WriteCacheOther
         \/ Security \/ Fetch \/ Restart \/ LookupEnd \/ Quiesce)

\* every event is consumed (the trace is a behaviour of the monitor) and no clause was violated
Done == l = Len(Trace) + 1 =>
    PrintT(ToJson([k |-> "done", in |-> [n |-> Len(Trace), nbad |-> Cardinality(bad), bad |-> bad]]))
=============================================================================
