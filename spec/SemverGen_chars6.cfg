CONSTANTS
  MaxLen = 6
  Mode = "chars"
INIT Init
NEXT Next
INVARIANT Emit
