CONSTANTS
  MaxLen = 5
INIT Init
NEXT Next
INVARIANTS Laws Emit
