CONSTANTS
  MaxPieces = 4
INIT Init
NEXT Next
INVARIANTS Inclusions SplitShape CheckIsConjunction Emit
