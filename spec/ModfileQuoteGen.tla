------------------------- MODULE ModfileQuoteGen -------------------------
(* E1 + E2 for the quoting rule: every string of at most MaxLen characters  *)
(* over an alphabet with one representative of every class MustQuote,       *)
(* strconv.Quote and the lexer distinguish.  E1: OneToken / NoComment on    *)
(* every string.  E2: each string is printed with the specification's       *)
(* MustQuote verdict and AutoQuote text; the harness compares the real      *)
(* functions and pushes the string through AddUse/AddReplace + Format +     *)
(* strict parse.                                                            *)
EXTENDS ModfileQuote, TLC, Json
CONSTANTS MaxLen, Alphabet
VARIABLES s

Small == {97, SP, DQ, BSL, 40, SLASH, STAR, NL, 233, -255}
\* a, space, " ' ` \ ( ] , / * newline tab control DEL e-acute NBSP soft-hyphen line-separator private-use emoji noncharacter invalid-byte BEL x
Full == Small \cup {SQ, BQ, 93, 44, TAB, 1, 127, 160, 173, 8232, 57344, 128512, 1114111, 7, 120}
Chars == IF Alphabet = "small" THEN Small ELSE Full

Init == s = <<>>
Next == Len(s) < MaxLen /\ \E c \in Chars : s' = Append(s, c)

Lone == Len(s) = 1 /\ s[1] \in Brackets
CaseOf == [w |-> "modsyntax", k |-> "quote", in |-> [s |-> s],
           exp |-> [must |-> MustQuote(s), text |-> AutoQuote(s), lone |-> Lone,
                    \* the strict parser refuses a replacement directory with a backslash on a system whose separator is the slash
                    repl |-> ~Contains(s, BSL)]]
Emit == PrintT(ToJson(CaseOf))
OneToken == OneTokenOf(s)
NoComment == NoCommentOf(s)
\* the same for the string as a directory below the current one (how replace and use arguments are written)
OneTokenDir == OneTokenOf(S("./") \o s)
=============================================================================
