CONSTANTS
  MaxItems = 12
  Mode = "cover"
  Alphabet = "full"
INIT Init
NEXT Next
VIEW View2
INVARIANTS PositionsConsistent
