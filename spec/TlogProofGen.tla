---------------------------- MODULE TlogProofGen ----------------------------
(* E1 + E2 for C03.  One state per (record sequence, t, n, kind); in each     *)
(* state TLC checks the design-level properties over the whole mutation       *)
(* family of that tuple and prints every tuple with its verdict as a case.    *)
EXTENDS TlogProof, TLC, Json
CONSTANTS TMax,          \* largest tree size
          Contents       \* {} = all-distinct records; otherwise every sequence over Contents
VARIABLES phase, recs, t, n, kind

Size == TMax + 1
Distinct == [i \in 1..Size |-> i - 1]
AllSeqs == [1..Size -> Contents]

Init == phase = "hub" /\ recs = <<>> /\ t = 0 /\ n = 0 /\ kind = ""
Next ==
    \/ /\ phase = "hub"
       /\ phase' = "world"
       /\ recs' \in (IF Contents = {} THEN {Distinct} ELSE AllSeqs)
       /\ UNCHANGED <<t, n, kind>>
    \/ /\ phase = "world"
       /\ phase' = "size"
       /\ t' \in 1..TMax
       /\ UNCHANGED <<recs, n, kind>>
    \/ /\ phase = "size"
       /\ phase' = "tuple"
       /\ \/ kind' = "rec" /\ n' \in 0..(t - 1)
          \/ kind' = "tree" /\ n' \in 1..t
       /\ UNCHANGED <<recs, t>>

Tu == IF kind = "rec" THEN RecordTuple(t, n) ELSE TreeTuple(t, n)
Muts == Mutations(Tu, Size)
Verdict(m) == IF kind = "rec" THEN VerdictRecord(recs, m) ELSE VerdictTree(recs, m)

\* ---- E1 ----
Complete == phase = "tuple" => Verdict(Tu) = "accept"
TwoFormulationsAgree ==
    phase = "tuple" => \A m \in Muts \cup {Tu} :
        IF kind = "rec" THEN (InRangeRecord(m.t, m.n) => AgreeRecord(recs, m))
                        ELSE (InRangeTree(m.t, m.n) => AgreeTree(recs, m))
\* with the true root for the claimed size, an accepted tuple carries the true leaf / old root
SoundWithTrueRoot ==
    phase = "tuple" => \A m \in Muts :
        (Verdict(m) = "accept" /\ m.t <= Size /\ m.th = R(0, m.t)) =>
            IF kind = "rec" THEN T(recs, m.h) = MTH(recs, m.n, m.n + 1)
                            ELSE T(recs, m.h) = MTH(recs, 0, m.n)
\* mutating a hash of a valid proof to junk is always rejected
JunkRejected ==
    phase = "tuple" => \A i \in 1..Len(Tu.p) : Verdict([Tu EXCEPT !.p = Replace(Tu.p, i, J(1))]) = "reject"

\* a proof of the wrong length is always rejected (used by E3 on big trees)
LengthRejected ==
    phase = "tuple" => \A m \in Muts : (m.t = Tu.t /\ m.n = Tu.n /\ Len(m.p) # Len(Tu.p)) => Verdict(m) = "reject"
\* a junk leaf / old root or a junk new root is always rejected
EndsRejected ==
    phase = "tuple" => Verdict([Tu EXCEPT !.h = J(1)]) = "reject" /\ Verdict([Tu EXCEPT !.th = J(1)]) = "reject"

\* ---- E2 ----
CaseOf(m, mutated) == [w |-> "tlog", k |-> IF kind = "rec" THEN "proofrec" ELSE "prooftree",
                       in |-> [recs |-> recs, p |-> m.p, t |-> m.t, th |-> m.th, n |-> m.n, h |-> m.h, mutated |-> mutated],
                       exp |-> [v |-> Verdict(m)]]
Emit == phase = "tuple" =>
    /\ PrintT(ToJson([w |-> "tlog", k |-> IF kind = "rec" THEN "proverec" ELSE "provetree",
                      in |-> [recs |-> recs, t |-> t, n |-> n], exp |-> [p |-> Tu.p]]))
    /\ PrintT(ToJson(CaseOf(Tu, FALSE)))
    /\ \A m \in Muts : PrintT(ToJson(CaseOf(m, TRUE)))
=============================================================================
