CONSTANTS
  MaxLen = 6
INIT Init
NEXT Next
INVARIANTS Laws Emit
