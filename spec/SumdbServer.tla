---------------------------- MODULE SumdbServer ----------------------------
(* The checksum database server of the repository (sumdb.Server over         *)
(* sumdb.TestServer), the "honest server" of C01 / C13 / C14: an append-only *)
(* log of go.sum records, looked up by module@version, served with a signed  *)
(* tree head and as tiles.  Requests are atomic here (the implementation     *)
(* serialises them with one mutex).                                          *)
(*                                                                           *)
(* Module keys are small records [esc, path, ok]: esc = what the client puts *)
(* on the wire (escaped path @ escaped version), ok = whether that is well   *)
(* formed; the record text is a function of the key (the go.sum lines).      *)
EXTENDS Integers, Sequences, FiniteSets

CONSTANTS Keys,          \* well-formed module@version keys (model values or strings)
          BadKeys,       \* malformed lookup strings
          H,             \* tile height
          MaxReq         \* requests per behaviour
VARIABLES log,           \* sequence of keys: record id i holds the go.sum lines of log[i + 1]
          reqs           \* history: <<request, response>>

vars == <<log, reqs>>

IndexOf(k) == CHOOSE i \in 1..Len(log) : log[i] = k
Has(k) == \E i \in 1..Len(log) : log[i] = k

RECURSIVE Pow2(_)
Pow2(e) == IF e = 0 THEN 1 ELSE 2 * Pow2(e - 1)
\* number of hashes at tile level l (groups of 2^(l*H) records) in a log of n records
CountAt(n, l) == n \div Pow2(l * H)
\* a hash tile (l, t, w) exists when the log has all w hashes of it
TileExists(n, l, t, w) == w >= 1 /\ w <= Pow2(H) /\ t * Pow2(H) + w <= CountAt(n, l)

Init == log = <<>> /\ reqs = <<>>

\* /lookup/<key>: an unknown key is appended; the response carries the record id, the record, and a signed head of the
\* log as it is afterwards (so the head always covers the record)
Lookup(k) ==
    /\ LET log1 == IF Has(k) THEN log ELSE Append(log, k)
           id == IF Has(k) THEN IndexOf(k) - 1 ELSE Len(log)
       IN /\ log' = log1
          /\ reqs' = Append(reqs, [req |-> [op |-> "lookup", key |-> k], resp |-> [ok |-> TRUE, id |-> id, n |-> Len(log1)]])
\* a malformed lookup is refused and changes nothing
BadLookup(b) ==
    /\ reqs' = Append(reqs, [req |-> [op |-> "badlookup", key |-> b], resp |-> [ok |-> FALSE, id |-> 0, n |-> Len(log)]])
    /\ UNCHANGED log
\* /latest: the signed head of the current log (size 0 included)
Latest ==
    /\ reqs' = Append(reqs, [req |-> [op |-> "latest", key |-> ""], resp |-> [ok |-> TRUE, id |-> 0, n |-> Len(log)]])
    /\ UNCHANGED log
\* /tile/H/L/NNN[.p/W]: the hashes of the tile if the log has them all; data tiles (L = -1) carry the record texts
Tile(l, t, w) ==
    /\ reqs' = Append(reqs, [req |-> [op |-> "tile", key |-> "", l |-> l, t |-> t, w |-> w],
                             resp |-> [ok |-> IF l = -1 THEN w >= 1 /\ w <= Pow2(H) /\ t * Pow2(H) + w <= Len(log) ELSE TileExists(Len(log), l, t, w),
                                       id |-> 0, n |-> Len(log)]])
    /\ UNCHANGED log

Next == /\ Len(reqs) < MaxReq
        /\ \/ \E k \in Keys : Lookup(k)
           \/ \E b \in BadKeys : BadLookup(b)
           \/ Latest
           \/ \E l \in -1..2, t \in 0..2, w \in 1..Pow2(H) : Tile(l, t, w)
Spec == Init /\ [][Next]_vars

\* ---- what an honest server guarantees ----
NoDuplicates == \A i, j \in 1..Len(log) : log[i] = log[j] => i = j
AppendOnly == [][Len(log') >= Len(log) /\ SubSeq(log', 1, Len(log)) = log]_vars
\* every lookup response is covered by the head it carries, and ids never change
Covered == \A i \in 1..Len(reqs) : (reqs[i].req.op = "lookup") => reqs[i].resp.id < reqs[i].resp.n
StableIds == \A i, j \in 1..Len(reqs) :
    (reqs[i].req.op = "lookup" /\ reqs[j].req.op = "lookup" /\ reqs[i].req.key = reqs[j].req.key) => reqs[i].resp.id = reqs[j].resp.id
HeadsGrow == \A i, j \in 1..Len(reqs) : i <= j => reqs[i].resp.n <= reqs[j].resp.n
=============================================================================
