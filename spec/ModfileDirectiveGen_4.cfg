CONSTANTS
  MaxArgs = 4
INIT Init
NEXT Next
INVARIANT Emit
