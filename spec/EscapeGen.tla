------------------------------ MODULE EscapeGen ------------------------------
(* E1 + E2 for C11: every string over a small alphabet up to MaxLen, bare and  *)
(* behind the prefix "x.y/", taken as path, version, escaped path and escaped  *)
(* version; plus the fragment vocabulary of ModulePathGen.                     *)
EXTENDS Escape, TLC, Json
CONSTANTS MaxLen
VARIABLE s

Alphabet == {C("a"), C("z"), C("A"), C("Z"), C("!"), C("."), C("/"), C("1"), C("-"), C("+"), 233, 32}
\* a vocabulary of words whose validity depends on letter case (reserved Windows names, short-name suffixes),
\* alone and in pairs, bare and in escaped form
Frag == {S("con"), S("CON"), S("Con"), S("nul"), S("NUL"), S("com1"), S("COM1"), S("Com1"), S("lpt9"), S("LPT9"), S("aux"), S("AUX"),
         S("v1.0.0"), S("a"), S("A"), S("a~1"), S("A~1"), S("con.tar.gz"), S("LPT1.0.0-pre"), S("pkg~1.a.b"), S(".github")}
Words == Frag \cup {f \o <<sep>> \o g : f \in Frag, g \in Frag, sep \in {cDot, cSlash, C("-")}}
\* the escape character followed by every ASCII character (and one beyond): only a lower-case letter may follow it
Bangs == {S("a!") \o <<c>> \o S("b") : c \in (1..127) \cup {233}} \cup {S("v1.0.0-x!") \o <<c>> : c \in (1..127) \cup {233}}
\* gopkg.in paths (their suffix rule is part of path validity)
Gopkg == {S("gopkg.in/yaml.v2"), S("gopkg.in/yaml.v2-unstable"), S("gopkg.in/yaml.v"), S("gopkg.in/Shopify/sarama.v-unstable"), S("gopkg.in/Yaml.v02-unstable"), S("gopkg.in/yaml-unstable")}
Vocab == Words \cup {Esc(w) : w \in Words} \cup Bangs \cup Gopkg \cup {Esc(w) : w \in Gopkg}
Init == s = <<>>
Next == \/ Len(s) < MaxLen /\ \E c \in Alphabet : s' = Append(s, c)
        \/ s = <<>> /\ s' \in Vocab
Pre == S("x.y/")
Laws == EscapeLaws(s) /\ EscapeLaws(Pre \o s)
Emit == /\ PrintT(ToJson([w |-> "modpath", k |-> "esc", in |-> [s |-> s], exp |-> ExpEscape(s)]))
        /\ PrintT(ToJson([w |-> "modpath", k |-> "esc", in |-> [s |-> Pre \o s], exp |-> ExpEscape(Pre \o s)]))
=============================================================================
