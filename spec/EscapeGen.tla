------------------------------ MODULE EscapeGen ------------------------------
(* E1 + E2 for C11: every string over a small alphabet up to MaxLen, bare and  *)
(* behind the prefix "x.y/", taken as path, version, escaped path and escaped  *)
(* version; plus the fragment vocabulary of ModulePathGen.                     *)
EXTENDS Escape, TLC, Json
CONSTANTS MaxLen
VARIABLE s

Alphabet == {C("a"), C("z"), C("A"), C("Z"), C("!"), C("."), C("/"), C("1"), C("-"), C("+"), 233, 32}
Init == s = <<>>
Next == Len(s) < MaxLen /\ \E c \in Alphabet : s' = Append(s, c)
Pre == S("x.y/")
Laws == EscapeLaws(s) /\ EscapeLaws(Pre \o s)
Emit == /\ PrintT(ToJson([w |-> "modpath", k |-> "esc", in |-> [s |-> s], exp |-> ExpEscape(s)]))
        /\ PrintT(ToJson([w |-> "modpath", k |-> "esc", in |-> [s |-> Pre \o s], exp |-> ExpEscape(Pre \o s)]))
=============================================================================
