----------------------------- MODULE ModulePath -----------------------------
(* Module paths, import paths and file paths; major-version suffixes;        *)
(* path/version correspondence; private-module prefix patterns (C06).        *)
(* Written from the documentation of golang.org/x/mod/module, declaratively  *)
(* (splitting at separators, existence of decompositions), at character      *)
(* level.  Oracle precedence where the documentation and the pinned tests    *)
(* disagree: the tests (an element may contain two dots in a row).           *)
EXTENDS Integers, Sequences, FiniteSets, Chars, Digits, Semver

cSlash == 47
cTilde == 126
cBang == 33

\* ---- character classes ----
FirstPathOK(c) == c = cDash \/ c = cDot \/ IsDigit(c) \/ IsLower(c)
ModPathOK(c) == c \in {cDash, cDot, 95, cTilde} \/ IsDigit(c) \/ IsAsciiLetter(c)
ImportPathOK(c) == ModPathOK(c) \/ c = cPlus
FileAllowedPunct == {C("!"), C("#"), C("$"), C("%"), C("&"), C("("), C(")"), C("+"), C(","), C("-"), C("."), C("="), C("@"),
                     C("["), C("]"), C("^"), C("_"), C("{"), C("}"), C("~"), 32}
FileNameOK(c) == IF c >= 0 /\ c < 128 THEN IsDigit(c) \/ IsAsciiLetter(c) \/ c \in FileAllowedPunct
                 ELSE IsUnicodeLetter(c)
CharOK(c, kind) == IF kind = "module" THEN ModPathOK(c) ELSE IF kind = "import" THEN ImportPathOK(c) ELSE FileNameOK(c)

\* ---- elements ----
BadWindowsNames == {S("con"), S("prn"), S("aux"), S("nul"), S("com1"), S("com2"), S("com3"), S("com4"), S("com5"), S("com6"),
                    S("com7"), S("com8"), S("com9"), S("lpt1"), S("lpt2"), S("lpt3"), S("lpt4"), S("lpt5"), S("lpt6"), S("lpt7"),
                    S("lpt8"), S("lpt9")}
\* the part of an element before its first dot
ShortOf(e) == LET d == IndexFirst(e, cDot) IN IF d = 0 THEN e ELSE Take(e, d - 1)
\* "looks like a Windows short name": a tilde followed by one or more digits at the end
ShortNameLike(x) == LET t == IndexLast(x, cTilde) IN t > 0 /\ t < Len(x) /\ AllDigits(Drop(x, t))
ElemOK(e, kind) ==
    /\ Len(e) > 0
    /\ \E i \in 1..Len(e) : e[i] # cDot                          \* not made of dots only
    /\ (kind = "module" => e[1] # cDot)
    /\ e[Len(e)] # cDot
    /\ \A i \in 1..Len(e) : CharOK(e[i], kind)
    /\ LowerS(ShortOf(e)) \notin BadWindowsNames
    /\ (kind # "file" => ~ShortNameLike(ShortOf(e)))

\* ---- paths ----
ValidUTF8(p) == \A i \in 1..Len(p) : p[i] >= 0
Elems(p) == SplitOn(p, cSlash)
PathOK(p, kind) ==
    /\ ValidUTF8(p)
    /\ Len(p) > 0
    /\ (kind # "file" => p[1] # cDash)
    /\ \A i \in 1..Len(Elems(p)) : ElemOK(Elems(p)[i], kind)      \* no empty element: no leading, trailing or double slash

\* ---- major version suffix ----
GopkgPrefix == S("gopkg.in/")
Unstable == S("-unstable")
IsGopkg(p) == HasPrefix(p, GopkgPrefix)
\* the longest suffix of p made of characters satisfying P
TrailRun(p, P(_)) == LET bad == {j \in 1..Len(p) : ~P(p[j])}
                         j == IF bad = {} THEN 0 ELSE CHOOSE x \in bad : \A y \in bad : y <= x
                     IN Drop(p, j)
DigitOrDot(c) == IsDigit(c) \/ c = cDot
\* Split(p) = [prefix, suffix, ok]
SplitPlain(p) ==
    LET run == TrailRun(p, DigitOrDot)
        i == Len(p) - Len(run)                       \* characters before the run
    IN IF Len(run) = 0 \/ i < 2 \/ p[i] # cV \/ p[i - 1] # cSlash
       THEN [prefix |-> p, suffix |-> <<>>, ok |-> TRUE]            \* no /vN-like last element
       ELSE IF Contains(run, cDot) \/ run[1] = 48 \/ run = <<49>>   \* /v1.2, /v02, /v1 are not allowed
            THEN [prefix |-> p, suffix |-> <<>>, ok |-> FALSE]
            ELSE [prefix |-> Take(p, i - 2), suffix |-> Drop(p, i - 2), ok |-> TRUE]
SplitGopkg(p) ==
    LET body == IF HasSuffix(p, Unstable) THEN Take(p, Len(p) - Len(Unstable)) ELSE p
        run == TrailRun(body, IsDigit)
        i == Len(body) - Len(run)
    IN \* gopkg.in paths end in .vN or .vN-unstable for a number N without extra leading zero
       IF Len(run) = 0 \/ i < 2 \/ body[i] # cV \/ body[i - 1] # cDot \/ ~NoLeadingZero(run)
          \/ (run = <<48>> /\ HasSuffix(p, Unstable))              \* (the implementation has no .v0-unstable)
       THEN [prefix |-> p, suffix |-> <<>>, ok |-> FALSE]
       ELSE [prefix |-> Take(p, i - 2), suffix |-> Drop(p, i - 2), ok |-> TRUE]
Split(p) == IF IsGopkg(p) THEN SplitGopkg(p) ELSE SplitPlain(p)

\* the documented shapes of a split suffix
SuffixShapeOK(sfx) ==
    \/ sfx = <<>>
    \/ (Len(sfx) >= 3 /\ sfx[1] = cSlash /\ sfx[2] = cV /\ IsNum(Drop(sfx, 2)) /\ NoLeadingZero(Drop(sfx, 2)) /\ Drop(sfx, 2) # <<49>> /\ Drop(sfx, 2) # <<48>>)
    \/ (Len(sfx) >= 3 /\ sfx[1] = cDot /\ sfx[2] = cV /\
        LET n == IF HasSuffix(sfx, Unstable) THEN SubSeq(sfx, 3, Len(sfx) - Len(Unstable)) ELSE Drop(sfx, 2)
        IN IsNum(n) /\ NoLeadingZero(n))

\* ---- module paths ----
CheckPathOK(p) ==
    /\ PathOK(p, "module")
    /\ LET first == Elems(p)[1] IN
         /\ Contains(first, cDot)
         /\ first[1] # cDash
         /\ \A i \in 1..Len(first) : FirstPathOK(first[i])
    /\ Split(p).ok
CheckImportPathOK(p) == PathOK(p, "import")
CheckFilePathOK(p) == PathOK(p, "file")

\* ---- path / version correspondence ----
\* pm: a suffix as returned by Split
CheckPathMajorOK(v, pm) ==
    LET pm2 == IF HasPrefix(pm, S(".v")) /\ HasSuffix(pm, Unstable) THEN Take(pm, Len(pm) - Len(Unstable)) ELSE pm
        m == Major(v)
    IN \/ (HasPrefix(v, S("v0.0.0-")) /\ pm2 = S(".v1"))             \* old pseudo-versions for gopkg.in .v1
       \/ (pm2 = <<>> /\ (m = S("v0") \/ m = S("v1") \/ Build(v) = S("+incompatible")))
       \/ (pm2 # <<>> /\ m = Drop(pm2, 1))
CheckOK(p, v) == CheckPathOK(p) /\ Valid(v) /\ CheckPathMajorOK(v, Split(p).suffix)
\* the major-version tag prefix implied by a suffix
PathMajorPrefix(pm) ==
    IF pm = <<>> THEN <<>>
    ELSE Drop(IF HasPrefix(pm, S(".v")) /\ HasSuffix(pm, Unstable) THEN Take(pm, Len(pm) - Len(Unstable)) ELSE pm, 1)

\* ---- glob patterns (path.Match) ----
cStar == 42
cQuest == 63
cLB == 91
cRB == 93
cCaret == 94
cBSL == 92
\* parse a character class starting after '[': <<ok, negated, items, index after ']'>> ; items are <<lo, hi>> ranges
RECURSIVE ClassItems(_, _, _)
ClassItems(g, i, acc) ==
    \* at least one item is required before the closing bracket
    IF i > Len(g) THEN <<FALSE, acc, i>>
    ELSE IF g[i] = cRB /\ acc # <<>> THEN <<TRUE, acc, i + 1>>
    ELSE LET lo1 == IF g[i] = cBSL THEN (IF i + 1 > Len(g) THEN <<FALSE, 0, i>> ELSE <<TRUE, g[i + 1], i + 2>>)
                    ELSE IF g[i] = cRB \/ g[i] = cDash THEN <<FALSE, 0, i>>
                    ELSE <<TRUE, g[i], i + 1>> IN
         IF ~lo1[1] THEN <<FALSE, acc, i>>
         ELSE IF lo1[3] <= Len(g) /\ g[lo1[3]] = cDash
              THEN LET j == lo1[3] + 1
                       hi1 == IF j > Len(g) THEN <<FALSE, 0, j>>
                              ELSE IF g[j] = cBSL THEN (IF j + 1 > Len(g) THEN <<FALSE, 0, j>> ELSE <<TRUE, g[j + 1], j + 2>>)
                              ELSE IF g[j] = cRB \/ g[j] = cDash THEN <<FALSE, 0, j>>
                              ELSE <<TRUE, g[j], j + 1>>
                   IN IF ~hi1[1] THEN <<FALSE, acc, i>>              \* (a reversed range is well formed and matches nothing)
                      ELSE ClassItems(g, hi1[3], Append(acc, <<lo1[2], hi1[2]>>))
              ELSE ClassItems(g, lo1[3], Append(acc, <<lo1[2], lo1[2]>>))
\* is the whole pattern well formed (path.Match reports ErrBadPattern otherwise; such patterns are ignored)
RECURSIVE GlobWellFormed(_, _)
GlobWellFormed(g, i) ==
    IF i > Len(g) THEN TRUE
    ELSE IF g[i] = cBSL THEN (i + 1 <= Len(g) /\ GlobWellFormed(g, i + 2))
    ELSE IF g[i] = cLB
         THEN LET neg == i + 1 <= Len(g) /\ g[i + 1] = cCaret
                  r == ClassItems(g, IF neg THEN i + 2 ELSE i + 1, <<>>)
              IN r[1] /\ GlobWellFormed(g, r[3])
    ELSE GlobWellFormed(g, i + 1)
\* does pattern g from position i match s from position k (no character of s matched by * or ? or a class is '/')
RECURSIVE GM(_, _, _, _)
GM(g, i, s, k) ==
    IF i > Len(g) THEN k > Len(s)
    ELSE IF g[i] = cStar
         THEN GM(g, i + 1, s, k) \/ (k <= Len(s) /\ s[k] # cSlash /\ GM(g, i, s, k + 1))
    ELSE IF g[i] = cQuest THEN k <= Len(s) /\ s[k] # cSlash /\ GM(g, i + 1, s, k + 1)
    ELSE IF g[i] = cBSL THEN i + 1 <= Len(g) /\ k <= Len(s) /\ s[k] = g[i + 1] /\ GM(g, i + 2, s, k + 1)
    ELSE IF g[i] = cLB
         THEN LET neg == i + 1 <= Len(g) /\ g[i + 1] = cCaret
                  r == ClassItems(g, IF neg THEN i + 2 ELSE i + 1, <<>>)
              IN /\ r[1] /\ k <= Len(s) /\ s[k] # cSlash
                 /\ ((\E n \in 1..Len(r[2]) : r[2][n][1] <= s[k] /\ s[k] <= r[2][n][2]) # neg)
                 /\ GM(g, r[3], s, k + 1)
    ELSE k <= Len(s) /\ s[k] = g[i] /\ GM(g, i + 1, s, k + 1)
GlobMatch(g, s) == GlobWellFormed(g, 1) /\ GM(g, 1, s, 1)

\* some non-empty glob of the comma-separated list (one trailing slash removed) with N slashes matches the
\* first N+1 elements of the target
FirstElems(t, n) == LET e == Elems(t) IN IF Len(e) < n THEN <<>> ELSE JoinWith(SubSeq(e, 1, n), cSlash)
MatchPrefixPatterns(globs, target) ==
    \E n \in 1..Len(SplitOn(globs, 44)) :
        LET raw == SplitOn(globs, 44)[n]
            g == IF Len(raw) > 0 /\ raw[Len(raw)] = cSlash THEN Take(raw, Len(raw) - 1) ELSE raw
            k == 1 + Cardinality({i \in 1..Len(g) : g[i] = cSlash})
        IN Len(g) > 0 /\ Len(Elems(target)) >= k /\ GlobMatch(g, FirstElems(target, k))
=============================================================================
