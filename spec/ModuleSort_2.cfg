CONSTANTS
  MaxLen = 2
INIT Init
NEXT Next
INVARIANTS Irreflexive Asymmetric Transitive SortedIsOrdered Emit
