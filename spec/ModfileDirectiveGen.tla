------------------------- MODULE ModfileDirectiveGen -------------------------
(* E2 generator for C20 / C02 at the directive layer: every verb followed by    *)
(* every sequence of up to MaxArgs words, as a single line and as a one-line    *)
(* block.  Most of these are malformed directives: what is asked of the code is *)
(* that every exported parser returns (a file or positioned errors) without     *)
(* panicking or reporting an internal error, that the lax parser accepts what   *)
(* the strict one accepts with the same values, and - through the syntax        *)
(* specification's reading of the same text - that formatting keeps it.         *)
EXTENDS ModfileSyntax, TLC, Json
CONSTANTS MaxArgs
VARIABLES verb, args

Verbs == <<S("module"), S("go"), S("toolchain"), S("godebug"), S("require"), S("exclude"), S("replace"), S("retract"), S("tool"), S("use"), S("ignore"), S("frob")>>
Words == <<S("example.com/a"), S("v1.0.0"), S("v1"), S("=>"), S("../x"), S("[v1.0.0,"), S("v1.1.0]"), S("k=v"), S("1.21"), S("go1.21.0"), <<DQ, 113, SP, 114, DQ>>, S("//c")>>

RECURSIVE Join(_)
Join(ws) == IF ws = <<>> THEN <<>> ELSE <<SP>> \o Head(ws) \o Join(Tail(ws))
LineText == Verbs[verb] \o Join([i \in 1..Len(args) |-> Words[args[i]]]) \o <<NL>>
BlockText == Verbs[verb] \o <<SP>> \o S("(") \o <<NL, TAB>> \o (IF args = <<>> THEN <<>> ELSE Tail(Join([i \in 1..Len(args) |-> Words[args[i]]]))) \o <<NL>> \o S(")") \o <<NL>>
\* a module line first, so that directives that need one are judged on their own merits
WithModule(x) == S("module example.com/m") \o <<NL>> \o x

Init == verb = 0 /\ args = <<>>
Next == \/ verb = 0 /\ verb' \in 1..Len(Verbs) /\ UNCHANGED args
        \/ verb > 0 /\ Len(args) < MaxArgs /\ \E w \in 1..Len(Words) : args' = Append(args, w) /\ UNCHANGED verb

CaseOf(s, r) == [w |-> "modsyntax", k |-> "syn", in |-> [s |-> s],
                 exp |-> [ok |-> r.ok, why |-> r.why, stmts |-> r.stmts, comments |-> r.comments, marks |-> r.marks]]
Emit == verb > 0 =>
    /\ PrintT(ToJson(CaseOf(LineText, Parse(LineText))))
    /\ PrintT(ToJson(CaseOf(BlockText, Parse(BlockText))))
    /\ (verb > 1 => PrintT(ToJson(CaseOf(WithModule(LineText), Parse(WithModule(LineText))))))
==============================================================================
