CONSTANTS
  Size = "full"
INIT Init
NEXT Next
INVARIANTS Reflexive Antisymmetric Total ZeroIffCanonical InvalidLowest CanonicalFixed Transitive MemoAgrees EmitRank
