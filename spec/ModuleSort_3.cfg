CONSTANTS
  MaxLen = 3
INIT Init
NEXT Next
INVARIANTS Irreflexive Asymmetric Transitive SortedIsOrdered Emit
