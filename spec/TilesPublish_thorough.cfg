CONSTANTS
  AuthFrom = "distinctTreeTiles"
  Heights = {1, 2, 3}
  MaxN = 40
  MaxSteps = 2
INIT Init
NEXT Next
INVARIANTS PublishedSuffices PlansWithinTiles Emit
