---------------------------- MODULE Digits ----------------------------
(* Decimal numbers of any length as sequences of digit characters.     *)
(* TLC integers are 32-bit, so numeric comparison is done by padding,  *)
(* a different formulation from the code's "shorter is smaller".       *)
EXTENDS Integers, Sequences, Chars

AllDigits(d) == \A i \in 1..Len(d) : IsDigit(d[i])
IsNum(d) == Len(d) > 0 /\ AllDigits(d)
NoLeadingZero(d) == Len(d) = 1 \/ d[1] # 48
Zeros(n) == [i \in 1..n |-> 48]
PadTo(d, n) == Zeros(n - Len(d)) \o d
\* numeric comparison of two digit strings (leading zeros allowed)
CmpNum(a, b) == LET n == IF Len(a) > Len(b) THEN Len(a) ELSE Len(b)
                IN CmpSeq(PadTo(a, n), PadTo(b, n))

\* strip leading zeros (keeping one digit)
RECURSIVE StripZeros(_)
StripZeros(d) == IF Len(d) > 1 /\ d[1] = 48 THEN StripZeros(Tail(d)) ELSE d

\* d + 1 on digit strings, from the school algorithm
RECURSIVE IncD(_)
IncD(d) == IF d = <<>> THEN <<49>>
           ELSE LET last == d[Len(d)] init == Take(d, Len(d) - 1)
                IN IF last = 57 THEN IncD(init) \o <<48>> ELSE init \o <<last + 1>>
\* d - 1 for d > 0 (no leading zero in d); result without leading zeros
RECURSIVE DecRaw(_)
DecRaw(d) == LET last == d[Len(d)] init == Take(d, Len(d) - 1)
             IN IF last = 48 THEN DecRaw(init) \o <<57>> ELSE init \o <<last - 1>>
DecD(d) == StripZeros(DecRaw(d))

RECURSIVE ToDigits(_)
ToDigits(n) == IF n < 10 THEN <<48 + n>> ELSE ToDigits(n \div 10) \o <<48 + (n % 10)>>
RECURSIVE ToNat(_)
ToNat(d) == IF d = <<>> THEN 0 ELSE 10 * ToNat(Take(d, Len(d) - 1)) + (d[Len(d)] - 48)
Pad3(n) == PadTo(ToDigits(n), 3)
=======================================================================
