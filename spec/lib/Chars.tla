---------------------------- MODULE Chars ----------------------------
(* Strings cross the spec/code boundary as sequences of integers: a Unicode  *)
(* code point, or -b for a byte b that is not part of valid UTF-8.           *)
(* S("abc") turns a TLA+ string literal (printable ASCII) into that form.    *)
EXTENDS Integers, Sequences, FiniteSets

ASCII == " !\"#$%&'()*+,-./0123456789:;<=>?@ABCDEFGHIJKLMNOPQRSTUVWXYZ[\\]^_`abcdefghijklmnopqrstuvwxyz{|}~"
CodeTab == [i \in 1..Len(ASCII) |-> SubSeq(ASCII, i, i)]
Code(ch) == 31 + CHOOSE i \in 1..Len(ASCII) : CodeTab[i] = ch
S(str) == [i \in 1..Len(str) |-> Code(SubSeq(str, i, i))]
C(ch) == Code(ch)

IsDigit(c)       == c >= 48 /\ c <= 57
IsLower(c)       == c >= 97 /\ c <= 122
IsUpper(c)       == c >= 65 /\ c <= 90
IsAsciiLetter(c) == IsLower(c) \/ IsUpper(c)
IsAscii(c)       == c >= 0 /\ c < 128
Invalid(c)       == c < 0            \* a byte that is not valid UTF-8
Lower(c)         == IF IsUpper(c) THEN c + 32 ELSE c
LowerS(s)        == [i \in 1..Len(s) |-> Lower(s[i])]

\* Non-ASCII representatives used by the generators, with their Go unicode classes.
\* 233 e-acute (Ll), 201 E-acute (Lu), 8490 Kelvin sign (Lu, folds to k), 383 long s (Ll, folds to s),
\* 8212 em dash (Pd), 160 NBSP (Zs), 1 control, 127 DEL, 65533 replacement char (So), 42 etc ASCII.
\* three-member case-folding orbits: micro sign 181 / capital Mu 924 / small mu 956; small beta 946 / capital Beta 914 / beta symbol 976
UnicodeLetters == {233, 201, 8490, 383, 946, 20013, 181, 924, 956, 914, 976}
IsUnicodeLetter(c) == IsAsciiLetter(c) \/ c \in UnicodeLetters
IsSpaceUni(c) == c \in {9, 10, 11, 12, 13, 32, 133, 160}
IsControl(c) == (c >= 0 /\ c < 32) \/ (c >= 127 /\ c < 160)

\* UTF-8 encoded length of one element
Utf8Len(c) == IF c < 0 THEN 1 ELSE IF c < 128 THEN 1 ELSE IF c < 2048 THEN 2 ELSE IF c < 65536 THEN 3 ELSE 4
RECURSIVE ByteLen(_)
ByteLen(s) == IF s = <<>> THEN 0 ELSE Utf8Len(Head(s)) + ByteLen(Tail(s))

\* ---- generic sequence helpers ----
IndexFirst(s, c) == IF \E i \in 1..Len(s) : s[i] = c
                    THEN CHOOSE i \in 1..Len(s) : s[i] = c /\ \A j \in 1..(i-1) : s[j] # c
                    ELSE 0
IndexLast(s, c) == IF \E i \in 1..Len(s) : s[i] = c
                   THEN CHOOSE i \in 1..Len(s) : s[i] = c /\ \A j \in (i+1)..Len(s) : s[j] # c
                   ELSE 0
Drop(s, n) == SubSeq(s, n + 1, Len(s))
Take(s, n) == SubSeq(s, 1, n)
HasPrefix(s, p) == Len(s) >= Len(p) /\ SubSeq(s, 1, Len(p)) = p
HasSuffix(s, p) == Len(s) >= Len(p) /\ SubSeq(s, Len(s) - Len(p) + 1, Len(s)) = p
Contains(s, c) == \E i \in 1..Len(s) : s[i] = c

\* Split s on separator c into a sequence of (possibly empty) pieces; always at least one piece.
RECURSIVE SplitOn(_, _)
SplitOn(s, c) ==
    LET i == IndexFirst(s, c)
    IN IF i = 0 THEN <<s>> ELSE <<Take(s, i - 1)>> \o SplitOn(Drop(s, i), c)

RECURSIVE JoinWith(_, _)
JoinWith(parts, c) ==
    IF Len(parts) = 0 THEN <<>>
    ELSE IF Len(parts) = 1 THEN parts[1]
    ELSE parts[1] \o <<c>> \o JoinWith(Tail(parts), c)

RECURSIVE Concat(_)
Concat(parts) == IF parts = <<>> THEN <<>> ELSE Head(parts) \o Concat(Tail(parts))

\* code-unit (byte-wise for ASCII; code-point order coincides with UTF-8 byte order) comparison: -1, 0, +1
RECURSIVE CmpSeq(_, _)
CmpSeq(a, b) ==
    IF a = <<>> /\ b = <<>> THEN 0
    ELSE IF a = <<>> THEN -1
    ELSE IF b = <<>> THEN 1
    ELSE IF Head(a) < Head(b) THEN -1
    ELSE IF Head(a) > Head(b) THEN 1
    ELSE CmpSeq(Tail(a), Tail(b))

AllIn(s, P(_)) == \A i \in 1..Len(s) : P(s[i])
=======================================================================
