---------------------------- MODULE HashTerms ----------------------------
(* Hashes are terms of a free algebra: equality of terms is equality of   *)
(* hashes (trusted base: SHA-256 collision resistance and the RFC 6962    *)
(* domain separation between leaves and interior nodes).                  *)
EXTENDS Integers, Sequences

Leaf(d)    == <<"L", d>>          \* SHA-256(0x00 || record d)
Node(l, r) == <<"N", l, r>>       \* SHA-256(0x01 || l || r)
EmptyH     == <<"E">>             \* SHA-256("")
Junk(k)    == <<"J", k>>          \* an arbitrary value that is not any hash of the world

\* largest power of two strictly smaller than n (n >= 2): the RFC 6962 split point
RECURSIVE Pow2Below(_)
Pow2Below(n) == IF n <= 2 THEN 1 ELSE 2 * Pow2Below((n + 1) \div 2)
RECURSIVE Pow2(_)
Pow2(e) == IF e = 0 THEN 1 ELSE 2 * Pow2(e - 1)
IsPow2(n) == n = 1 \/ (n >= 2 /\ Pow2Below(n) * 2 = n)

\* RFC 6962 section 2.1: Merkle Tree Hash of records D[lo:hi] (0-based, hi exclusive);
\* recs is the 1-based sequence of record contents.
RECURSIVE MTH(_, _, _)
MTH(recs, lo, hi) ==
    IF hi = lo THEN EmptyH
    ELSE IF hi = lo + 1 THEN Leaf(recs[lo + 1])
    ELSE LET k == Pow2Below(hi - lo) IN Node(MTH(recs, lo, lo + k), MTH(recs, lo + k, hi))
==========================================================================
