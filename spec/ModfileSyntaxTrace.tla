-------------------------- MODULE ModfileSyntaxTrace --------------------------
(* E3 for C02 / C20: inputs obtained by byte-level mutation of the repository's  *)
(* fixture files (and token soups), recorded with what the real syntax parser    *)
(* made of them.  The specification parses each logged input itself and          *)
(* compares verdict, statements, tokens and comment texts; the flags computed    *)
(* by the recorder on the real code (round trip through Format preserved the     *)
(* first parse, second Format changed nothing, every position agrees with the    *)
(* input, no panic / hang / internal error) must all be TRUE.                    *)
(* Events "synbig" (very long lines, very large blocks) carry only the flags.    *)
EXTENDS ModfileSyntax, TLC, Json
VARIABLES l, bad

Trace == ndJsonDeserialize("trace.ndjson")

Flags == [total |-> TRUE, roundtrip |-> TRUE, idempotent |-> TRUE, positions |-> TRUE]
ExpOf(e) ==
    IF e.k = "synbig" THEN Flags
    ELSE LET r == Parse(e.in.s) IN
         [ok |-> r.ok, stmts |-> r.stmts, comments |-> r.comments, flags |-> Flags]
EventOK(e) == e.obs = ExpOf(e)

Init == l = 1 /\ bad = {}
Next == /\ l <= Len(Trace)
        /\ l' = l + 1
        /\ LET ok == EventOK(Trace[l]) IN
             /\ bad' = IF ok THEN bad ELSE bad \cup {l}
             /\ IF ok THEN TRUE ELSE PrintT(ToJson([k |-> "bad", in |-> [l |-> l], exp |-> ExpOf(Trace[l])]))
Done == l = Len(Trace) + 1 => PrintT(ToJson([k |-> "done", in |-> [n |-> Len(Trace), nbad |-> Cardinality(bad)]]))
===============================================================================
