CONSTANTS
  Keys = {"a", "b"}
  Vals = {"1", "2"}
  MaxTx = 2
INIT Init
NEXT Next
INVARIANTS FailedLeavesNothing ReadsSeeCommitted Emit
