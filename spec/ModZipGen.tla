------------------------------ MODULE ModZipGen ------------------------------
(* E1 + E2 for C05 / C12 / C17.                                                *)
(*  "files": lists of files over a curated path set (every rule and pairwise   *)
(*           interaction has witnesses) x modes x size classes x go versions.  *)
(*  "zip":   archives as lists of raw entries (prefix variants x name variants *)
(*           x size declarations).                                             *)
EXTENDS ModZip, TLC, Json
CONSTANTS Size, MaxList, MaxZip      \* MaxList = 0 / MaxZip = 0 switch a family off
VARIABLES phase, lst

Prefix == S("example.com/m@v1.0.0/")
PathsCore == <<S("a"), S("A"), S("b.go"), S("go.mod"), S("GO.MOD"), S("sub/go.mod"), S("sub/a.go"), S("vendor/p/x.go"), S("vendor/modules.txt"),
               S("pkg/vendor/vendor.go"), S("pkg/vendor/p/x.go"), S("dir/f"), S("dirx/f"), S("DIR/g"), S("testdata/example.com/m@v1.0.0/m.go"), S("logo.mod"), S("x/a.go.mod"), S("dir/LICENSE"), S(".git"), S("testdata/.hg/hgrc"), S("b.go/c"), S("LICENSE"), S("a//b"), S("/abs"), S("con"), <<233>>, <<201>>,
               \* a file two levels below a nested module; names with a tab, a carriage return at the end, DEL
               S("sub/sub2/b.go"), S("docs/aux.tar.gz"), S("vendor/p/vendor/q.go"), S("pkg/vendor/a/vendor/b.go"), S("pkg/vendor/a/vendor/modules.txt"), <<97, 9, 98>>, <<73, 99, 111, 110, 13>>, <<97, 127>>,
               \* digits that are not ASCII (Arabic-Indic three, full-width two): not letters, so not allowed
               <<100, 1635>>, <<118, 65298, 47, 100>>>>
PathsMore == <<S("Go.Mod"), S("sub/GO.MOD"), S("Sub/x"), S("vendor/x.go"), <<8490>>, S("k"), <<383>>, S("s"), S("aux.txt"), S("a~1"), S("a b"), S("."), S(".."), S("../a"),
               S("a."), S(".hg_archival.txt"), S("a/b"), S("a/"), S("a/./b"), S("a/../b"), S("x*y"), S("vendor/modules.txt/x"), <<181>>, <<924>>, <<956>>, <<946>>, <<914>>,
               \* a nested module inside a vendor directory below the root, a reserved name with two extensions,
               \* a tree that repeats the module's own path@version
               S("pkg/vendor/go.mod"), S("aux.tar.gz")>>
Paths == IF Size = "small" THEN PathsCore ELSE PathsCore \o PathsMore
File(p, mode, size, lstat, gover) == [path |-> p, mode |-> mode, size |-> size, lstat |-> lstat, gover |-> gover]
Variants(p) ==
    {File(p, "regular", "small", FALSE, "none")}
    \cup (IF p \in {S("a"), S("dir/f"), S("go.mod"), S("sub/go.mod"), S("b.go")} THEN {File(p, "dir", "small", FALSE, "none"), File(p, "symlink", "small", FALSE, "none"),
                                                                                      File(p, "irregular", "small", FALSE, "none"), File(p, "regular", "small", TRUE, "none")} ELSE {})
    \cup (IF p \in {S("go.mod"), S("LICENSE"), S("a"), S("dir/LICENSE")} THEN {File(p, "regular", "big", FALSE, "none")} ELSE {})
    \cup (IF p = S("go.mod") THEN {File(p, "regular", "small", FALSE, g) : g \in {"old", "new", "bad"}} ELSE {})
    \cup (IF p \in {S("a"), S("dir/f")} THEN {File(p, "regular", "empty", FALSE, "none")} ELSE {})
AllFiles == UNION {Variants(Paths[i]) : i \in 1..Len(Paths)}
\* archive entries
Rel == <<S("a.go"), S("A.GO"), S("d/b.go"), S("D/c.go"), S("a.go/x"), S("go.mod"), S("Go.Mod"), S("sub/go.mod"), S("LICENSE"), S("../evil"), S("d/../../evil"),
         S("/abs"), S("d//e"), S("./f"), S("d/"), S("con"), <<-255>>, S("d\\e"), <<>>, S("vendor/p/x.go"), <<924>>, <<956>>, <<181, 47, 97>>, <<100, 1635, 46, 103, 111>>, <<118, 65298, 47, 100>>,
         \* a directory whose name is a string prefix, not an ancestor, of the directory before it
         S("ab/x.go"), S("a/y.go")>>
PrefixVariants == <<Prefix, S("example.com/M@v1.0.0/"), <<>>, S("example.com/m@v1.0.1/")>>
Entry(n, sz) == [name |-> n, size |-> sz]
EntryVariants == {Entry(Prefix \o Rel[i], "ok") : i \in 1..Len(Rel)}
                 \cup {Entry(PrefixVariants[j] \o S("a.go"), "ok") : j \in 2..Len(PrefixVariants)}
                 \cup {Entry(Prefix \o S("a.go"), s) : s \in {"lie-more", "lie-less", "lie-zero", "dirmode"}}
                 \cup {Entry(Prefix \o n, "big") : n \in {S("go.mod"), S("LICENSE"), S("a.go")}}
                 \cup {Entry(Prefix \o S("a.go"), "over"), Entry(Prefix \o S("a.go"), "huge"), Entry(Prefix \o S("go.mod"), "huge"), Entry(Prefix \o S("d/"), "huge")}

\* archives of four entries are built over a core of the variants (the full set to the fourth power is 1.5 million archives)
CoreEntries == {Entry(Prefix \o Rel[i], "ok") : i \in {1, 2, 3, 5, 6, 7, 10, 15}}
               \cup {Entry(Prefix \o S("a.go"), s) : s \in {"lie-more", "lie-zero", "huge"}}
               \cup {Entry(PrefixVariants[2] \o S("a.go"), "ok"), Entry(Prefix \o S("go.mod"), "big")}
EV == IF MaxZip >= 4 THEN CoreEntries ELSE EntryVariants
\* lists for the total-size rule: three files of 170 MiB in every order, alone and with a small file at every place (none of them
\* can be created); two of them, and two around a small go.mod (both can)
Thirds == <<File(S("a"), "regular", "third", FALSE, "none"), File(S("b.go"), "regular", "third", FALSE, "none"), File(S("dir/f"), "regular", "third", FALSE, "none")>>
SmallOnes == {File(S("go.mod"), "regular", "small", FALSE, "none"), File(S("c"), "regular", "small", FALSE, "none")}
Perm3 == {<<Thirds[i], Thirds[j], Thirds[k]>> : i, j, k \in 1..3} \ {x \in {<<Thirds[i], Thirds[j], Thirds[k]>> : i, j, k \in 1..3} : x[1] = x[2] \/ x[2] = x[3] \/ x[1] = x[3]}
InsertAt(s, k, x) == SubSeq(s, 1, k) \o <<x>> \o SubSeq(s, k + 1, Len(s))
SizeLists == Perm3 \cup {InsertAt(p, k, x) : p \in Perm3, k \in 0..3, x \in SmallOnes}
             \cup {<<Thirds[1], Thirds[2]>>, <<Thirds[3], CHOOSE x \in SmallOnes : x.path = S("go.mod"), Thirds[1]>>}
Init == phase = "hub" /\ lst = <<>>
Next == \/ /\ phase = "hub" /\ Size = "sizes" /\ phase' = "files" /\ lst' \in SizeLists
        \/ /\ phase = "hub" /\ Size # "sizes" /\ MaxList > 0 /\ phase' = "files" /\ lst' \in {<<f>> : f \in AllFiles}
        \/ /\ phase = "files" /\ Size # "sizes" /\ Len(lst) < MaxList /\ phase' = "files" /\ \E f \in AllFiles : lst' = Append(lst, f)
        \/ /\ phase = "hub" /\ MaxZip > 0 /\ phase' = "zip" /\ lst' \in {<<e>> : e \in EV}
        \/ /\ phase = "zip" /\ Len(lst) < MaxZip /\ phase' = "zip" /\ \E e \in EV : lst' = Append(lst, e)

G == Ge124(lst)
Cl == Classify(lst, G)
PathsOf(fs) == {fs[i].path : i \in 1..Len(fs)}
SeqSet(s) == {s[i] : i \in 1..Len(s)}
Once(p) == Cardinality({i \in 1..Len(lst) : lst[i].path = p}) = 1
\* ---- E1 (files) ----
ExactlyOneList == phase = "files" => \A p \in PathsOf(lst) :
    Once(p) => Cardinality({l \in {"valid", "omitted", "invalid"} : p \in SeqSet(Cl[l])}) = 1
ValidAreSound == phase = "files" => \A i \in 1..Len(Cl.valid) :
    LET p == Cl.valid[i] IN
    /\ IsClean(p) /\ ~IsAbs(p) /\ CheckFilePathOK(p) /\ ~IsVendored(p, G) /\ ~InSubmodule(p, lst)
    /\ (EqualFold(Base(p), GoMod) => p = GoMod)
    /\ \A j \in 1..Len(Cl.valid) : (i # j) => ~EqualFold(p, Cl.valid[j])
    /\ \A j \in 1..Len(Cl.valid) : \A a \in Ancestors(Cl.valid[j]) : ~EqualFold(p \o <<cSl>>, a) \/ FALSE
\* order only decides which of two colliding files is reported: as sets of lists, a list and its reverse agree when nothing collides
Reverse(s) == [i \in 1..Len(s) |-> s[Len(s) + 1 - i]]
NoCollision(fs) == \A i, j \in 1..Len(fs) : i # j => (~EqualFold(fs[i].path, fs[j].path) /\
                        ~\E a \in Ancestors(fs[i].path) : EqualFold(a, fs[j].path \o <<cSl>>) \/ (\E b \in Ancestors(fs[j].path) : EqualFold(a, b) /\ a # b))
OrderIndependentClass == (phase = "files" /\ NoCollision(lst) /\ Ge124(Reverse(lst)) = G) =>
    LET r == Classify(Reverse(lst), G) IN SeqSet(r.valid) = SeqSet(Cl.valid) /\ SeqSet(r.omitted) = SeqSet(Cl.omitted) /\ SeqSet(r.invalid) = SeqSet(Cl.invalid)
\* whatever is created checks clean and extracts to exactly the valid files
CreateRoundTrip == (phase = "files" /\ CreateOK(lst, G)) =>
    LET es == [i \in 1..Len(Cl.valid) |-> Entry(Prefix \o Cl.valid[i], "ok")] IN
    /\ CheckZip(es, Prefix).invalid = <<>>
    /\ UnzipOK(es, Prefix)
    /\ UnzipTree(es, Prefix) = SeqSet(Cl.valid)
\* ---- E1 (zip) ----
NoEscape == phase = "zip" => (UnzipOK(lst, Prefix) => \A n \in UnzipTree(lst, Prefix) : IsClean(n) /\ ~IsAbs(n) /\ CheckFilePathOK(n))

Emit ==
    /\ phase = "files" => PrintT(ToJson([w |-> "modzip", k |-> "files", in |-> [files |-> lst],
                                         exp |-> [valid |-> Cl.valid, omitted |-> Cl.omitted, invalid |-> Cl.invalid, createok |-> CreateOK(lst, G), sizeerr |-> Cl.sizeerr, ge124 |-> G]]))
    /\ phase = "zip" => PrintT(ToJson([w |-> "modzip", k |-> "zip", in |-> [entries |-> lst],
                                       exp |-> [valid |-> CheckZip(lst, Prefix).valid, invalid |-> CheckZip(lst, Prefix).invalid, sizeerr |-> CheckZip(lst, Prefix).sizeerr,
                                                unzipok |-> UnzipOK(lst, Prefix), tree |-> UnzipTree(lst, Prefix)]]))
==============================================================================
