CONSTANTS
  MaxLen = 0
  Contents = {}
  MaxLevel = 0
  MaxK = 0
INIT TraceInit
NEXT TNext
INVARIANT Done
