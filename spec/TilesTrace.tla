------------------------------ MODULE TilesTrace ------------------------------
(* E3 for C10: reads through tiles recorded on big random trees (heights 1..8). *)
(* Each event carries the ground-truth flags computed by the recorder from the  *)
(* world it built; the observer predicates of the property are evaluated here,  *)
(* and the plan (which tiles were fetched, in which order) is compared with the *)
(* protocol-level model as drift.                                               *)
EXTENDS Tiles, TLC, Json
VARIABLES l, bad

Trace == ndJsonDeserialize("trace.ndjson")

Honest(e) == Len(e.in.cors) = 0
\* the property: a successful read returns only true hashes, only true tiles are saved,
\* honest service never fails
ExpOf(e) == [returnedTrue |-> TRUE, savedTrue |-> TRUE, honestOk |-> TRUE]
Coords(e) == [i \in 1..Len(e.in.idx) |-> <<e.in.idx[i][1], e.in.idx[i][2]>>]
PlanOf(e) == LET p == Plan(e.in.h, e.in.n, Coords(e)) IN [i \in 1..Len(p) |-> <<p[i].tl, p[i].tn, p[i].w>>]
DriftOf(e) == IF "plan" \in DOMAIN e.drift THEN [ok |-> Honest(e), plan |-> PlanOf(e)] ELSE [ok |-> Honest(e)]

Init == l = 1 /\ bad = {}
Next == /\ l <= Len(Trace)
        /\ l' = l + 1
        /\ LET e == Trace[l] ok == e.obs = ExpOf(e) dok == e.drift = DriftOf(e) IN
             /\ bad' = IF ok THEN bad ELSE bad \cup {l}
             /\ IF ok THEN TRUE ELSE PrintT(ToJson([k |-> "bad", in |-> [l |-> l], exp |-> ExpOf(e)]))
             /\ IF dok THEN TRUE ELSE PrintT(ToJson([k |-> "drift", in |-> [l |-> l], exp |-> DriftOf(e)]))
Done == l = Len(Trace) + 1 => PrintT(ToJson([k |-> "done", in |-> [n |-> Len(Trace), nbad |-> Cardinality(bad)]]))
===============================================================================
