------------------------------- MODULE NoteGen -------------------------------
(* E1 + E2 for C07: text shapes x signer subsets x known-verifier subsets,     *)
(* and every single structural mutation of each signed message.                *)
EXTENDS Note, TLC, Json
CONSTANTS MaxText
VARIABLES phase, text, signers, known, first

K1 == Key(1, "A", 11)
K2 == Key(2, "B", 22)
K3 == Key(3, "A", 33)
K4 == Key(4, "A", 11)          \* another key with K1's name and key hash: makes lookups ambiguous
K5 == Key(5, "A", 11)          \* and a third and fourth one (ambiguity is not a matter of parity)
K6 == Key(6, "A", 11)
SigLike == SigLine("A", 11, 0, <<>>, <<"textsig">>)
TextLines == {Txt(1), Txt(2), Blank, SigLike}
SignerSeqs == {<<>>, <<K1>>, <<K2>>, <<K1, K2>>, <<K2, K1>>, <<K1, K3>>, <<K3>>, <<K1, K2, K3>>}
KnownSets == {[keys |-> ks, liar |-> FALSE] : ks \in SUBSET {K1, K2, K3, K4}} \cup {[keys |-> {K1, K2}, liar |-> TRUE]}
             \cup {[keys |-> ks, liar |-> FALSE] : ks \in {{K1, K4, K5}, {K4, K5, K6}, {K1, K2, K4, K5}, {K1, K4, K5, K6}}}

FirstSeqs == {<<K1>>, <<K2>>, <<K1, K2>>, <<K2, K1>>, <<K1, K3>>, <<K3, K1>>, <<K1, K2, K3>>, <<K3, K2, K1>>, <<K2, K3, K1>>}
ResignKnown == {[keys |-> ks, liar |-> FALSE] : ks \in (SUBSET {K1, K2, K3}) \ {{}}}
Init == phase = "hub" /\ text = <<>> /\ signers = <<>> /\ known = [keys |-> {}, liar |-> FALSE] /\ first = <<>>
Next == \/ /\ phase = "hub" /\ phase' = "text" /\ text' \in {<<l>> : l \in TextLines} /\ UNCHANGED <<signers, known, first>>
        \/ /\ phase = "text" /\ Len(text) < MaxText /\ \E l \in TextLines : text' = Append(text, l) /\ UNCHANGED <<phase, signers, known, first>>
        \/ /\ phase = "text" /\ phase' = "case" /\ signers' \in SignerSeqs /\ known' \in KnownSets /\ UNCHANGED <<text, first>>
        \* sign, open, sign again: the note carries signatures already (at least one of them known, so that it opens)
        \/ /\ phase = "text" /\ Len(text) <= 2 /\ phase' = "resign" /\ first' \in FirstSeqs /\ known' \in ResignKnown
           /\ signers' \in SignerSeqs \ {<<>>} /\ UNCHANGED text
           /\ \E i \in 1..Len(first') : first'[i] \in known'.keys
        \* the limit on the number of signature lines (100): one good signature line repeated
        \/ /\ phase = "hub" /\ phase' = "many" /\ text' = <<Txt(1)>> /\ signers' \in {<<K1>>} /\ known' \in {[keys |-> {K1}, liar |-> FALSE], [keys |-> {K2}, liar |-> FALSE]}
           /\ UNCHANGED first

Msg == Sign(text, <<>>, signers)
\* ---- single structural mutations of a signed message ----
Ins(s, i, x) == SubSeq(s, 1, i - 1) \o <<x>> \o SubSeq(s, i, Len(s))
Del(s, i) == SubSeq(s, 1, i - 1) \o SubSeq(s, i + 1, Len(s))
Rep(s, i, x) == [j \in 1..Len(s) |-> IF j = i THEN x ELSE s[j]]
Mutations(m) ==
    LET ls == m.lines n == Len(ls) IN
       {[m EXCEPT !.lines = Rep(ls, i, Txt(7))] : i \in {j \in 1..n : ls[j].k \in {"txt", "blank"}}}
  \cup {[m EXCEPT !.lines = Del(ls, i)] : i \in 1..n}
  \cup {[m EXCEPT !.lines = Ins(ls, i, x)] : i \in 1..(n + 1), x \in {Txt(8), Blank}}
  \cup {[m EXCEPT !.lines = Rep(ls, i, [ls[i] EXCEPT !.key = 0, !.uid = <<"forged", i>>])] : i \in {j \in 1..n : ls[j].k = "sig"}}
  \cup {[m EXCEPT !.lines = Rep(ls, i, [ls[i] EXCEPT !.name = "C", !.uid = <<"renamed", i>>])] : i \in {j \in 1..n : ls[j].k = "sig"}}
  \cup {[m EXCEPT !.lines = Rep(ls, i, [ls[i] EXCEPT !.name = IF ls[i].name = "A" THEN "a" ELSE "b", !.uid = <<"recased", i>>])] : i \in {j \in 1..n : ls[j].k = "sig"}}
  \cup {[m EXCEPT !.lines = Rep(ls, i, [ls[i] EXCEPT !.form = f, !.uid = <<f, i>>])] : i \in {j \in 1..n : ls[j].k = "sig"}, f \in {"short", "notb64"}}
  \cup {[m EXCEPT !.lines = Rep(ls, i, [ls[i] EXCEPT !.nameok = FALSE, !.uid = <<"badname", i>>])] : i \in {j \in 1..n : ls[j].k = "sig"}}
  \cup {[m EXCEPT !.lines = Ins(ls, i, ls[i])] : i \in {j \in 1..n : ls[j].k = "sig"}}
  \cup {[m EXCEPT !.lines = Rep(ls, i, BadTxt(9))] : i \in {j \in 1..n : ls[j].k = "txt"}}
  \cup {[m EXCEPT !.lines = Rep(ls, i, [ls[i] EXCEPT !.bad = TRUE, !.uid = <<"ctl", i>>])] : i \in {j \in 1..n : ls[j].k = "sig"}}
  \cup {[m EXCEPT !.finalnl = FALSE]}
  \cup {[m EXCEPT !.lines = Append(ls, Txt(5))]}
AllMsgs == {Msg} \cup Mutations(Msg)

\* ---- E1 ----
Verdict(s) == LET c == Candidates(known, s.name, s.hash) IN
              IF known.liar THEN "mismatched" ELSE IF c = {} THEN "unknown" ELSE IF Cardinality(c) > 1 THEN "ambiguous"
              ELSE IF (CHOOSE x \in c : TRUE).id = s.id THEN "verified" ELSE "invalid"
\* signing and opening returns the text and the documented partition
RoundTrip == phase = "case" =>
    LET o == Open(Msg, known)
        vs == [i \in 1..Len(signers) |-> Verdict(signers[i])]
        bad == {i \in 1..Len(signers) : vs[i] \in {"mismatched", "ambiguous", "invalid"}}
    IN IF signers = <<>> THEN o.kind = "malformed"
       ELSE IF bad # {} THEN o.kind = vs[CHOOSE i \in bad : \A j \in bad : i <= j]
       ELSE /\ o.text = text
            /\ o.sigs = [i \in 1..Len(SelectSeq(signers, LAMBDA s : Verdict(s) = "verified")) |->
                            <<SelectSeq(signers, LAMBDA s : Verdict(s) = "verified")[i].name, SelectSeq(signers, LAMBDA s : Verdict(s) = "verified")[i].hash>>]
            /\ o.kind = IF o.sigs = <<>> THEN "unverified" ELSE "ok"
\* whatever the message, a verified signature was made by that key over exactly the returned text
NoForeignText == phase = "case" => \A m \in AllMsgs :
    LET o == Open(m, known) IN
    o.kind = "ok" => \A i \in 1..Len(o.sigs) :
        \E j \in 1..Len(m.lines) : /\ m.lines[j].k = "sig" /\ m.lines[j].name = o.sigs[i][1] /\ m.lines[j].hash = o.sigs[i][2]
                                   /\ m.lines[j].over = o.text
                                   /\ \E v \in known.keys : v.id = m.lines[j].key /\ v.name = m.lines[j].name /\ v.hash = m.lines[j].hash
\* any change of the text of a signed message is rejected (never opens with another text)
TextChangeRejected == phase = "case" => \A m \in AllMsgs :
    LET o == Open(m, known) IN o.kind = "ok" => o.text = text

\* ---- E1 (re-signing) ----
SigKeys(ls) == [i \in 1..Len(ls) |-> ls[i].key]
\* nothing is lost and nothing is doubled: every earlier signer not replaced by a new one is still there, once, before the new ones
ResignKeepsOthers == phase = "resign" =>
    LET out == SigKeys(Resign(text, first, known, signers))
        replaced(k) == \E i \in 1..Len(signers) : signers[i].name = k.name /\ signers[i].hash = k.hash
    IN /\ \A i \in 1..Len(first) : ~replaced(first[i]) => Cardinality({j \in 1..Len(out) : out[j] = first[i].id}) = 1
       /\ \A i \in 1..Len(signers) : out[Len(out) - Len(signers) + i] = signers[i].id
       /\ Len(out) = Len(signers) + Cardinality({i \in 1..Len(first) : ~replaced(first[i])})
EmitResign == phase = "resign" =>
    PrintT(ToJson([w |-> "note", k |-> "resign",
                   in |-> [text |-> text, first |-> [i \in 1..Len(first) |-> first[i].id], known |-> {v.id : v \in known.keys},
                           second |-> [i \in 1..Len(signers) |-> signers[i].id]],
                   exp |-> [keys |-> SigKeys(Resign(text, first, known, signers))]]))

ManyMsg(n) == LET m == Sign(text, <<>>, signers)
                  s == m.lines[Len(m.lines)]
              IN [m EXCEPT !.lines = SubSeq(m.lines, 1, Len(m.lines) - 1) \o [i \in 1..n |-> s]]
EmitMany == phase = "many" => \A n \in {1, 2, 99, 100, 101, 102} :
    PrintT(ToJson([w |-> "note", k |-> "open", in |-> [msg |-> ManyMsg(n), known |-> [keys |-> {v.id : v \in known.keys}, liar |-> known.liar], mutated |-> TRUE],
                   exp |-> Open(ManyMsg(n), known)]))

Emit == phase = "case" => \A m \in AllMsgs :
    PrintT(ToJson([w |-> "note", k |-> "open", in |-> [msg |-> m, known |-> [keys |-> {v.id : v \in known.keys}, liar |-> known.liar], mutated |-> m # Msg],
                   exp |-> Open(m, known)]))
=============================================================================
