---------------------------- MODULE Semver ----------------------------
(* Semantic versions as documented by golang.org/x/mod/semver:             *)
(*     vMAJOR[.MINOR[.PATCH[-PRERELEASE][+BUILD]]]                         *)
(* Declarative: validity is "there is a split of the string into the       *)
(* documented parts", written with splitting at separators, not with a     *)
(* left-to-right scanner as in the implementation.                         *)
(* Precedence is SemVer 2.0.0 section 11.                                  *)
EXTENDS Integers, Sequences, FiniteSets, Chars, Digits

cV == 118
cDot == 46
cDash == 45
cPlus == 43

IsIdentChar(c) == IsDigit(c) \/ IsAsciiLetter(c) \/ c = cDash

\* numeric field: non-empty digits, no extra leading zero
NumOK(d) == IsNum(d) /\ NoLeadingZero(d)
\* identifier of a prerelease: non-empty, identifier characters, numeric ones without leading zero
PreIdOK(id) == Len(id) > 0 /\ AllIn(id, IsIdentChar) /\ (AllDigits(id) => NoLeadingZero(id))
\* identifier of build metadata: non-empty, identifier characters
BuildIdOK(id) == Len(id) > 0 /\ AllIn(id, IsIdentChar)

\* The raw split of a string: everything from the first '+' is the build suffix,
\* in what precedes it everything from the first '-' is the prerelease suffix,
\* what precedes that is the dot-separated core.
RawSplit(s) ==
    LET body  == Drop(s, 1)
        p     == IndexFirst(body, cPlus)
        nob   == IF p = 0 THEN body ELSE Take(body, p - 1)
        build == IF p = 0 THEN <<>> ELSE Drop(body, p - 1)        \* includes '+'
        d     == IndexFirst(nob, cDash)
        core  == IF d = 0 THEN nob ELSE Take(nob, d - 1)
        pre   == IF d = 0 THEN <<>> ELSE Drop(nob, d - 1)         \* includes '-'
    IN [core |-> SplitOn(core, cDot), pre |-> pre, build |-> build]

Valid(s) ==
    /\ Len(s) >= 2
    /\ s[1] = cV
    /\ LET r == RawSplit(s) IN
        /\ Len(r.core) \in 1..3
        /\ \A i \in 1..Len(r.core) : NumOK(r.core[i])
        /\ (Len(r.core) < 3 => r.pre = <<>> /\ r.build = <<>>)
        /\ (r.pre # <<>> => \A id \in {SplitOn(Drop(r.pre, 1), cDot)[i] : i \in 1..Len(SplitOn(Drop(r.pre, 1), cDot))} : PreIdOK(id))
        /\ (r.build # <<>> => \A id \in {SplitOn(Drop(r.build, 1), cDot)[i] : i \in 1..Len(SplitOn(Drop(r.build, 1), cDot))} : BuildIdOK(id))

\* Parts of a valid version, shortened forms filled in
Parts(s) ==
    LET r == RawSplit(s) IN
    [major |-> r.core[1],
     minor |-> IF Len(r.core) >= 2 THEN r.core[2] ELSE <<48>>,
     patch |-> IF Len(r.core) >= 3 THEN r.core[3] ELSE <<48>>,
     pre   |-> r.pre,
     build |-> r.build,
     nfields |-> Len(r.core)]

Canonical(s) ==
    IF ~Valid(s) THEN <<>>
    ELSE LET p == Parts(s) IN <<cV>> \o p.major \o <<cDot>> \o p.minor \o <<cDot>> \o p.patch \o p.pre
Major(s)      == IF ~Valid(s) THEN <<>> ELSE <<cV>> \o Parts(s).major
MajorMinor(s) == IF ~Valid(s) THEN <<>> ELSE <<cV>> \o Parts(s).major \o <<cDot>> \o Parts(s).minor
Prerelease(s) == IF ~Valid(s) THEN <<>> ELSE Parts(s).pre
Build(s)      == IF ~Valid(s) THEN <<>> ELSE Parts(s).build
\* module.CanonicalVersion: canonical form that keeps "+incompatible"
Incompatible == S("+incompatible")
ModuleCanonical(s) == IF ~Valid(s) THEN <<>>
                      ELSE IF Parts(s).build = Incompatible THEN Canonical(s) \o Incompatible ELSE Canonical(s)

\* ---- precedence (SemVer 2.0.0 section 11) ----
\* identifiers: numeric < alphanumeric; numeric by value; alphanumeric by ASCII order
CmpId(a, b) ==
    IF AllDigits(a) /\ AllDigits(b) THEN CmpNum(a, b)
    ELSE IF AllDigits(a) THEN -1
    ELSE IF AllDigits(b) THEN 1
    ELSE CmpSeq(a, b)

RECURSIVE CmpIdList(_, _)
CmpIdList(x, y) ==
    IF x = <<>> /\ y = <<>> THEN 0
    ELSE IF x = <<>> THEN -1          \* a larger set of fields has higher precedence
    ELSE IF y = <<>> THEN 1
    ELSE LET c == CmpId(Head(x), Head(y)) IN IF c # 0 THEN c ELSE CmpIdList(Tail(x), Tail(y))

\* prerelease suffixes (with their '-' or empty): absent is greatest
CmpPre(a, b) ==
    IF a = b THEN 0
    ELSE IF a = <<>> THEN 1
    ELSE IF b = <<>> THEN -1
    ELSE CmpIdList(SplitOn(Drop(a, 1), cDot), SplitOn(Drop(b, 1), cDot))

\* comparison of the parts of two valid versions
CmpParts(p, q) ==
    LET c1 == CmpNum(p.major, q.major)
        c2 == CmpNum(p.minor, q.minor)
        c3 == CmpNum(p.patch, q.patch)
    IN IF c1 # 0 THEN c1 ELSE IF c2 # 0 THEN c2 ELSE IF c3 # 0 THEN c3 ELSE CmpPre(p.pre, q.pre)

\* Cmp with validity and parts supplied (so that callers can memoize them)
CmpWith(okS, partsS, okT, partsT) ==
    IF ~okS /\ ~okT THEN 0
    ELSE IF ~okS THEN -1
    ELSE IF ~okT THEN 1
    ELSE CmpParts(partsS, partsT)

Cmp(s, t) == CmpWith(Valid(s), IF Valid(s) THEN Parts(s) ELSE <<>>, Valid(t), IF Valid(t) THEN Parts(t) ELSE <<>>)

\* the documented order of semver.Sort: by Cmp, ties by string order
Less(s, t) == LET c == Cmp(s, t) IN IF c # 0 THEN c < 0 ELSE CmpSeq(s, t) < 0
\* deprecated semver.Max: canonicalize, return the greater (second argument on ties)
Max(s, t) == IF Cmp(Canonical(s), Canonical(t)) > 0 THEN Canonical(s) ELSE Canonical(t)
=======================================================================
