CONSTANTS
  MaxText = 2
INIT Init
NEXT Next
INVARIANTS RoundTrip NoForeignText TextChangeRejected Emit ResignKeepsOthers EmitResign EmitMany
