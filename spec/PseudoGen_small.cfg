CONSTANTS
  Size = "small"
INIT Init
NEXT Next
INVARIANTS Recognised Recovers Between TimeMonotone Emit
