---------------------------- MODULE ModfileSyntax ----------------------------
(* The syntax layer of go.mod / go.work files (C02, C20) at the level the      *)
(* properties speak of: a lexer over the character sequence that tracks        *)
(* (line, rune column, byte offset), and a statement parser producing          *)
(*   - the sequence of statements (a line with its tokens, or a block with     *)
(*     its head tokens and its lines),                                         *)
(*   - the ordered list of comment texts,                                      *)
(*   - the position of every token, comment and parenthesis,                   *)
(* or a rejection.  Comment attachment and the printer's layout are not        *)
(* modelled: the properties allow attachment to move and only require that     *)
(* the formatted output parses back to the same statements, tokens and         *)
(* comment texts.                                                              *)
(* Characters are code points; -b is a byte b that is not valid UTF-8 (the     *)
(* implementation reads it as U+FFFD, one byte long).                          *)
EXTENDS Integers, Sequences, FiniteSets, Chars

NL == 10
CR == 13
SP == 32
TAB == 9
SLASH == 47
STAR == 42
DQ == 34
BQ == 96
BSL == 92
Punct == {NL, 40, 41, 91, 93, 123, 125, 44}        \* newline ( ) [ ] { } ,
\* Go's unicode.IsSpace / unicode.IsPrint on the characters the generators and recorders use
IsSpaceRune(c) == c \in {9, 10, 11, 12, 13, 32, 133, 160, 8232, 8233, 12288}
IsPrintRune(c) == IF c < 0 THEN TRUE                       \* invalid byte -> U+FFFD, a printable symbol
                  ELSE IF c < 32 \/ c = 127 THEN FALSE
                  ELSE IF c <= 126 THEN TRUE
                  ELSE IF c < 161 THEN FALSE               \* C1 controls and NBSP
                  ELSE c \notin {173, 8232, 8233, 12288, 65279, 8203, 57344, 1114111}   \* ... private use, a noncharacter
IsIdentRune(c) == c \notin {SP, 40, 41, 91, 93, 123, 125, 44} /\ ~IsSpaceRune(c) /\ IsPrintRune(c)

\* ------------------------------------------------------------------ lexer
\* position record and how one character advances it
Pos(line, col, byte) == [line |-> line, col |-> col, byte |-> byte]
Adv(p, c) == IF c = NL THEN Pos(p.line + 1, 1, p.byte + 1) ELSE Pos(p.line, p.col + 1, p.byte + Utf8Len(c))
At(s, i) == IF i <= Len(s) THEN s[i] ELSE 0                \* 0 at end of input (peekRune)
Prefix2(s, i, a, b) == i + 1 <= Len(s) /\ s[i] = a /\ s[i + 1] = b

\* token: [kind, text, pos, endpos]; kinds: "ident" "string" "comment" "eolcomment" "eof" "nl" "lparen" "rparen" "punct"
PunctKind(c) == IF c = NL THEN "nl" ELSE IF c = 40 THEN "lparen" ELSE IF c = 41 THEN "rparen" ELSE "punct"
Tok(kind, text, p, q) == [kind |-> kind, text |-> text, pos |-> p, endpos |-> q]
LexErr(msg, p) == [err |-> msg, pos |-> p]

\* is there a non-space character on the line before position i (the comment is a suffix comment then)
RECURSIVE LineStart(_, _)
LineStart(s, i) == IF i = 1 \/ s[i - 1] = NL THEN i ELSE LineStart(s, i - 1)
HasTextBefore(s, i) == \E j \in LineStart(s, i)..(i - 1) : ~IsSpaceRune(s[j])

\* advance over a run of characters
RECURSIVE AdvOver(_, _, _, _)
AdvOver(s, i, j, p) == IF i >= j THEN p ELSE AdvOver(s, i + 1, j, Adv(p, s[i]))

\* skip spaces / tabs / carriage returns
RECURSIVE SkipSp(_, _)
SkipSp(s, i) == IF i <= Len(s) /\ s[i] \in {SP, TAB, CR} THEN SkipSp(s, i + 1) ELSE i
\* end of a comment starting at i: index just after the newline, or Len+1
RECURSIVE ComEnd(_, _)
ComEnd(s, i) == IF i > Len(s) THEN i ELSE IF s[i] = NL THEN i + 1 ELSE ComEnd(s, i + 1)
\* comment text without its line ending (LF or CRLF)
ComText(s, i, j) ==
    LET raw == SubSeq(s, i, j - 1) IN
    IF Len(raw) >= 2 /\ raw[Len(raw)] = NL /\ raw[Len(raw) - 1] = CR THEN SubSeq(raw, 1, Len(raw) - 2)
    ELSE IF Len(raw) >= 1 /\ raw[Len(raw)] = NL THEN SubSeq(raw, 1, Len(raw) - 1) ELSE raw

\* scan a quoted string starting at the character after the opening quote; result <<"ok", index after closing quote>>
\* or <<"eof">> / <<"nl", index of the newline>>
RECURSIVE StrScan(_, _, _)
StrScan(s, i, q) ==
    IF i > Len(s) THEN <<"eof", i>>
    ELSE IF s[i] = NL THEN <<"nl", i>>
    ELSE IF s[i] = q THEN <<"ok", i + 1>>
    ELSE IF s[i] = BSL /\ q # BQ THEN (IF i + 1 > Len(s) THEN <<"eof", i>> ELSE StrScan(s, i + 2, q))
    ELSE StrScan(s, i + 1, q)
\* scan an identifier: stops before a non-identifier character or "//"; "/*" inside is an error
RECURSIVE IdScan(_, _)
IdScan(s, i) ==
    IF ~IsIdentRune(At(s, i)) THEN <<"ok", i>>
    ELSE IF Prefix2(s, i, SLASH, SLASH) THEN <<"ok", i>>
    ELSE IF Prefix2(s, i, SLASH, STAR) THEN <<"blockcomment", i>>
    ELSE IdScan(s, i + 1)

\* one token starting the search at index i with position p: <<token or error, next index, next position>>
NextTok(s, i0, p0) ==
    LET i == SkipSp(s, i0)
        p == AdvOver(s, i0, i, p0) IN
    IF Prefix2(s, i, SLASH, SLASH)
    THEN LET j == ComEnd(s, i) q == AdvOver(s, i, j, p)
         IN <<Tok(IF HasTextBefore(s, i) THEN "eolcomment" ELSE "comment", ComText(s, i, j), p, q), j, q>>
    ELSE IF Prefix2(s, i, SLASH, STAR) THEN <<LexErr("blockcomment", p), i, p>>
    ELSE IF i > Len(s) THEN <<Tok("eof", <<>>, p, p), i, p>>
    ELSE IF s[i] \in Punct THEN <<Tok(PunctKind(s[i]), <<s[i]>>, p, Adv(p, s[i])), i + 1, Adv(p, s[i])>>
    ELSE IF s[i] \in {DQ, BQ}
    THEN LET r == StrScan(s, i + 1, s[i]) IN
         IF r[1] = "ok" THEN LET q == AdvOver(s, i, r[2], p) IN <<Tok("string", SubSeq(s, i, r[2] - 1), p, q), r[2], q>>
         ELSE IF r[1] = "eof" THEN <<LexErr("eof-in-string", p), i, p>>
         ELSE <<LexErr("newline-in-string", AdvOver(s, i, r[2], p)), i, p>>
    ELSE IF ~IsIdentRune(s[i]) THEN <<LexErr("bad-character", p), i, p>>
    ELSE LET r == IdScan(s, i) IN
         IF r[1] = "blockcomment" THEN <<LexErr("blockcomment", AdvOver(s, i, r[2], p)), i, p>>
         ELSE LET q == AdvOver(s, i, r[2], p) IN <<Tok("ident", SubSeq(s, i, r[2] - 1), p, q), r[2], q>>

\* the whole token list (ending with eof), or an error
RECURSIVE LexFrom(_, _, _)
LexFrom(s, i, p) ==
    LET r == NextTok(s, i, p) IN
    IF "err" \in DOMAIN r[1] THEN <<r[1]>>
    ELSE IF r[1].kind = "eof" THEN <<r[1]>>
    ELSE <<r[1]>> \o LexFrom(s, r[2], r[3])
Lex(s) == LexFrom(s, 1, Pos(1, 1, 0))
LexOK(toks) == "kind" \in DOMAIN toks[Len(toks)]

\* ------------------------------------------------------------------ parser
IsEOL(t) == t.kind \in {"eof", "eolcomment", "nl"}
IsCom(t) == t.kind \in {"comment", "eolcomment"}
LineStmt(tokens, toks) == [type |-> "line", tokens |-> tokens, toks |-> toks]
BlockStmt(tokens, toks, lp, lines, rp) == [type |-> "block", tokens |-> tokens, toks |-> toks, lparen |-> lp, lines |-> lines, rparen |-> rp]

\* parse the tokens of one line inside a block starting at k: <<token texts, token records, index of the EOL token>>
RECURSIVE PLine(_, _, _, _)
PLine(t, k, acc, accT) ==
    IF IsEOL(t[k]) THEN <<acc, accT, k>> ELSE PLine(t, k + 1, Append(acc, t[k].text), Append(accT, t[k]))

\* parse block lines starting at k (after the "(" and its end of line): <<"ok", lines, rparen token, index after>> or <<"err", class>>
RECURSIVE PBlock(_, _, _)
PBlock(t, k, lines) ==
    IF t[k].kind \in {"eolcomment", "nl", "comment"} THEN PBlock(t, k + 1, lines)
    ELSE IF t[k].kind = "eof" THEN <<"err", "unterminated-block">>
    ELSE IF t[k].kind = "rparen"
    THEN (IF IsEOL(t[k + 1]) THEN <<"ok", lines, t[k], IF t[k + 1].kind = "eof" THEN k + 1 ELSE k + 2>> ELSE <<"err", "text-after-rparen">>)
    ELSE LET r == PLine(t, k, <<>>, <<>>) IN
         PBlock(t, IF t[r[3]].kind = "eof" THEN r[3] ELSE r[3] + 1, Append(lines, [tokens |-> r[1], toks |-> r[2]]))

\* parse one top-level statement starting at k: <<"ok", stmt, index after>> or <<"err", class>>
RECURSIVE PStmtLoop(_, _, _, _)
PStmtLoop(t, k, acc, accT) ==
    IF IsEOL(t[k]) THEN <<"ok", LineStmt(acc, accT), IF t[k].kind = "eof" THEN k ELSE k + 1>>
    ELSE IF t[k].kind = "lparen"
    THEN IF IsEOL(t[k + 1])
         THEN LET b == PBlock(t, IF t[k + 1].kind = "eof" THEN k + 1 ELSE k + 2, <<>>) IN
              IF b[1] = "err" THEN b ELSE <<"ok", BlockStmt(acc, accT, t[k], b[2], b[3]), b[4]>>
         ELSE IF t[k + 1].kind = "rparen"
         THEN (IF IsEOL(t[k + 2])
               THEN <<"ok", BlockStmt(acc, accT, t[k], <<>>, t[k + 1]), IF t[k + 2].kind = "eof" THEN k + 2 ELSE k + 3>>
               ELSE PStmtLoop(t, k + 2, acc \o <<t[k].text, t[k + 1].text>>, accT \o <<t[k], t[k + 1]>>))
         ELSE PStmtLoop(t, k + 1, Append(acc, t[k].text), Append(accT, t[k]))
    ELSE PStmtLoop(t, k + 1, Append(acc, t[k].text), Append(accT, t[k]))
PStmt(t, k) == PStmtLoop(t, k + 1, <<t[k].text>>, <<t[k]>>)

RECURSIVE PFile(_, _, _)
PFile(t, k, stmts) ==
    IF t[k].kind = "eof" THEN <<"ok", stmts>>
    ELSE IF t[k].kind \in {"nl", "comment"} THEN PFile(t, k + 1, stmts)
    ELSE LET r == PStmt(t, k) IN IF r[1] = "err" THEN r ELSE PFile(t, r[3], Append(stmts, r[2]))

\* ------------------------------------------------------------------ the document
TrimSpaceRunes(x) ==
    LET ns == {i \in 1..Len(x) : ~IsSpaceRune(x[i])} IN
    IF ns = {} THEN <<>> ELSE SubSeq(x, CHOOSE i \in ns : \A j \in ns : i <= j, CHOOSE i \in ns : \A j \in ns : i >= j)
\* result of parsing: [ok, stmts (texts only), comments (trimmed texts in order), positions (tokens, comments, parens with positions)]
StripStmt(st) == IF st.type = "line" THEN [type |-> "line", tokens |-> st.tokens]
                 ELSE [type |-> "block", tokens |-> st.tokens, lines |-> [i \in 1..Len(st.lines) |-> st.lines[i].tokens]]
Parse(s) ==
    LET toks == Lex(s) IN
    IF ~LexOK(toks) THEN [ok |-> FALSE, why |-> toks[Len(toks)].err, stmts |-> <<>>, comments |-> <<>>, marks |-> <<>>]
    ELSE LET r == PFile(toks, 1, <<>>) IN
         IF r[1] = "err" THEN [ok |-> FALSE, why |-> r[2], stmts |-> <<>>, comments |-> <<>>, marks |-> <<>>]
         ELSE [ok |-> TRUE, why |-> "",
               stmts |-> [i \in 1..Len(r[2]) |-> StripStmt(r[2][i])],
               comments |-> LET cs == SelectSeq(toks, IsCom) IN [i \in 1..Len(cs) |-> TrimSpaceRunes(cs[i].text)],
               \* every token and comment with its position (text start must be at byte offset pos.byte)
               marks |-> LET ms == SelectSeq(toks, LAMBDA x : x.kind \notin {"eof", "nl"}) IN
                         [i \in 1..Len(ms) |-> [text |-> ms[i].text, line |-> ms[i].pos.line, col |-> ms[i].pos.col, byte |-> ms[i].pos.byte]]]
=============================================================================
