CONSTANTS
  MaxItems = 4
  Mode = "items"
  Alphabet = "reduced"
INIT Init
NEXT Next
INVARIANTS PositionsConsistent Emit
