CONSTANTS
  MaxArgs = 3
INIT Init
NEXT Next
INVARIANT Emit
