------------------------------- MODULE Pseudo -------------------------------
(* Pseudo-versions (C18), from the five documented forms:                     *)
(*   (1) vX.0.0-yyyymmddhhmmss-rev                                            *)
(*   (2,3) vX.Y.(Z+1)-0.yyyymmddhhmmss-rev[+build]                            *)
(*   (4,5) vX.Y.Z-pre.0.yyyymmddhhmmss-rev[+build]                            *)
EXTENDS Semver

Pad2(n) == PadTo(ToDigits(n), 2)
Pad4(n) == PadTo(ToDigits(n), 4)
\* a UTC civil time as 14 digits
Stamp(t) == Pad4(t[1]) \o Pad2(t[2]) \o Pad2(t[3]) \o Pad2(t[4]) \o Pad2(t[5]) \o Pad2(t[6])
IsAlnum(c) == IsDigit(c) \/ IsAsciiLetter(c)

Make(major, older, ts, rev) ==
    LET seg == ts \o <<cDash>> \o rev
        mj == IF major = <<>> THEN S("v0") ELSE major IN
    IF ~Valid(older) THEN mj \o S(".0.0-") \o seg
    ELSE LET p == Parts(older) IN
         IF p.pre # <<>> THEN Canonical(older) \o S(".0.") \o seg \o p.build
         ELSE <<cV>> \o p.major \o <<cDot>> \o p.minor \o <<cDot>> \o IncD(p.patch) \o S("-0.") \o seg \o p.build

\* the last prerelease identifier of a pseudo-version: 14 digits, a hyphen, an alphanumeric revision
TailOK(x) == Len(x) >= 16 /\ AllDigits(Take(x, 14)) /\ x[15] = cDash /\ AllIn(Drop(x, 15), IsAlnum)
PreIds(v) == SplitOn(Drop(Parts(v).pre, 1), cDot)
IsPseudo(v) ==
    /\ Valid(v) /\ Parts(v).pre # <<>>
    /\ LET ids == PreIds(v) p == Parts(v) IN
         /\ TailOK(ids[Len(ids)])
         /\ \/ (Len(ids) = 1 /\ p.minor = <<48>> /\ p.patch = <<48>> /\ p.nfields = 3)
            \/ (Len(ids) >= 2 /\ ids[Len(ids) - 1] = <<48>>)
TimeOf(v) == Take(PreIds(v)[Len(PreIds(v))], 14)
RevOf(v) == Drop(PreIds(v)[Len(PreIds(v))], 15)
\* the base: [ok, base]
BaseOf(v) ==
    LET ids == PreIds(v) p == Parts(v) core == <<cV>> \o p.major \o <<cDot>> \o p.minor \o <<cDot>> IN
    IF Len(ids) = 1 THEN [ok |-> p.build = <<>>, base |-> <<>>]
    ELSE IF Len(ids) = 2
    THEN (IF StripZeros(p.patch) = <<48>> THEN [ok |-> FALSE, base |-> <<>>]
          ELSE [ok |-> TRUE, base |-> core \o DecD(p.patch) \o p.build])
    ELSE [ok |-> TRUE, base |-> core \o p.patch \o <<cDash>> \o JoinWith(SubSeq(ids, 1, Len(ids) - 2), cDot) \o p.build]
NextRelease(older) ==
    LET p == Parts(older) core == <<cV>> \o p.major \o <<cDot>> \o p.minor \o <<cDot>> IN
    IF p.pre # <<>> THEN core \o p.patch ELSE core \o IncD(p.patch)
CanonWithBuild(older) == IF Valid(older) THEN Canonical(older) \o Parts(older).build ELSE <<>>

\* the placeholder pseudo-version (no base, the zero time, the zero revision) and its recogniser
ZeroPseudo(major) == Make(major, <<>>, S("00010101000000"), S("000000000000"))
IsZeroPseudo(v) == v = ZeroPseudo(Major(v))

\* expected observables of one generation
ExpPseudo(major, older, t, rev) ==
    LET ts == Stamp(t) pv == Make(major, older, ts, rev) b == BaseOf(pv) IN
    [pv |-> pv, ispseudo |-> IsPseudo(pv), valid |-> Valid(pv),
     iszero |-> IsZeroPseudo(pv), zero |-> ZeroPseudo(major),
     baseok |-> b.ok, base |-> b.base, ts |-> TimeOf(pv), rev |-> RevOf(pv),
     cmpbase |-> IF Valid(older) THEN Cmp(older, pv) ELSE 0,
     cmpnext |-> IF Valid(older) THEN Cmp(pv, NextRelease(older)) ELSE Cmp(pv, (IF major = <<>> THEN S("v0") ELSE major) \o S(".0.0"))]
=============================================================================
