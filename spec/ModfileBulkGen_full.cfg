CONSTANTS
  Size = "full"
INIT Init
NEXT Next
INVARIANTS ExactOnModel Emit
