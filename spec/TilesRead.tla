----------------------------- MODULE TilesRead -----------------------------
(* The tile reader of C10 as a state machine against an adversarial tile     *)
(* server: Plan, Corrupt* (the adversary), Fetch, AuthTree, AuthChildren,    *)
(* Save, Return.  E1: the observer invariants hold in every state.           *)
(* E2: every terminal state is printed as a case for the harness.            *)
EXTENDS Tiles, TLC, Json
CONSTANTS Heights, MaxN, PairMaxN, MaxCorrupt, TwoCorruptMaxN
VARIABLES phase, h, n, idx, tiles, served, cors, saved, result

vars == <<phase, h, n, idx, tiles, served, cors, saved, result>>

\* all coordinates of a tree of n records
Coords(m) == {<<L, K>> \in (0..Log2Floor(m)) \X (0..(m - 1)) : (K + 1) * Pow2(L) <= m}
IndexSeqs(m) == {<<c>> : c \in Coords(m)} \cup (IF m <= PairMaxN THEN {<<c, d>> : c \in Coords(m), d \in Coords(m)} ELSE {})

Init == /\ phase = "hub" /\ h = 0 /\ n = 0 /\ idx = <<>> /\ tiles = <<>> /\ served = <<>>
        /\ cors = <<>> /\ saved = {} /\ result = <<>>

Choose == /\ phase = "hub"
          /\ h' \in Heights /\ n' \in 1..MaxN
          /\ phase' = "sized"
          /\ UNCHANGED <<idx, tiles, served, cors, saved, result>>
Request == /\ phase = "sized"
           /\ idx' \in IndexSeqs(n)
           /\ phase' = "req"
           /\ UNCHANGED <<h, n, tiles, served, cors, saved, result>>
DoPlan == /\ phase = "req"
          /\ tiles' = Plan(h, n, idx)
          /\ served' = [i \in 1..Len(tiles') |-> TrueTile(n, tiles'[i])]
          /\ phase' = "planned"
          /\ UNCHANGED <<h, n, idx, cors, saved, result>>
\* the adversary replaces the content of one planned tile not yet tampered with
Corrupt(i, c) == /\ phase = "planned"
                 /\ Len(cors) < (IF n <= TwoCorruptMaxN THEN MaxCorrupt ELSE 1)
                 /\ \A x \in 1..Len(cors) : cors[x].pos < i      \* positions in increasing order: no duplicates by symmetry
                 /\ served' = [served EXCEPT ![i] = ApplyCorruption(n, tiles[i], TrueTile(n, tiles[i]), c)]
                 /\ served'[i] # TrueTile(n, tiles[i])
                 /\ cors' = Append(cors, [pos |-> i, c |-> c])
                 /\ UNCHANGED <<phase, h, n, idx, tiles, saved, result>>
Fetch == /\ phase = "planned"
         /\ phase' = "fetched"
         /\ UNCHANGED <<h, n, idx, tiles, served, cors, saved, result>>
AuthTree == /\ phase = "fetched"
            /\ LET lenok == \A i \in 1..Len(tiles) : Len(served[i]) = tiles[i].w
                   th == IF lenok THEN TreeHashFromTiles(h, n, tiles, served) ELSE <<FALSE, EmptyH>>
               IN phase' = IF lenok /\ th[1] /\ th[2] = MTH(Recs(n), 0, n) THEN "treeok" ELSE "failed"
            /\ UNCHANGED <<h, n, idx, tiles, served, cors, saved, result>>
AuthChildren == /\ phase = "treeok"
                /\ phase' = IF \A i \in AuthStart(h, n)..Len(tiles) : ChildOK(h, n, tiles, served, i) THEN "authed" ELSE "failed"
                /\ UNCHANGED <<h, n, idx, tiles, served, cors, saved, result>>
Save == /\ phase = "authed"
        /\ saved' = {<<tiles[i], served[i]>> : i \in 1..Len(tiles)}
        /\ phase' = "saved"
        /\ UNCHANGED <<h, n, idx, tiles, served, cors, result>>
Return == /\ phase = "saved"
          /\ result' = ReadOutcome(h, n, idx, tiles, served).hashes
          /\ phase' = "done"
          /\ UNCHANGED <<h, n, idx, tiles, served, cors, saved>>

Next == \/ Choose \/ Request \/ DoPlan \/ Fetch \/ AuthTree \/ AuthChildren \/ Save \/ Return
        \/ \E i \in 1..Len(tiles) : \E c \in Corruptions(n, tiles[i]) : Corrupt(i, c)

\* ---------- E1: observer invariants ----------
Honest == cors = <<>>
\* honest service never fails and returns the true stored hashes
HonestReturnsTruth == Honest => phase # "failed"
\* whatever was served, a successful read returns only true hashes
OkImpliesTruth == phase = "done" => \A i \in 1..Len(idx) : result[i] = TrueHash(n, idx[i][1], idx[i][2])
\* every tile passed on for saving is the true tile
SavedAreTrue == \A s \in saved : s[2] = TrueTile(n, s[1])
\* the plan is closed: every planned tile beyond the tree-hash tiles has its parent planned before it
PlanClosed == phase = "planned" =>
    \A i \in (Len(PlanTree(h, n)) + 1)..Len(tiles) :
        /\ tiles[i].w = Pow2(h)
        /\ \E j \in 1..(i - 1) : tiles[j] = TileParent(tiles[i], 1, n)
\* the step-wise reader and the one-shot description agree
StepwiseAgrees == phase \in {"done", "failed"} =>
    LET out == ReadOutcome(h, n, idx, tiles, served) IN out.ok = (phase = "done") /\ (out.ok => out.hashes = result)

\* ---------- E2: cases ----------
TileJ(t) == <<t.tl, t.tn, t.w>>
Emit == phase \in {"done", "failed"} =>
    PrintT(ToJson([w |-> "tiles", k |-> "tileread",
                   in |-> [h |-> h, n |-> n,
                           idx |-> [i \in 1..Len(idx) |-> <<idx[i][1], idx[i][2]>>],
                           cors |-> [i \in 1..Len(cors) |-> [tile |-> TileJ(tiles[cors[i].pos]), kind |-> cors[i].c.kind, j |-> cors[i].c.j, k |-> cors[i].c.k]]],
                   exp |-> [honest |-> Honest],
                   drift |-> [ok |-> phase = "done", plan |-> [i \in 1..Len(tiles) |-> TileJ(tiles[i])]]]))
=============================================================================
