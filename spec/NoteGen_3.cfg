CONSTANTS
  MaxText = 3
INIT Init
NEXT Next
INVARIANTS RoundTrip NoForeignText TextChangeRejected Emit ResignKeepsOthers EmitResign EmitMany
