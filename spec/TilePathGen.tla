---------------------------- MODULE TilePathGen ----------------------------
(* E1 + E2 for the path bijection of C10: every tile of a coordinate domain   *)
(* and every single-character mutation of its path.                           *)
EXTENDS TilePath, TLC, Json
CONSTANT Size     \* "small" | "full"
VARIABLES phase, tile

Hs == IF Size = "small" THEN {1, 3, 10, 30} ELSE {1, 2, 3, 8, 10, 30}
Ls == IF Size = "small" THEN {-1, 0, 63} ELSE {-1, 0, 1, 5, 63, 100}
Ns == IF Size = "small" THEN {0, 999, 1000, 1234067} ELSE {0, 1, 999, 1000, 1001, 999999, 1000000, 1234067, 2000000000}
Ws(h) == {1, Pow2(h)} \cup (IF h > 1 THEN {Pow2(h) - 1, 2} ELSE {}) \cup (IF Size = "full" /\ h >= 3 THEN 3..7 ELSE {})
DomainH(hh) == {[h |-> hh, l |-> ll, n |-> nn, w |-> ww] : ll \in Ls, nn \in Ns, ww \in Ws(hh)}
ValidTile(t) == t.w >= 1 /\ t.w <= Pow2(t.h)
Subst == {C("0"), C("1"), C("9"), C("x"), C("/"), C("."), C("p"), C("-"), C("+"), C("a")}
MutationsOf(s) ==
       {SubSeq(s, 1, i - 1) \o SubSeq(s, i + 1, Len(s)) : i \in 1..Len(s)}
  \cup {SubSeq(s, 1, i) \o SubSeq(s, i, Len(s)) : i \in 1..Len(s)}
  \cup {SubSeq(s, 1, i - 1) \o <<c>> \o SubSeq(s, i + 1, Len(s)) : i \in 1..Len(s), c \in Subst}
  \cup {SubSeq(s, 1, i) \o <<c>> \o SubSeq(s, i + 1, Len(s)) : i \in 0..Len(s), c \in Subst}
  \cup {s \o S(".p/1"), s \o S("/000"), S("x") \o s}

Init == phase = "hub" /\ tile = [h |-> 0, l |-> 0, n |-> 0, w |-> 0]
Next == \/ /\ phase = "hub"
           /\ phase' = "grp"
           /\ tile' \in {[h |-> hh, l |-> ll, n |-> 0, w |-> 0] : hh \in Hs, ll \in Ls}
        \/ /\ phase = "grp"
           /\ phase' = "tile"
           /\ tile' \in {t \in DomainH(tile.h) : ValidTile(t) /\ t.l = tile.l}

\* E1
Encodes == phase = "tile" => ParseOK(Path(tile)) /\ ParseTile(Path(tile)) = tile
Canonical == phase = "tile" => \A s \in MutationsOf(Path(tile)) : (ParseOK(s) /\ ParseTile(s).n >= 0) => Path(ParseTile(s)) = s
\* E2
CaseOf(s) == [w |-> "tiles", k |-> "tilepath", in |-> [s |-> s],
              exp |-> IF ParseOK(s) THEN [ok |-> TRUE, tile |-> LET t == ParseTile(s) IN <<t.h, t.l, t.n, t.w>>]
                                    ELSE [ok |-> FALSE, tile |-> <<0, 0, 0, 0>>]]
Emit == phase = "tile" =>
    /\ PrintT(ToJson(CaseOf(Path(tile))))
    /\ \A s \in MutationsOf(Path(tile)) : PrintT(ToJson(CaseOf(s)))
=============================================================================
