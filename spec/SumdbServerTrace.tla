-------------------------- MODULE SumdbServerTrace --------------------------
(* E3 for the server: runs of 24 concurrent lookups over three modules against *)
(* the real Server / TestServer.  Whatever the interleaving, the specification  *)
(* (requests are atomic, the log has no duplicates and is dense, every response *)
(* is covered by the head it carries) allows exactly one outcome for the        *)
(* recorder's summary flag.                                                    *)
EXTENDS Integers, Sequences, FiniteSets, TLC, Json
VARIABLES l, bad
Trace == ndJsonDeserialize("trace.ndjson")
ExpOf(e) == [ok |-> TRUE]
Init == l = 1 /\ bad = {}
Next == /\ l <= Len(Trace)
        /\ l' = l + 1
        /\ LET ok == Trace[l].obs = ExpOf(Trace[l]) IN
             /\ bad' = IF ok THEN bad ELSE bad \cup {l}
             /\ IF ok THEN TRUE ELSE PrintT(ToJson([k |-> "bad", in |-> [l |-> l], exp |-> ExpOf(Trace[l])]))
Done == l = Len(Trace) + 1 => PrintT(ToJson([k |-> "done", in |-> [n |-> Len(Trace), nbad |-> Cardinality(bad)]]))
=============================================================================
