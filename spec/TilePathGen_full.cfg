CONSTANTS
  Size = "full"
INIT Init
NEXT Next
INVARIANTS Encodes Canonical Emit
