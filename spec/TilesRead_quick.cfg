CONSTANTS
  AuthFrom = "distinctTreeTiles"
  Heights = {1, 2, 3}
  MaxN = 12
  PairMaxN = 5
  MaxCorrupt = 2
  TwoCorruptMaxN = 4
INIT Init
NEXT Next
INVARIANTS HonestReturnsTruth OkImpliesTruth SavedAreTrue PlanClosed StepwiseAgrees Emit
