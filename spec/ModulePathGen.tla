---------------------------- MODULE ModulePathGen ----------------------------
(* E1 + E2 for C06: strings are concatenations of up to MaxPieces fragments    *)
(* from a vocabulary chosen to hit every rule; each string is a state, printed  *)
(* with the specification's verdicts; plus a punctuation sweep and glob cases.  *)
EXTENDS ModulePathExp, TLC, Json
CONSTANTS MaxPieces
VARIABLES phase, pieces

Vocab == <<S("a"), S("A"), S("example.com"), S("gopkg.in"), S("yaml.v2"), S("pkg.v0"), S("x.v1-unstable"), S("x.v-unstable"), S("y.v0-unstable"),
           S("v1"), S("v2"), S("v02"), S("v2.1"), S("v10"), S("con"), S("CoN.txt"), S("x.con"), S("com1"), S("lpt9.a"), S("a~1"), S("a~1.go"), S("a.b~2"),
           \* the reserved-name and short-name rules look at what stands before the FIRST dot; major numbers of two digits
           S("con.tar.gz"), S("Com1.a.b"), S("a~1.b.c"), S("yaml.v10"), S("x.v12-unstable"), S("v19"),
           S("~"), S("."), S(".."), S(".a"), S("a."), S("a..b"), S("-a"), S("a+"), <<233>>, S("a b"), S("!"), S("@"), <<-255>>, S("/"), S("x-")>>
NV == Len(Vocab)
RECURSIVE TextOf(_)
TextOf(ps) == IF ps = <<>> THEN <<>> ELSE Vocab[Head(ps)] \o TextOf(Tail(ps))
P == TextOf(pieces)

Versions == <<S("v1.0.0"), S("v0.3.0"), S("v2.0.0"), S("v2.0.0+incompatible"), S("v0.0.0-20190101000000-abcdefabcdef"), S("v1"), S("1.0.0"), S("v3.1.4-pre"),
              \* invalid versions that begin like a v0 pseudo-version (the gopkg.in .v1 exception looks at the text only)
              S("v0.0.0-"), S("v0.0.0-a..b"), S("v3.0.0+incompatible")>>

ExpPath(p) == ExpPathV(p, Versions)
CaseOf(p) == [w |-> "modpath", k |-> "path", in |-> [p |-> p, versions |-> Versions], exp |-> ExpPath(p)]

\* punctuation sweep: every printable ASCII character at the start, in the middle and at the end of an element
\* (and the control characters, DEL, and a few beyond ASCII: NBSP, e-acute, micro sign, an Arabic-Indic and a full-width digit, em dash)
SweepChars == (1..127) \cup {160, 233, 181, 1635, 65298, 8212}
Sweep == {<<c>> \o S("a") : c \in SweepChars} \cup {S("a") \o <<c>> \o S("b") : c \in SweepChars} \cup {S("a") \o <<c>> : c \in SweepChars}
         \cup {S("x.y/") \o <<c>> \o S("b") : c \in SweepChars} \cup {S("x.y/a") \o <<c>> : c \in SweepChars}

GlobPieces == <<S("a"), S("b"), S("*"), S("?"), S("[ab]"), S("[^a]"), S("[a-c]"), S("[c-a]"), S("\\*"), S("/"), S("["), S("[]a]"), S("\\"), S(","), S("*.com"), S("[a-"), S("x.com")>>
Targets == {S("a"), S("b"), S("a/b"), S("ab/c"), S("a/b/c"), S("x.com/a"), S("*"), S("x.com"), S("c/a"), S("/a")}

Init == phase = "hub" /\ pieces = <<>>
Next ==
    \/ /\ phase = "hub" /\ phase' = "str" /\ pieces' \in {<<i>> : i \in 1..NV}
    \/ /\ phase = "str" /\ Len(pieces) < MaxPieces /\ phase' = "str" /\ \E i \in 1..NV : pieces' = Append(pieces, i)
    \/ /\ phase = "hub" /\ phase' = "sweep" /\ pieces' = <<>>
    \/ /\ phase = "hub" /\ phase' = "glob" /\ pieces' \in {<<i>> : i \in 1..Len(GlobPieces)}
    \/ /\ phase = "glob" /\ Len(pieces) < 3 /\ phase' = "glob" /\ \E i \in 1..Len(GlobPieces) : pieces' = Append(pieces, i)

\* ---- E1: on the specification ----
Inclusions == phase = "str" => (CheckPathOK(P) => CheckImportPathOK(P)) /\ (CheckImportPathOK(P) => CheckFilePathOK(P))
SplitShape == phase = "str" =>
    LET sp == Split(P) IN (sp.prefix \o sp.suffix = P) /\ (sp.ok => SuffixShapeOK(sp.suffix))
CheckIsConjunction == phase = "str" => \A i \in 1..Len(Versions) :
    CheckOK(P, Versions[i]) <=> (CheckPathOK(P) /\ Valid(Versions[i]) /\ CheckPathMajorOK(Versions[i], Split(P).suffix))

\* ---- E2 ----
RECURSIVE GlobText(_)
GlobText(ps) == IF ps = <<>> THEN <<>> ELSE GlobPieces[Head(ps)] \o GlobText(Tail(ps))
Emit ==
    /\ phase = "str" => PrintT(ToJson(CaseOf(P)))
    /\ phase = "sweep" => \A s \in Sweep : PrintT(ToJson(CaseOf(s)))
    /\ phase = "glob" => \A t \in Targets :
          PrintT(ToJson([w |-> "modpath", k |-> "glob", in |-> [globs |-> GlobText(pieces), target |-> t],
                         exp |-> [match |-> MatchPrefixPatterns(GlobText(pieces), t)]]))
=============================================================================
