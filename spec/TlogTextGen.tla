---------------------------- MODULE TlogTextGen ----------------------------
(* E2 generator for the text encodings of C09: every record text over a small *)
(* alphabet up to MaxLen (one state per text), and a family of tree-head texts.*)
EXTENDS TlogText, TLC, Json
CONSTANTS MaxLen
VARIABLE t

Alphabet == {97, 10, 9, 233, 32, -255, 65533}      \* a, newline, tab, e-acute, space, an invalid byte, a correctly encoded U+FFFD
Ids == {0, 7, 12345}
Rests == {<<>>, S("x"), <<10>>}

Init == t = <<>>
Next == Len(t) < MaxLen /\ \E c \in Alphabet : t' = Append(t, c)

\* E1: the round trip holds on the specification for every valid text, id and remainder
RoundTrip == \A id \in Ids, r \in Rests : RecordRoundTrip(id, t, r)
DocImpliesLenient == ValidRecordText(t) => LenientRecordText(t)

EmitText == PrintT(ToJson([w |-> "tlog", k |-> "rectext",
                           in |-> [text |-> t, id |-> 12345, rest |-> S("x")],
                           exp |-> [valid |-> ValidRecordText(t), lenient |-> LenientRecordText(t)]]))

\* record ids of every decimal length that matters (as digit strings: TLC's integers have 32 bits)
BigIds == {S("0"), S("9"), S("4294967296"), S("999999999999999999"), S("1000000000000000000"), S("9223372036854775807")}
EmitIds == Len(t) <= 2 => \A id \in BigIds :
    PrintT(ToJson([w |-> "tlog", k |-> "rectext",
                   in |-> [text |-> t, id |-> 0, idstr |-> id, rest |-> S("x")],
                   exp |-> [valid |-> ValidRecordText(t), lenient |-> LenientRecordText(t)]]))

Firsts == {TreePrefix, S("go.sum database tree v2"), S("go.sum database tre")}
Sizes == {S("0"), S("5"), S("05"), S("+5"), S("-1"), S("-0"), <<>>, S("5 "), S("12345678"),
          S("9223372036854775807"), S("9223372036854775808"), S("99999999999999999999"), S("0x10"), S("1e3")}
HashClasses == {"good", "short", "badchar", "long"}
TreeCases == {[first |-> f, nstr |-> s, hash |-> h, extra |-> e, finalnl |-> nl] :
                f \in Firsts, s \in Sizes, h \in HashClasses, e \in {0, 2}, nl \in BOOLEAN}
NNewlines(c) == 2 + c.extra + (IF c.finalnl THEN 1 ELSE 0)
EmitTrees == t = <<>> =>
    \A c \in TreeCases :
        PrintT(ToJson([w |-> "tlog", k |-> "treetext", in |-> c,
                       exp |-> [ok |-> ParseTreeOK(c.first, c.nstr, c.hash, NNewlines(c))]]))
============================================================================
