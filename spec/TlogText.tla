----------------------------- MODULE TlogText -----------------------------
(* Text encodings of tlog: record text validity, the lookup-record format   *)
(* and the tree-head format, at the level of characters and lines.          *)
EXTENDS Integers, Sequences, Chars, Digits

NL == 10
\* Record text: valid UTF-8, no ASCII control characters other than newline,
\* ends in a newline, contains no blank line.
ValidRecordText(t) ==
    /\ Len(t) > 0
    /\ \A i \in 1..Len(t) : ~Invalid(t[i]) /\ (t[i] >= 32 \/ t[i] = NL)
    /\ t[Len(t)] = NL
    /\ t[1] # NL
    /\ \A i \in 1..(Len(t) - 1) : ~(t[i] = NL /\ t[i + 1] = NL)
\* what the implementation's validity test accepts in addition: a leading newline
\* (documented as invalid, "must not contain any blank lines"); round trips still hold
LenientRecordText(t) ==
    /\ Len(t) > 0
    /\ \A i \in 1..Len(t) : ~Invalid(t[i]) /\ (t[i] >= 32 \/ t[i] = NL)
    /\ t[Len(t)] = NL
    /\ \A i \in 1..(Len(t) - 1) : ~(t[i] = NL /\ t[i + 1] = NL)

FormatRecord(id, t) == ToDigits(id) \o <<NL>> \o t \o <<NL>>

\* first position of "\n\n" in s, or 0
IndexNLNL(s) == IF \E i \in 1..(Len(s) - 1) : s[i] = NL /\ s[i + 1] = NL
                THEN CHOOSE i \in 1..(Len(s) - 1) : s[i] = NL /\ s[i + 1] = NL /\ \A j \in 1..(i - 1) : ~(s[j] = NL /\ s[j + 1] = NL)
                ELSE 0
\* ParseRecord on a message whose first line is a plain decimal id
ParseRecord(msg) ==
    LET i == IndexFirst(msg, NL) IN
    IF i = 0 THEN [ok |-> FALSE]
    ELSE LET idl == Take(msg, i - 1) body == Drop(msg, i) j == IndexNLNL(body) IN
         IF ~IsNum(idl) \/ j = 0 THEN [ok |-> FALSE]
         ELSE LET text == Take(body, j) IN
              IF ~LenientRecordText(text) THEN [ok |-> FALSE]
              ELSE [ok |-> TRUE, id |-> idl, text |-> text, rest |-> Drop(body, j + 1)]

RecordRoundTrip(id, t, rest) ==
    LenientRecordText(t) =>
        LET p == ParseRecord(FormatRecord(id, t) \o rest)
        IN p.ok /\ p.id = ToDigits(id) /\ p.text = t /\ p.rest = rest

\* ---- tree head: three lines "go.sum database tree" / N / base64(hash), extra lines ignored ----
TreePrefix == S("go.sum database tree")
\* nstr: the text of the size line; hashClass: "good" | "short" | "badchar"
\* a size line is acceptable iff it is the canonical decimal of a number in 0..2^63-1
MaxInt64 == S("9223372036854775807")
CanonicalSize(nstr) == IsNum(nstr) /\ NoLeadingZero(nstr) /\ CmpNum(nstr, MaxInt64) <= 0
ParseTreeOK(first, nstr, hashClass, nNewlines) ==
    first = TreePrefix /\ nNewlines >= 3 /\ CanonicalSize(nstr) /\ hashClass = "good"
===========================================================================
