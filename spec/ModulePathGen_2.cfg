CONSTANTS
  MaxPieces = 2
INIT Init
NEXT Next
INVARIANTS Inclusions SplitShape CheckIsConjunction Emit
