CONSTANTS
  Threads = {"t1", "t2", "t3"}
  Heads <- SmallHeads
SPECIFICATION Spec
INVARIANTS IndInv StoredNotAhead
PROPERTY NeverBackwards
