---------------------------- MODULE SumdbClient ----------------------------
(* The checksum-database client (golang.org/x/mod/sumdb.Client) as a          *)
(* multi-client, multi-thread state machine against an adversarial network,   *)
(* an adversarial on-disk cache and a shared configuration file.              *)
(*                                                                            *)
(* Protocol layer: one action per external operation or critical section of   *)
(* the implementation (Lookup -> record cache -> ReadCache | ReadRemote ->     *)
(* ParseRecord -> mergeLatest (mergeLatestMem; config loop with compare-and-   *)
(* swap) -> checkRecord -> WriteCache; checkTrees and checkRecord read hashes  *)
(* through tiles: plan, fetch each tile, authenticate, save).                 *)
(* Worlds: timelines A and B share a prefix of Prefix records and diverge.     *)
(* Hashes are terms (HashTerms), tiles and their authentication come from      *)
(* Tiles.tla, so "a tile reachable only through its parent" arises from real   *)
(* coordinates.                                                               *)
(* The properties C01, C13, C14 are the invariants / action properties at the  *)
(* end of the module.                                                         *)
EXTENDS Integers, Sequences, FiniteSets, HashTerms, TLC

CONSTANTS
    Clients,        \* set of client ids
    Threads,        \* set of thread ids
    ClientOf,       \* function Threads -> Clients
    Lookups,        \* function Threads -> sequence of keys (record ids) looked up in order
    H,              \* tile height
    Prefix,         \* records shared by timelines A and B
    SizeA, SizeB,   \* final sizes of the timelines (SizeB = 0: no second timeline)
    InitServed,     \* function timeline -> size of the head served at the start
    MaxGrow,        \* how many times the served head of a timeline may grow
    ServeTls,       \* timelines the server may answer from, at no fault cost
    MaxSwitch,      \* how many times the server may change the timeline it answers from
    MaxEnv,         \* how many times another honest process (not one of Clients) stores a newer head in the shared configuration
    Coarse,         \* TRUE: a lookup starts only when no other lookup is in progress (sequential multi-client histories)
    MaxFaults,      \* number of corrupted responses (network or cache) per behaviour
    FaultKinds,     \* enabled corruption kinds
    InitLookups,      \* keys whose lookup files are in the cache from the start: honest responses under the head served at the start (written by an earlier run; the stored head may have been lost or restored from an older copy since)
    InitDiskFull,     \* TRUE: the cache starts with every complete tile of timeline A (left by a client that went further) and nothing else
    PartialMayBeGone, \* TRUE: the server may lack a partial tile whose full tile exists (client falls back to the full tile)
    TileDetail,     \* TRUE: tiles fetched one by one and authenticated; FALSE: hash reads are atomic and honest
    MaxRestarts,    \* client restarts (memory wiped, disk and configuration kept)
    InitCfgs,       \* set of initial stored heads (EmptyMsg or good heads)
    Skip            \* set of keys matching the GONOSUMDB pattern list

Tiles == INSTANCE Tiles WITH AuthFrom <- "distinctTreeTiles"

VARIABLES
    cfg,        \* stored latest tree head (configuration file), shared by all clients
    disk,       \* cache files: function from file name to content
    srv,        \* the server: [n: timeline -> size of the head currently served, grown: growth steps so far,
                \*              cur: timeline it currently answers from, sw: number of timeline switches so far]
    mem,        \* per client: in-memory latest head
    inited,     \* per client: initialisation finished
    recCache,   \* per client: key -> "none" | [st |-> "run", by] | [st |-> "done", res]
    tileMem,    \* per client: tile -> content or "err" (in-memory tile cache, holds unauthenticated data too)
    tileSaved,  \* per client: tiles known to be on disk
    pc, loc, stk,   \* per thread: program counter, locals, return stack
    done,       \* per thread: number of finished lookups
    results,    \* per thread: sequence of results
    faults,     \* corrupted responses so far
    restarts,
    sec,        \* security reports: sequence of [c, old, new]
    hist        \* history of external operations (for replay; not part of the behaviour's meaning)

vars == <<cfg, disk, srv, mem, inited, recCache, tileMem, tileSaved, pc, loc, stk, done, results, faults, restarts, sec, hist>>

\* ------------------------------------------------------------------ worlds
Timelines == IF SizeB > 0 THEN {"A", "B"} ELSE {"A"}
SizeOf(tl) == IF tl = "A" THEN SizeA ELSE IF tl = "B" THEN SizeB ELSE Prefix
\* content of record i on timeline tl; the shared prefix has the same content on both
RecC(tl, i) == IF i < Prefix THEN <<"P", i>> ELSE <<tl, i>>
RecsOf(tl, n) == [i \in 1..n |-> RecC(tl, i - 1)]
NormTl(tl, n) == IF n <= Prefix THEN "P" ELSE tl
Forged(i) == <<"F", i>>

\* heads.  kind: "good" (signed by the configured key), "badsig", "garbage", "empty" (no message)
GoodHead(tl, n) == [kind |-> "good", tl |-> NormTl(tl, n), n |-> n]
BadSigHead(tl, n) == [kind |-> "badsig", tl |-> NormTl(tl, n), n |-> n]
GarbageHead == [kind |-> "garbage", tl |-> "P", n |-> 0]
EmptyMsg == [kind |-> "empty", tl |-> "P", n |-> 0]
RootOf(hd) == MTH(RecsOf(hd.tl, hd.n), 0, hd.n)
\* h1's tree is a prefix of h2's tree
PrefixOf(h1, h2) == h1.n = 0 \/ (h1.n <= h2.n /\ RootOf(h1) = MTH(RecsOf(h2.tl, h2.n), 0, h1.n))
Consistent(h1, h2) == PrefixOf(h1, h2) \/ PrefixOf(h2, h1)

\* lookup responses
TrueRec(tl, id) == [kind |-> "true", tl |-> NormTl(tl, id + 1), id |-> id]
ForgedRec(id) == [kind |-> "forged", tl |-> "P", id |-> id]
ContentOf(rec) == IF rec.kind = "true" THEN RecC(rec.tl, rec.id) ELSE Forged(rec.id)
Resp(rec, hd) == [kind |-> "resp", rec |-> rec, head |-> hd]
Malformed == [kind |-> "malformed"]
NetErr == [kind |-> "err"]
HonestResp(tl, k) == Resp(TrueRec(tl, k), GoodHead(tl, srv.n[tl]))

\* files
LookupFile(k) == <<"lookup", k>>
TileFile(t) == <<"tile", t.tl, t.tn, t.w>>
FullOf(t) == [t EXCEPT !.w = Pow2(H)]

\* true content of tile t on timeline tl (the server holds the whole timeline)
TileExists(tl, t) == t.tn * Pow2(H) + t.w <= Tiles!CountAt(SizeOf(tl), t.tl * H)
TrueTileOf(tl, t) == Tiles!TrueTileR(RecsOf(tl, SizeOf(tl)), t)

\* ------------------------------------------------------------------ faults
\* corrupted lookup responses for key k
LookupFaults(k) ==
    LET tl == srv.cur cur == srv.n[srv.cur] IN
       (IF "forged"    \in FaultKinds THEN {Resp(ForgedRec(k), GoodHead(tl, cur))} ELSE {})
  \cup (IF "otherid"   \in FaultKinds THEN {Resp(TrueRec(tl, j), GoodHead(tl, cur)) : j \in {x \in 0..(cur - 1) : x # k /\ (x = k + 1 \/ x = k - 1)}} ELSE {})
  \cup (IF "stale"     \in FaultKinds THEN {Resp(TrueRec(tl, k), GoodHead(tl, m)) : m \in {x \in 1..(cur - 1) : x = k \/ x = k + 1 \/ x = cur - 1}} ELSE {})
  \cup (IF "badsig"    \in FaultKinds THEN {Resp(TrueRec(tl, k), BadSigHead(tl, cur)), Resp(ForgedRec(k), BadSigHead(tl, cur))} ELSE {})
  \cup (IF "garbage"   \in FaultKinds THEN {Resp(TrueRec(tl, k), GarbageHead)} ELSE {})
  \* the honest answer of another view (a genuine head of the other timeline): a cache file written by a process that
  \* followed that view, or one request answered from it
  \cup (IF "otherview" \in FaultKinds THEN {Resp(TrueRec(o, k), GoodHead(o, srv.n[o])) : o \in {x \in Timelines \ {tl} : k < srv.n[x]}} ELSE {})
  \cup (IF "malformed" \in FaultKinds THEN {Malformed} ELSE {})
  \cup (IF "neterr"    \in FaultKinds THEN {NetErr} ELSE {})
\* Tile data handed to the client: [ok, d, lab] - ok = FALSE is a failed read; d the hashes;
\* lab a small label naming the content (what the replay harness serves).
TData(d, lab) == [ok |-> TRUE, d |-> d, lab |-> lab]
TErr == [ok |-> FALSE, d |-> <<>>, lab |-> [kind |-> "err", tl |-> "P", pos |-> 0]]
Lab(kind, tl, pos) == [kind |-> kind, tl |-> tl, pos |-> pos]
TrueTileData(tl, t) == TData(TrueTileOf(tl, t), Lab("true", tl, 0))
Replace(s, i, x) == [j \in 1..Len(s) |-> IF j = i THEN x ELSE s[j]]
\* corrupted contents for tile t, derived from its true content on timeline tl
TileFaults(tl, t) ==
    LET d == TrueTileOf(tl, t) IN
       (IF "tjunk"     \in FaultKinds THEN {TData(Replace(d, 1, Junk(1)), Lab("tjunk", tl, 1)), TData(Replace(d, Len(d), Junk(1)), Lab("tjunk", tl, Len(d)))} ELSE {})
  \cup (IF "tswap"     \in FaultKinds /\ Len(d) >= 2 THEN {TData([j \in 1..Len(d) |-> IF j = 1 THEN d[2] ELSE IF j = 2 THEN d[1] ELSE d[j]], Lab("tswap", tl, 1))} ELSE {})
  \cup (IF "ttruncate" \in FaultKinds /\ Len(d) >= 2 THEN {TData(SubSeq(d, 1, Len(d) - 1), Lab("ttruncate", tl, 0))} ELSE {})
  \cup (IF "textend"   \in FaultKinds THEN {TData(Append(d, Junk(2)), Lab("textend", tl, 0))} ELSE {})
  \cup (IF "tforged"   \in FaultKinds /\ t.tl = 0
        THEN {TData(Replace(d, i, Leaf(Forged(t.tn * Pow2(H) + i - 1))), Lab("tforged", tl, i)) : i \in 1..Len(d)} ELSE {})
  \cup (IF "neterr"    \in FaultKinds THEN {TErr} ELSE {})

\* ------------------------------------------------------------------ helpers
Self(t) == ClientOf[t]
Push(t, lbl) == stk' = [stk EXCEPT ![t] = <<lbl>> \o @]
\* return to the label on top of the stack
Return(t) == /\ pc' = [pc EXCEPT ![t] = Head(stk[t])]
             /\ stk' = [stk EXCEPT ![t] = Tail(@)]
Goto(t, lbl) == pc' = [pc EXCEPT ![t] = lbl]
SetLoc(t, f, v) == loc' = [loc EXCEPT ![t][f] = v]
Log(e) == hist' = Append(hist, e)
LogSeq(es) == hist' = hist \o es

Loc0 == [key |-> -1, src |-> "", resp |-> Malformed, msg |-> EmptyMsg, tree |-> EmptyMsg, snap |-> EmptyMsg,
         when |-> "", err |-> "", cmsg |-> EmptyMsg, lmsg |-> EmptyMsg,
         older |-> EmptyMsg, newer |-> EmptyMsg,
         trTree |-> EmptyMsg, trIdx |-> <<>>, trPlan |-> <<>>, trI |-> 0, trData |-> <<>>, trHashes |-> <<>>, trFull |-> FALSE,
         res |-> [ok |-> FALSE, err |-> "", rec |-> ForgedRec(0)]]

\* coordinates whose right fold is the tree hash of the first m records
StxCoords(m) == Tiles!Stx(0, m)
RECURSIVE FoldH(_)
FoldH(hs) == IF Len(hs) = 1 THEN hs[1] ELSE Node(hs[1], FoldH(Tail(hs)))

\* ------------------------------------------------------------------ init
Init ==
    /\ cfg \in InitCfgs
    /\ disk = IF InitDiskFull
              THEN LET fulls == {x \in Tiles!AllTiles(H, SizeA) : x.w = Pow2(H)} IN
                   [f \in {TileFile(x) : x \in fulls} |-> TrueTileData("A", CHOOSE x \in fulls : TileFile(x) = f)]
              ELSE [f \in {LookupFile(k) : k \in InitLookups} |->
                       LET k == CHOOSE k \in InitLookups : LookupFile(k) = f IN Resp(TrueRec("A", k), GoodHead("A", InitServed["A"]))]
    /\ srv \in {[n |-> [tl \in Timelines |-> InitServed[tl]], grown |-> 0, cur |-> tl0, sw |-> 0, env |-> 0] : tl0 \in ServeTls}
    /\ mem = [c \in Clients |-> EmptyMsg]
    /\ inited = [c \in Clients |-> "no"]
    /\ recCache = [c \in Clients |-> <<>>]
    /\ tileMem = [c \in Clients |-> <<>>]
    /\ tileSaved = [c \in Clients |-> {}]
    /\ pc = [t \in Threads |-> "idle"]
    /\ loc = [t \in Threads |-> Loc0]
    /\ stk = [t \in Threads |-> <<>>]
    /\ done = [t \in Threads |-> 0]
    /\ results = [t \in Threads |-> <<>>]
    /\ faults = 0 /\ restarts = 0
    /\ sec = <<>>
    /\ hist = <<[op |-> "Init", head |-> cfg]>>

Has(f, x) == x \in DOMAIN f
Put(f, x, v) == [y \in DOMAIN f \cup {x} |-> IF y = x THEN v ELSE f[y]]

\* ------------------------------------------------------------------ server
\* the honest server's log grows: a larger head is served from now on
Grow(tl) == /\ srv.grown < MaxGrow
            /\ srv.n[tl] < SizeOf(tl)
            /\ srv' = [srv EXCEPT !.n[tl] = @ + 1, !.grown = @ + 1]
            \* (not logged in the history: the head sizes are visible in the responses, and logging the moment
            \* of a server-side step would only multiply histories that differ in nothing the client can see)
            /\ UNCHANGED <<cfg, disk, mem, inited, recCache, tileMem, tileSaved, pc, loc, stk, done, results, faults, restarts, sec, hist>>
\* the server starts answering from another timeline (a fork is presented, or withdrawn)
Switch(tl) == /\ srv.sw < MaxSwitch
              /\ tl \in ServeTls /\ tl # srv.cur
              /\ srv' = [srv EXCEPT !.cur = tl, !.sw = @ + 1]
              /\ UNCHANGED <<cfg, disk, mem, inited, recCache, tileMem, tileSaved, pc, loc, stk, done, results, faults, restarts, sec, hist>>

\* another honest process that shares the configuration file (a second go command) stores a newer head of the honest log
\* there - at the worst moment: while a thread of ours stands between reading the file and its compare-and-swap.  Any number
\* of such writers may win the swap in a row; each time the thread must go around again.
EnvStore(n) == /\ srv.env < MaxEnv
               /\ \E t \in Threads : pc[t] = "ml_write"
               /\ cfg.kind \in {"empty", "good"}
               \* (it talks to the same server: its head is one of the timeline served now, and it only moves the file forward)
               /\ n > (IF cfg.kind = "good" THEN cfg.n ELSE 0) /\ n <= srv.n[srv.cur]
               /\ cfg.kind = "good" => PrefixOf(cfg, GoodHead(srv.cur, n))
               /\ cfg' = GoodHead(srv.cur, n)
               /\ srv' = [srv EXCEPT !.env = @ + 1]
               /\ Log([op |-> "EnvStore", head |-> cfg'])
               /\ UNCHANGED <<disk, mem, inited, recCache, tileMem, tileSaved, pc, loc, stk, done, results, faults, restarts, sec>>

\* ------------------------------------------------------------------ Lookup
StartLookup(t) ==
    /\ pc[t] = "idle"
    /\ done[t] < Len(Lookups[t])
    /\ Coarse => \A u \in Threads : pc[u] = "idle"
    /\ LET k == Lookups[t][done[t] + 1] IN
       /\ loc' = [loc EXCEPT ![t] = [Loc0 EXCEPT !.key = k]]
       /\ IF k \in Skip
          THEN /\ Goto(t, "finish") /\ UNCHANGED <<stk, inited>>
          ELSE IF inited[Self(t)] = "no"
          THEN \* sync.Once: this lookup is the first to arrive and runs the initialisation
               /\ inited' = [inited EXCEPT ![Self(t)] = "running"]
               /\ Goto(t, "init_key") /\ UNCHANGED stk
          ELSE /\ Goto(t, "init_wait") /\ UNCHANGED <<stk, inited>>
    /\ Log([op |-> "LookupStart", t |-> t, key |-> Lookups[t][done[t] + 1]])
    /\ UNCHANGED <<cfg, disk, srv, mem, recCache, tileMem, tileSaved, done, results, faults, restarts, sec>>

InitReadKey(t) ==
    /\ pc[t] = "init_key"
    /\ Goto(t, "init_latest")
    /\ Log([op |-> "ReadConfig", t |-> t, file |-> "key"])
    /\ UNCHANGED <<cfg, disk, srv, mem, inited, recCache, tileMem, tileSaved, loc, stk, done, results, faults, restarts, sec>>
\* initialisation is being done, or was done, by another lookup (sync.Once); a failed initialisation is sticky
InitWait(t) ==
    /\ pc[t] = "init_wait"
    /\ inited[Self(t)] \in {"ok", "failed"}
    /\ IF inited[Self(t)] = "ok"
       THEN Goto(t, "claim") /\ UNCHANGED loc
       ELSE Goto(t, "finish") /\ loc' = [loc EXCEPT ![t].res = [ok |-> FALSE, err |-> "init", rec |-> ForgedRec(0)]]
    /\ UNCHANGED <<cfg, disk, srv, mem, inited, recCache, tileMem, tileSaved, stk, done, results, faults, restarts, sec, hist>>
InitReadLatest(t) ==
    /\ pc[t] = "init_latest"
    /\ loc' = [loc EXCEPT ![t].msg = cfg]
    /\ Goto(t, "ml_start")
    /\ Push(t, "init_merged")
    /\ Log([op |-> "ReadConfig", t |-> t, file |-> "latest", head |-> cfg])
    /\ UNCHANGED <<cfg, disk, srv, mem, inited, recCache, tileMem, tileSaved, done, results, faults, restarts, sec>>
\* initialisation error is sticky in the implementation (initErr); a failed init fails every lookup
InitMerged(t) ==
    /\ pc[t] = "init_merged"
    /\ IF loc[t].err = ""
       THEN /\ inited' = [inited EXCEPT ![Self(t)] = "ok"]
            /\ Goto(t, "claim")
            /\ UNCHANGED loc
       ELSE /\ loc' = [loc EXCEPT ![t].res = [ok |-> FALSE, err |-> "init", rec |-> ForgedRec(0)]]
            /\ Goto(t, "finish")
            /\ inited' = [inited EXCEPT ![Self(t)] = "failed"]
    /\ UNCHANGED <<cfg, disk, srv, mem, recCache, tileMem, tileSaved, stk, done, results, faults, restarts, sec, hist>>

\* parCache.Do on the record cache: run once per key and client, others wait for the result
Claim(t) ==
    /\ pc[t] = "claim"
    /\ LET c == Self(t) k == loc[t].key IN
       IF ~Has(recCache[c], k)
       THEN /\ recCache' = [recCache EXCEPT ![c] = Put(@, k, [st |-> "run", by |-> t])]
            /\ Goto(t, "lk_cache")
       ELSE \* another lookup of this client is fetching, or has fetched, the record: wait for its result
            /\ Goto(t, "claim_wait")
            /\ UNCHANGED recCache
    /\ Log([op |-> "Hook", t |-> t, point |-> "claim", key |-> loc[t].key])
    /\ UNCHANGED <<cfg, disk, srv, mem, inited, tileMem, tileSaved, loc, stk, done, results, faults, restarts, sec>>
ClaimWait(t) ==
    /\ pc[t] = "claim_wait"
    /\ LET c == Self(t) k == loc[t].key IN
       /\ recCache[c][k].st = "done"
       /\ loc' = [loc EXCEPT ![t].res = recCache[c][k].res]
    /\ Goto(t, "finish")
    /\ UNCHANGED <<cfg, disk, srv, mem, inited, recCache, tileMem, tileSaved, stk, done, results, faults, restarts, sec, hist>>

\* ReadCache of the lookup file: what is on disk, nothing, or (fault) anything
LkCache(t) ==
    /\ pc[t] = "lk_cache"
    /\ LET k == loc[t].key f == LookupFile(k) IN
       \/ /\ Has(disk, f)
          /\ loc' = [loc EXCEPT ![t].resp = disk[f], ![t].src = "cache"]
          /\ Goto(t, "lk_parse")
          /\ Log([op |-> "ReadCache", t |-> t, file |-> f, hit |-> TRUE, fault |-> FALSE, data |-> disk[f]])
          /\ UNCHANGED faults
       \/ /\ ~Has(disk, f)
          /\ Goto(t, "lk_remote")
          /\ Log([op |-> "ReadCache", t |-> t, file |-> f, hit |-> FALSE, fault |-> FALSE, data |-> Malformed])
          /\ UNCHANGED <<loc, faults>>
       \/ /\ faults < MaxFaults /\ "cache" \in FaultKinds
          /\ \E r \in LookupFaults(k) \ {NetErr} :
               /\ loc' = [loc EXCEPT ![t].resp = r, ![t].src = "cache"]
               /\ Log([op |-> "ReadCache", t |-> t, file |-> f, hit |-> TRUE, fault |-> TRUE, data |-> r])
          /\ faults' = faults + 1
          /\ Goto(t, "lk_parse")
    /\ UNCHANGED <<cfg, disk, srv, mem, inited, recCache, tileMem, tileSaved, stk, done, results, restarts, sec>>

LkRemote(t) ==
    /\ pc[t] = "lk_remote"
    /\ LET k == loc[t].key tl == srv.cur IN
       \/ \* the current timeline has no such record at all: the server answers 404
          /\ k >= SizeOf(tl)
          /\ loc' = [loc EXCEPT ![t].resp = NetErr, ![t].src = "net"]
          /\ Log([op |-> "ReadRemote", t |-> t, path |-> LookupFile(k), fault |-> FALSE, data |-> NetErr])
          /\ UNCHANGED <<faults, srv>>
       \/ \* honest answer: the record under the current signed head; a record not yet covered by the
          \* served head is appended first (the log grows on demand, as in the reference server)
          /\ k < SizeOf(tl)
          /\ LET n2 == IF k < srv.n[tl] THEN srv.n[tl] ELSE k + 1
                 r == Resp(TrueRec(tl, k), GoodHead(tl, n2)) IN
             /\ srv' = [srv EXCEPT !.n[tl] = n2]
             /\ loc' = [loc EXCEPT ![t].resp = r, ![t].src = "net"]
             /\ Log([op |-> "ReadRemote", t |-> t, path |-> LookupFile(k), fault |-> FALSE, data |-> r])
          /\ UNCHANGED faults
       \/ /\ faults < MaxFaults
          /\ k < srv.n[tl]
          /\ \E r \in LookupFaults(k) :
               /\ loc' = [loc EXCEPT ![t].resp = r, ![t].src = "net"]
               /\ Log([op |-> "ReadRemote", t |-> t, path |-> LookupFile(k), fault |-> TRUE, data |-> r])
          /\ faults' = faults + 1
          /\ UNCHANGED srv
    /\ Goto(t, "lk_parse")
    /\ UNCHANGED <<cfg, disk, mem, inited, recCache, tileMem, tileSaved, stk, done, results, restarts, sec>>

Fail(t, e) == loc' = [loc EXCEPT ![t].res = [ok |-> FALSE, err |-> e, rec |-> ForgedRec(0)]]

LkParse(t) ==
    /\ pc[t] = "lk_parse"
    /\ IF loc[t].resp.kind # "resp"
       THEN /\ Fail(t, IF loc[t].resp.kind = "err" THEN "net" ELSE "malformed")
            /\ Goto(t, "lk_done") /\ UNCHANGED stk
       ELSE /\ loc' = [loc EXCEPT ![t].msg = loc[t].resp.head, ![t].err = ""]
            /\ Goto(t, "ml_start")
            /\ Push(t, "lk_merged")
    /\ UNCHANGED <<cfg, disk, srv, mem, inited, recCache, tileMem, tileSaved, done, results, faults, restarts, sec, hist>>

LkMerged(t) ==
    /\ pc[t] = "lk_merged"
    /\ IF loc[t].err # ""
       THEN /\ Fail(t, loc[t].err) /\ Goto(t, "lk_done") /\ UNCHANGED stk
       ELSE /\ Goto(t, "cr_start") /\ Push(t, "lk_checked") /\ UNCHANGED loc
    /\ UNCHANGED <<cfg, disk, srv, mem, inited, recCache, tileMem, tileSaved, done, results, faults, restarts, sec, hist>>

\* the record is validated: write the whole response to the cache unless it came from there
LkChecked(t) ==
    /\ pc[t] = "lk_checked"
    /\ IF loc[t].err # ""
       THEN /\ Fail(t, loc[t].err) /\ UNCHANGED <<disk, hist>>
       ELSE /\ loc' = [loc EXCEPT ![t].res = [ok |-> TRUE, err |-> "", rec |-> loc[t].resp.rec]]
            /\ IF loc[t].src = "net"
               THEN /\ disk' = Put(disk, LookupFile(loc[t].key), loc[t].resp)
                    /\ Log([op |-> "WriteCache", t |-> t, file |-> LookupFile(loc[t].key), data |-> loc[t].resp, mem |-> mem[Self(t)]])
               ELSE UNCHANGED <<disk, hist>>
    /\ Goto(t, "lk_done")
    /\ UNCHANGED <<cfg, srv, mem, inited, recCache, tileMem, tileSaved, stk, done, results, faults, restarts, sec>>

LkDone(t) ==
    /\ pc[t] = "lk_done"
    /\ recCache' = [recCache EXCEPT ![Self(t)] = Put(@, loc[t].key, [st |-> "done", res |-> loc[t].res])]
    /\ Goto(t, "finish")
    /\ UNCHANGED <<cfg, disk, srv, mem, inited, tileMem, tileSaved, loc, stk, done, results, faults, restarts, sec, hist>>

\* the lines returned are those of the validated record that belong to the requested module version
Finish(t) ==
    /\ pc[t] = "finish"
    /\ LET k == loc[t].key
           r == IF k \in Skip THEN [ok |-> FALSE, err |-> "skip", key |-> k, lines |-> <<>>, mem |-> mem[Self(t)]]
                ELSE IF ~loc[t].res.ok THEN [ok |-> FALSE, err |-> loc[t].res.err, key |-> k, lines |-> <<>>, mem |-> mem[Self(t)]]
                ELSE [ok |-> TRUE, err |-> "", key |-> k,
                      lines |-> IF loc[t].res.rec.id = k THEN <<ContentOf(loc[t].res.rec)>> ELSE <<>>, mem |-> mem[Self(t)]]
       IN /\ results' = [results EXCEPT ![t] = Append(@, r)]
          /\ Log([op |-> "LookupEnd", t |-> t, key |-> k, ok |-> r.ok, err |-> r.err, lines |-> r.lines])
    /\ done' = [done EXCEPT ![t] = @ + 1]
    /\ Goto(t, "idle")
    /\ UNCHANGED <<cfg, disk, srv, mem, inited, recCache, tileMem, tileSaved, loc, stk, faults, restarts, sec>>

\* ------------------------------------------------------------------ mergeLatest
MlStart(t) ==
    /\ pc[t] = "ml_start"
    /\ Goto(t, "mm_open") /\ Push(t, "ml_after1")
    /\ UNCHANGED <<cfg, disk, srv, mem, inited, recCache, tileMem, tileSaved, loc, done, results, faults, restarts, sec, hist>>
MlAfter1(t) ==
    /\ pc[t] = "ml_after1"
    /\ IF loc[t].err # "" \/ loc[t].when # "future" THEN Return(t) ELSE (Goto(t, "ml_readcfg") /\ UNCHANGED stk)
    /\ UNCHANGED <<cfg, disk, srv, mem, inited, recCache, tileMem, tileSaved, loc, done, results, faults, restarts, sec, hist>>
MlReadCfg(t) ==
    /\ pc[t] = "ml_readcfg"
    /\ loc' = [loc EXCEPT ![t].cmsg = cfg, ![t].msg = cfg]
    /\ Goto(t, "mm_open") /\ Push(t, "ml_after2")
    /\ Log([op |-> "ReadConfig", t |-> t, file |-> "latest", head |-> cfg])
    /\ UNCHANGED <<cfg, disk, srv, mem, inited, recCache, tileMem, tileSaved, done, results, faults, restarts, sec>>
MlAfter2(t) ==
    /\ pc[t] = "ml_after2"
    /\ IF loc[t].err # "" \/ loc[t].when # "past" THEN Return(t) ELSE (Goto(t, "ml_snap") /\ UNCHANGED stk)
    /\ UNCHANGED <<cfg, disk, srv, mem, inited, recCache, tileMem, tileSaved, loc, done, results, faults, restarts, sec, hist>>
\* read latestMsg under the lock
MlSnap(t) ==
    /\ pc[t] = "ml_snap"
    /\ loc' = [loc EXCEPT ![t].lmsg = mem[Self(t)]]
    /\ Goto(t, "ml_write")
    /\ Log([op |-> "Hook", t |-> t, point |-> "cfgsnap"])
    /\ UNCHANGED <<cfg, disk, srv, mem, inited, recCache, tileMem, tileSaved, stk, done, results, faults, restarts, sec>>
\* WriteConfig: atomic compare-and-swap on the configuration file
MlWrite(t) ==
    /\ pc[t] = "ml_write"
    /\ IF cfg = loc[t].cmsg
       THEN /\ cfg' = loc[t].lmsg
            /\ Return(t)
            /\ Log([op |-> "WriteConfig", t |-> t, old |-> loc[t].cmsg, new |-> loc[t].lmsg, conflict |-> FALSE])
       ELSE /\ UNCHANGED cfg
            /\ Goto(t, "ml_readcfg") /\ UNCHANGED stk
            /\ Log([op |-> "WriteConfig", t |-> t, old |-> loc[t].cmsg, new |-> loc[t].lmsg, conflict |-> TRUE])
    /\ UNCHANGED <<disk, srv, mem, inited, recCache, tileMem, tileSaved, loc, done, results, faults, restarts, sec>>

\* ------------------------------------------------------------------ mergeLatestMem
MmOpen(t) ==
    /\ pc[t] = "mm_open"
    /\ LET m == loc[t].msg c == Self(t) IN
       IF m.kind = "empty"
       THEN /\ loc' = [loc EXCEPT ![t].when = IF mem[c].n = 0 THEN "now" ELSE "past", ![t].err = ""]
            /\ Return(t)
       ELSE IF m.kind # "good"
       THEN /\ loc' = [loc EXCEPT ![t].err = "note", ![t].when = ""]
            /\ Return(t)
       ELSE /\ loc' = [loc EXCEPT ![t].tree = m, ![t].snap = mem[c], ![t].err = "", ![t].when = ""]   \* snapshot under the lock
            /\ Goto(t, "mm_loop") /\ UNCHANGED stk
    /\ Log([op |-> "Hook", t |-> t, point |-> "merge"])
    /\ UNCHANGED <<cfg, disk, srv, mem, inited, recCache, tileMem, tileSaved, done, results, faults, restarts, sec>>
MmLoop(t) ==
    /\ pc[t] = "mm_loop"
    /\ IF loc[t].tree.n <= loc[t].snap.n
       THEN /\ loc' = [loc EXCEPT ![t].older = loc[t].tree, ![t].newer = loc[t].snap]
            /\ Goto(t, "ct_start") /\ Push(t, "mm_old_done")
       ELSE /\ loc' = [loc EXCEPT ![t].older = loc[t].snap, ![t].newer = loc[t].tree]
            /\ Goto(t, "ct_start") /\ Push(t, "mm_install")
    /\ UNCHANGED <<cfg, disk, srv, mem, inited, recCache, tileMem, tileSaved, done, results, faults, restarts, sec, hist>>
MmOldDone(t) ==
    /\ pc[t] = "mm_old_done"
    /\ loc' = [loc EXCEPT ![t].when = IF loc[t].err # "" THEN "" ELSE IF loc[t].tree.n < loc[t].snap.n THEN "past" ELSE "now"]
    /\ Return(t)
    /\ UNCHANGED <<cfg, disk, srv, mem, inited, recCache, tileMem, tileSaved, done, results, faults, restarts, sec, hist>>
\* compare-and-set of the in-memory head under the lock; on failure re-read and go around again
MmInstall(t) ==
    /\ pc[t] = "mm_install"
    /\ LET c == Self(t) IN
       IF loc[t].err # ""
       THEN /\ Return(t) /\ UNCHANGED <<mem, loc>>
       ELSE IF mem[c] = loc[t].snap
       THEN /\ mem' = [mem EXCEPT ![c] = loc[t].tree]
            /\ loc' = [loc EXCEPT ![t].when = "future"]
            /\ Return(t)
       ELSE /\ loc' = [loc EXCEPT ![t].snap = mem[c]]
            /\ Goto(t, "mm_loop") /\ UNCHANGED <<stk, mem>>
    /\ IF loc[t].err # "" THEN UNCHANGED hist
       ELSE Log([op |-> "Hook", t |-> t, point |-> "install", ok |-> mem[Self(t)] = loc[t].snap, n |-> loc[t].tree.n])
    /\ UNCHANGED <<cfg, disk, srv, inited, recCache, tileMem, tileSaved, done, results, faults, restarts, sec>>

\* ------------------------------------------------------------------ checkTrees
CtStart(t) ==
    /\ pc[t] = "ct_start"
    /\ IF loc[t].older.n = 0
       THEN \* TreeHash(0) needs no tiles; the empty tree is a prefix of everything
            /\ loc' = [loc EXCEPT ![t].err = ""]
            /\ Return(t)
       ELSE /\ loc' = [loc EXCEPT ![t].trTree = loc[t].newer, ![t].trIdx = StxCoords(loc[t].older.n)]
            /\ Goto(t, "tr_plan") /\ Push(t, "ct_cmp")
    /\ UNCHANGED <<cfg, disk, srv, mem, inited, recCache, tileMem, tileSaved, done, results, faults, restarts, sec, hist>>
CtCmp(t) ==
    /\ pc[t] = "ct_cmp"
    /\ IF loc[t].err # ""
       THEN /\ Return(t) /\ UNCHANGED <<loc, sec, hist>>
       ELSE IF FoldH(loc[t].trHashes) = RootOf(loc[t].older)
       THEN /\ Return(t) /\ UNCHANGED <<loc, sec, hist>>
       ELSE \* a validly signed tree that does not contain ours: report both signed notes
            /\ sec' = Append(sec, [c |-> Self(t), old |-> loc[t].older, new |-> loc[t].newer])
            /\ loc' = [loc EXCEPT ![t].err = "security"]
            /\ Log([op |-> "SecurityError", t |-> t, old |-> loc[t].older, new |-> loc[t].newer])
            /\ Return(t)
    /\ UNCHANGED <<cfg, disk, srv, mem, inited, recCache, tileMem, tileSaved, done, results, faults, restarts>>

\* ------------------------------------------------------------------ checkRecord
CrStart(t) ==
    /\ pc[t] = "cr_start"
    /\ LET snap == mem[Self(t)] id == loc[t].resp.rec.id IN      \* snapshot under the lock
       IF id >= snap.n
       THEN /\ loc' = [loc EXCEPT ![t].err = "range"] /\ Return(t)
       ELSE /\ loc' = [loc EXCEPT ![t].trTree = snap, ![t].trIdx = <<<<0, id>>>>, ![t].err = ""]
            /\ Goto(t, "tr_plan") /\ Push(t, "cr_cmp")
    /\ Log([op |-> "Hook", t |-> t, point |-> "check"])
    /\ UNCHANGED <<cfg, disk, srv, mem, inited, recCache, tileMem, tileSaved, done, results, faults, restarts, sec>>
CrCmp(t) ==
    /\ pc[t] = "cr_cmp"
    /\ loc' = [loc EXCEPT ![t].err = IF loc[t].err # "" THEN loc[t].err
                                     ELSE IF loc[t].trHashes[1] = Leaf(ContentOf(loc[t].resp.rec)) THEN "" ELSE "auth"]
    /\ Return(t)
    /\ UNCHANGED <<cfg, disk, srv, mem, inited, recCache, tileMem, tileSaved, done, results, faults, restarts, sec, hist>>

\* ------------------------------------------------------------------ reading hashes through tiles
TrueHashes(hd, idx) == [i \in 1..Len(idx) |-> Tiles!TrueHashR(RecsOf(hd.tl, hd.n), idx[i][1], idx[i][2])]
TrPlan(t) ==
    /\ pc[t] = "tr_plan"
    /\ IF TileDetail
       THEN /\ loc' = [loc EXCEPT ![t].trPlan = Tiles!Plan(H, loc[t].trTree.n, loc[t].trIdx), ![t].trI = 1, ![t].trData = <<>>]
            /\ Goto(t, "tr_fetch") /\ UNCHANGED stk
       ELSE \* atomic, honest hash read (used where the tile layer is not under study)
            /\ loc' = [loc EXCEPT ![t].trHashes = TrueHashes(loc[t].trTree, loc[t].trIdx), ![t].err = ""]
            /\ Return(t)
    /\ UNCHANGED <<cfg, disk, srv, mem, inited, recCache, tileMem, tileSaved, done, results, faults, restarts, sec, hist>>

\* one tile: in-memory tile cache, else disk cache (tile, then full tile), else network (tile, then full tile)
GotTile(t, tile, d, fromCache) ==
    /\ tileMem' = [tileMem EXCEPT ![Self(t)] = Put(@, tile, d)]
    /\ tileSaved' = IF fromCache THEN [tileSaved EXCEPT ![Self(t)] = @ \cup {tile}] ELSE tileSaved
    /\ loc' = [loc EXCEPT ![t].trData = Append(@, d), ![t].trI = @ + 1, ![t].trFull = FALSE]
MissEv(t, f) == [op |-> "ReadCache", t |-> t, file |-> f, hit |-> FALSE, fault |-> FALSE, lab |-> [kind |-> "miss", tl |-> "P", pos |-> 0]]
\* the cache reads that miss before the network is asked for a tile
Misses(t, tile) == <<MissEv(t, TileFile(tile))>> \o (IF tile # FullOf(tile) THEN <<MissEv(t, TileFile(FullOf(tile)))>> ELSE <<>>)
\* the client keeps the first len/W*w bytes of what it got for the full tile: the wanted prefix when the data has the
\* length of a full tile; a piece that is not a whole number of hashes (hence never the right length) otherwise -
\* modelled as the empty sequence, which the length check of the hash reader refuses like any other wrong length
PrefixData(x, w) == IF ~x.ok THEN x
                    ELSE IF Len(x.d) = Pow2(H) THEN [x EXCEPT !.d = SubSeq(x.d, 1, w)]
                    ELSE [x EXCEPT !.d = <<>>]
DiskLab == Lab("disk", "P", 0)
TrFetch(t) ==
    /\ pc[t] = "tr_fetch"
    /\ LET c == Self(t) i == loc[t].trI plan == loc[t].trPlan IN
       IF i > Len(plan)
       THEN /\ Goto(t, "tr_auth")
            /\ UNCHANGED <<tileMem, tileSaved, loc, faults, hist>>
       ELSE LET tile == plan[i] full == FullOf(tile) IN
            /\ UNCHANGED pc
            /\ IF Has(tileMem[c], tile)
               THEN /\ loc' = [loc EXCEPT ![t].trData = Append(@, tileMem[c][tile]), ![t].trI = @ + 1]
                    /\ UNCHANGED <<tileMem, tileSaved, faults, hist>>
               ELSE IF ~loc[t].trFull THEN
                    \/ \* on-disk cache holds the tile
                       /\ Has(disk, TileFile(tile))
                       /\ GotTile(t, tile, disk[TileFile(tile)], TRUE)
                       /\ Log([op |-> "ReadCache", t |-> t, file |-> TileFile(tile), hit |-> TRUE, fault |-> FALSE, lab |-> DiskLab])
                       /\ UNCHANGED faults
                    \/ \* on-disk cache holds the full tile
                       /\ ~Has(disk, TileFile(tile)) /\ tile # full /\ Has(disk, TileFile(full))
                       /\ GotTile(t, tile, PrefixData(disk[TileFile(full)], tile.w), TRUE)
                       /\ LogSeq(<<MissEv(t, TileFile(tile)), [op |-> "ReadCache", t |-> t, file |-> TileFile(full), hit |-> TRUE, fault |-> FALSE, lab |-> DiskLab]>>)
                       /\ UNCHANGED faults
                    \/ \* corrupted cache content
                       /\ faults < MaxFaults /\ "cache" \in FaultKinds
                       /\ \E tl \in {srv.cur} : TileExists(tl, tile) /\
                            \E x \in TileFaults(tl, tile) \ {TErr} :
                               /\ GotTile(t, tile, x, TRUE)
                               /\ Log([op |-> "ReadCache", t |-> t, file |-> TileFile(tile), hit |-> TRUE, fault |-> TRUE, lab |-> x.lab])
                       /\ faults' = faults + 1
                    \/ \* network, honest (from any timeline the server may use)
                       /\ ~Has(disk, TileFile(tile)) /\ ~(tile # full /\ Has(disk, TileFile(full)))
                       /\ \E tl \in {srv.cur} :
                            /\ TileExists(tl, tile)
                            /\ GotTile(t, tile, TrueTileData(tl, tile), FALSE)
                            /\ LogSeq(Misses(t, tile) \o <<[op |-> "ReadRemote", t |-> t, path |-> TileFile(tile), fault |-> FALSE, lab |-> Lab("true", tl, 0)]>>)
                       /\ UNCHANGED faults
                    \/ \* the timeline the server answers from has no such tile: 404
                       /\ ~Has(disk, TileFile(tile)) /\ ~(tile # full /\ Has(disk, TileFile(full)))
                       /\ ~TileExists(srv.cur, tile)
                       /\ IF tile # full
                          THEN loc' = [loc EXCEPT ![t].trFull = TRUE] /\ UNCHANGED <<tileMem, tileSaved>>
                          ELSE GotTile(t, tile, TErr, FALSE)
                       /\ LogSeq(Misses(t, tile) \o <<[op |-> "ReadRemote", t |-> t, path |-> TileFile(tile), fault |-> FALSE, lab |-> Lab("true", srv.cur, 0)]>>)
                       /\ UNCHANGED faults
                    \/ \* network, corrupted (a failed request for a partial tile is followed by one for the full tile)
                       /\ ~Has(disk, TileFile(tile)) /\ ~(tile # full /\ Has(disk, TileFile(full)))
                       /\ faults < MaxFaults
                       /\ \E tl \in {srv.cur} : TileExists(tl, tile) /\
                            \E x \in TileFaults(tl, tile) :
                               IF x = TErr /\ tile # full
                               THEN /\ loc' = [loc EXCEPT ![t].trFull = TRUE]
                                    /\ UNCHANGED <<tileMem, tileSaved>>
                                    /\ LogSeq(Misses(t, tile) \o <<[op |-> "ReadRemote", t |-> t, path |-> TileFile(tile), fault |-> TRUE, lab |-> x.lab]>>)
                               ELSE /\ GotTile(t, tile, x, FALSE)
                                    /\ LogSeq(Misses(t, tile) \o <<[op |-> "ReadRemote", t |-> t, path |-> TileFile(tile), fault |-> TRUE, lab |-> x.lab]>>)
                       /\ faults' = faults + 1
                    \/ \* a server that only keeps the tiles of its current size has no partial tile once it is complete
                       /\ ~Has(disk, TileFile(tile)) /\ ~(tile # full /\ Has(disk, TileFile(full)))
                       /\ PartialMayBeGone /\ tile # full
                       /\ \E tl \in {srv.cur} : TileExists(tl, full)
                       /\ loc' = [loc EXCEPT ![t].trFull = TRUE]
                       /\ UNCHANGED <<tileMem, tileSaved, faults>>
                       /\ LogSeq(Misses(t, tile) \o <<[op |-> "ReadRemote", t |-> t, path |-> TileFile(tile), fault |-> FALSE, lab |-> TErr.lab]>>)
               ELSE \* second request: the full tile, of which the client keeps the prefix it needs
                    \/ /\ \E tl \in {srv.cur} :
                            /\ TileExists(tl, full)
                            /\ GotTile(t, tile, PrefixData(TrueTileData(tl, full), tile.w), FALSE)
                            /\ Log([op |-> "ReadRemote", t |-> t, path |-> TileFile(full), fault |-> FALSE, lab |-> Lab("true", tl, 0)])
                       /\ UNCHANGED faults
                    \/ /\ ~\E tl \in {srv.cur} : TileExists(tl, full)
                       /\ GotTile(t, tile, TErr, FALSE)
                       /\ Log([op |-> "ReadRemote", t |-> t, path |-> TileFile(full), fault |-> FALSE, lab |-> TErr.lab])
                       /\ UNCHANGED faults
                    \/ /\ faults < MaxFaults
                       /\ \E tl \in {srv.cur} : TileExists(tl, full) /\
                            \E x \in TileFaults(tl, full) :
                               /\ GotTile(t, tile, PrefixData(x, tile.w), FALSE)
                               /\ Log([op |-> "ReadRemote", t |-> t, path |-> TileFile(full), fault |-> TRUE, lab |-> x.lab])
                       /\ faults' = faults + 1
    /\ UNCHANGED <<cfg, disk, srv, mem, inited, recCache, stk, done, results, restarts, sec>>

TrAuth(t) ==
    /\ pc[t] = "tr_auth"
    /\ LET plan == loc[t].trPlan data == loc[t].trData tree == loc[t].trTree IN
       IF \E i \in 1..Len(data) : ~data[i].ok
       THEN /\ loc' = [loc EXCEPT ![t].err = "tile"] /\ Return(t)
       ELSE LET out == Tiles!ReadOutcomeRoot(H, tree.n, RootOf(tree), loc[t].trIdx, plan, [i \in 1..Len(data) |-> data[i].d]) IN
            IF ~out.ok
            THEN /\ loc' = [loc EXCEPT ![t].err = "tile"] /\ Return(t)
            ELSE /\ loc' = [loc EXCEPT ![t].trHashes = out.hashes, ![t].err = ""]
                 /\ Goto(t, "tr_save") /\ UNCHANGED stk
    /\ UNCHANGED <<cfg, disk, srv, mem, inited, recCache, tileMem, tileSaved, done, results, faults, restarts, sec, hist>>

\* SaveTiles: authenticated tiles not yet known to be on disk are written to the cache
TrSave(t) ==
    /\ pc[t] = "tr_save"
    /\ LET c == Self(t) plan == loc[t].trPlan data == loc[t].trData
           new == {i \in 1..Len(plan) : plan[i] \notin tileSaved[c]}
       IN /\ disk' = [f \in DOMAIN disk \cup {TileFile(plan[i]) : i \in new} |->
                        IF \E i \in new : TileFile(plan[i]) = f
                        THEN data[CHOOSE i \in new : TileFile(plan[i]) = f] ELSE disk[f]]
          /\ tileSaved' = [tileSaved EXCEPT ![c] = @ \cup {plan[i] : i \in new}]
          /\ IF new = {} THEN UNCHANGED hist
             ELSE Log([op |-> "WriteCacheTiles", t |-> t, tree |-> loc[t].trTree,
                       files |-> {TileFile(plan[i]) : i \in new}])
    /\ Return(t)
    /\ UNCHANGED <<cfg, srv, mem, inited, recCache, tileMem, loc, done, results, faults, restarts, sec>>

\* ------------------------------------------------------------------ restart
\* the process ends and a new one starts: memory is lost, disk and configuration stay
Restart(c) ==
    /\ restarts < MaxRestarts
    /\ \A t \in Threads : Self(t) = c => pc[t] = "idle"
    /\ \E t \in Threads : Self(t) = c /\ done[t] > 0 /\ done[t] < Len(Lookups[t])
    /\ restarts' = restarts + 1
    /\ mem' = [mem EXCEPT ![c] = EmptyMsg]
    /\ inited' = [inited EXCEPT ![c] = "no"]
    /\ recCache' = [recCache EXCEPT ![c] = <<>>]
    /\ tileMem' = [tileMem EXCEPT ![c] = <<>>]
    /\ tileSaved' = [tileSaved EXCEPT ![c] = {}]
    /\ Log([op |-> "Restart", c |-> c])
    /\ UNCHANGED <<cfg, disk, srv, pc, loc, stk, done, results, faults, sec>>

ThreadStep(t) ==
    \/ StartLookup(t) \/ InitReadKey(t) \/ InitWait(t) \/ InitReadLatest(t) \/ InitMerged(t)
    \/ Claim(t) \/ ClaimWait(t) \/ LkCache(t) \/ LkRemote(t) \/ LkParse(t) \/ LkMerged(t) \/ LkChecked(t) \/ LkDone(t) \/ Finish(t)
    \/ MlStart(t) \/ MlAfter1(t) \/ MlReadCfg(t) \/ MlAfter2(t) \/ MlSnap(t) \/ MlWrite(t)
    \/ MmOpen(t) \/ MmLoop(t) \/ MmOldDone(t) \/ MmInstall(t)
    \/ CtStart(t) \/ CtCmp(t) \/ CrStart(t) \/ CrCmp(t)
    \/ TrPlan(t) \/ TrFetch(t) \/ TrAuth(t) \/ TrSave(t)

Next == \/ \E t \in Threads : ThreadStep(t)
        \/ \E tl \in Timelines : Grow(tl)
        \/ \E tl \in Timelines : Switch(tl)
        \/ \E c \in Clients : Restart(c)
        \/ \E n \in 1..SizeA : EnvStore(n)

Spec == Init /\ [][Next]_vars

AllDone == \A t \in Threads : pc[t] = "idle" /\ done[t] = Len(Lookups[t])

\* ================================================================== properties
\* ---- C01 ----
\* a successful lookup returns exactly the lines of a record that is at its position in a
\* good-signature head the client held (results carry the client's head at return time)
ResultAuthentic ==
    \A t \in Threads : \A i \in 1..Len(results[t]) :
        LET r == results[t][i] IN
        (r.ok /\ r.lines # <<>>) =>
            /\ r.mem.kind = "good" /\ r.key < r.mem.n
            /\ r.lines = <<RecC(r.mem.tl, r.key)>>
\* what is written to the cache is authenticated: a lookup file holds a true record under a good head;
\* a tile file holds the true tile of a timeline
\* (the record was validated against the client's own latest head, which may be newer than the head in the
\* response, so the response's head need not cover the record; where it does, it must agree with it)
LookupFileAuthentic(d) == d.kind = "resp" /\ d.rec.kind = "true" /\ d.head.kind = "good"
                          /\ (d.rec.id < d.head.n => RecC(d.rec.tl, d.rec.id) = RecC(d.head.tl, d.rec.id))
TileFileAuthentic(f, x) == x.ok /\ \E tl \in Timelines : LET t == [h |-> H, tl |-> f[2], tn |-> f[3], w |-> f[4]] IN
                               TileExists(tl, t) /\ x.d = TrueTileOf(tl, t)
CacheAuthentic ==
    \A f \in DOMAIN disk : IF f[1] = "lookup" THEN LookupFileAuthentic(disk[f]) ELSE TileFileAuthentic(f, disk[f])
\* the stored head is empty or carries a good signature; so does every client's in-memory head
ConfigAuthentic == cfg.kind \in {"good", "empty"} /\ \A c \in Clients : mem[c].kind \in {"good", "empty"}
\* an honest server and cache never cause a failure
HonestLive == faults = 0 /\ SizeB = 0 =>
    \A t \in Threads : \A i \in 1..Len(results[t]) :
        LET r == results[t][i] IN r.key \notin Skip => r.ok /\ r.lines = <<RecC("A", r.key)>>

\* ---- C13 ----
\* the stored head only moves to a good-signature head that contains the previous one
ConfigChain == [][cfg' # cfg => cfg'.kind = "good" /\ PrefixOf(cfg, cfg')]_vars
MemChain == [][\A c \in Clients : (mem'[c] # mem[c] /\ mem'[c].kind # "empty") => mem'[c].kind = "good" /\ PrefixOf(mem[c], mem'[c])]_vars
\* every security report names two good-signature heads that are really inconsistent
SecurityIsReal == \A i \in 1..Len(sec) : sec[i].old.kind \in {"good"} /\ sec[i].new.kind = "good" /\ ~PrefixOf(sec[i].old, sec[i].new)
\* a lookup that ends with the security error was preceded by a report from that client
SecurityHasBoth == \A t \in Threads : \A i \in 1..Len(results[t]) :
    results[t][i].err = "security" => \E j \in 1..Len(sec) : sec[j].c = Self(t)

\* ---- C14 ----
\* per client and key at most one fetch (cache read or network read of the lookup file)
FetchOnce == \A c \in Clients, k \in 0..(SizeA + SizeB) :
    Cardinality({i \in 1..Len(hist) : hist[i].op = "ReadCache" /\ hist[i].file = LookupFile(k) /\ Self(hist[i].t) = c /\ restarts = 0}) <= 1
\* the same, on the state: a (client, key) is being fetched by at most one thread, and only while its
\* record-cache entry says so; entries are never removed, so each key is fetched at most once per client life
InFetch(t) == pc[t] \in {"lk_cache", "lk_remote", "lk_parse", "lk_merged", "lk_checked", "lk_done"}
              \/ (Len(stk[t]) > 0 /\ stk[t][Len(stk[t])] \in {"lk_merged", "lk_checked"})
FetchExclusive ==
    /\ \A t, u \in Threads : (t # u /\ Self(t) = Self(u) /\ InFetch(t) /\ InFetch(u)) => loc[t].key # loc[u].key
    /\ \A t \in Threads : InFetch(t) => (Has(recCache[Self(t)], loc[t].key) /\ recCache[Self(t)][loc[t].key] = [st |-> "run", by |-> t])
\* a skipped path never leaves the entry/exit steps of Lookup (no external operation)
SkipSilentState == \A t \in Threads : loc[t].key \in Skip => pc[t] \in {"idle", "finish"}
\* at quiescence the stored head is the largest head any client holds
QuiescentConfig == AllDone => \A c \in Clients : PrefixOf(mem[c], cfg) \/ mem[c].kind = "empty"
\* a path matching the pattern list causes no external operation: checked on the history
SkipIsSilent == \A i \in 1..Len(hist) : (hist[i].op = "ReadCache" /\ hist[i].file[1] = "lookup") => hist[i].file[2] \notin Skip

View == <<cfg, disk, srv, mem, inited, recCache, tileMem, tileSaved, pc, loc, stk, done, results, faults, restarts, sec>>
=============================================================================
