CONSTANTS
  Small = 40
INIT Init
NEXT Next
INVARIANTS Numerals AgreesWithSmall Emit
