CONSTANTS
  MaxFiles = 4
INIT Init
NEXT Next
INVARIANTS OrderIndependent SortedByName Injective Emit
