CONSTANTS
  Keys = {"lower", "upper", "incompatible"}
  BadKeys = {"noat", "shortvers", "badescape", "rawupper"}
  H = 2
  MaxReq = 4
INIT Init
NEXT NextGen
INVARIANTS NoDuplicates Covered StableIds HeadsGrow Emit
PROPERTY AppendOnly
