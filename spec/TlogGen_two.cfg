CONSTANTS
  MaxLen = 8
  Contents = {1, 2}
  MaxLevel = 4
  MaxK = 8
INIT Init
NEXT Next
INVARIANTS LayoutBijection ClosedFormAgrees StoreIsMTH CountMatches TreeHashIsMTH ReadsArePresent EmitState
