CONSTANTS
  MaxOps = 6
  LayoutSet = "full"
  Kind = "work"
INIT Init
NEXT Next
INVARIANTS DedupIdempotent ErrorsChangeNothing BulkExact Emit
