-------------------------- MODULE ModfileSyntaxGen --------------------------
(* E2 generator for C02 / C20 (syntax layer): inputs are sequences of lexical  *)
(* items; every input is printed with the specification's verdict and, if      *)
(* accepted, its statements, tokens, comment texts and positions.              *)
(*  Mode "items": every sequence of at most MaxItems items (one state each).   *)
(*  Mode "cover": under a VIEW that keeps the last three items and the parse   *)
(*                status, one input per reachable (context x next item)        *)
(*                transition; reaches every local combination at any length.   *)
EXTENDS ModfileSyntax, TLC, Json
CONSTANTS MaxItems, Mode, Alphabet      \* Alphabet: "reduced" | "full"
VARIABLES items

ItemText(i) ==
    CASE i = "id"     -> S("a")
      [] i = "id2"    -> S("b/c.d")
      [] i = "ver"    -> S("v1.2.3")
      [] i = "dq"     -> S("\"q r\"")
      [] i = "dqesc"  -> <<DQ, 97, BSL, DQ, 98, DQ>>          \* "a\"b"
      [] i = "raw"    -> <<BQ, 114, BSL, BQ>>                  \* `r\`
      [] i = "dqopen" -> <<DQ, 120>>                           \* "x   (unterminated)
      [] i = "dqbs"   -> <<DQ, 120, BSL>>                      \* "x\  (unterminated, ends in the escape character)
      [] i = "lp"     -> S("(")
      [] i = "rp"     -> S(")")
      [] i = "lb"     -> S("[")
      [] i = "rb"     -> S("]")
      [] i = "lc"     -> S("{")
      [] i = "comma"  -> S(",")
      [] i = "arrow"  -> S("=>")
      [] i = "nl"     -> <<NL>>
      [] i = "crlf"   -> <<CR, NL>>
      [] i = "cr"     -> <<CR>>
      [] i = "sp"     -> <<SP>>
      [] i = "tab"    -> <<TAB>>
      [] i = "com"    -> S("// c%s")      \* (comments carry a formatting verb: they are data, never a format)
      [] i = "com0"   -> S("//")
      [] i = "comsp"  -> S("//  50%d ")
      [] i = "eacute" -> <<233>>
      [] i = "bad"    -> <<-255>>
      [] i = "block"  -> S("/*")
      [] i = "nbsp"   -> <<160>>
      [] i = "ctl"    -> <<1>>
      [] i = "slash"  -> S("/")
Reduced == {"id", "ver", "dq", "lp", "rp", "comma", "nl", "crlf", "sp", "com", "eacute", "lb"}
Full == Reduced \cup {"id2", "dqesc", "raw", "dqopen", "dqbs", "rb", "lc", "arrow", "cr", "tab", "com0", "comsp", "bad", "block", "nbsp", "ctl", "slash"}
Items == IF Alphabet = "reduced" THEN Reduced ELSE Full

RECURSIVE TextOf(_)
TextOf(its) == IF its = <<>> THEN <<>> ELSE ItemText(Head(its)) \o TextOf(Tail(its))
Input == TextOf(items)
Result == Parse(Input)

CaseOf(s, r) == [w |-> "modsyntax", k |-> "syn", in |-> [s |-> s],
                 exp |-> [ok |-> r.ok, why |-> r.why, stmts |-> r.stmts, comments |-> r.comments, marks |-> r.marks]]

Init == items = <<>>
NextItems == /\ Len(items) < MaxItems
             /\ \E i \in Items : items' = Append(items, i)
NextCover == /\ Len(items) < MaxItems
             /\ \E i \in Items : /\ items' = Append(items, i)
                                 /\ PrintT(ToJson(CaseOf(TextOf(items'), Parse(TextOf(items')))))
Next == IF Mode = "items" THEN NextItems ELSE NextCover
Emit == Mode = "items" => PrintT(ToJson(CaseOf(Input, Result)))

LastN(s, n) == IF Len(s) <= n THEN s ELSE SubSeq(s, Len(s) - n + 1, Len(s))
View == <<LastN(items, 3), Result.ok, Result.why, Len(Result.stmts) > 0,
          \* are we inside an open block: the input followed by a newline is still an unterminated block
          Parse(Input \o <<NL>>).why = "unterminated-block">>

View2 == <<LastN(items, 2), Result.ok, Result.why, Parse(Input \o <<NL>>).why = "unterminated-block">>

\* E1: properties of the specification itself
\* positions are consistent: byte offset, line and column of every mark agree with the input text
MarkOK(s, mk) ==
    /\ \E j \in 1..(Len(s) + 1) : ByteLen(SubSeq(s, 1, j - 1)) = mk.byte
    /\ LET i == CHOOSE j \in 1..(Len(s) + 1) : ByteLen(SubSeq(s, 1, j - 1)) = mk.byte IN
       /\ mk.line = 1 + Cardinality({j \in 1..(i - 1) : s[j] = NL})
       /\ mk.col = i - (IF \E j \in 1..(i - 1) : s[j] = NL THEN CHOOSE j \in 1..(i - 1) : s[j] = NL /\ \A q \in (j + 1)..(i - 1) : s[q] # NL ELSE 0)
       /\ SubSeq(s, i, i + Len(mk.text) - 1) = mk.text
PositionsConsistent == Result.ok => \A n \in 1..Len(Result.marks) : MarkOK(Input, Result.marks[n])
=============================================================================
