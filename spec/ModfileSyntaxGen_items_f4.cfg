CONSTANTS
  MaxItems = 4
  Mode = "items"
  Alphabet = "full"
INIT Init
NEXT Next
INVARIANTS PositionsConsistent Emit
