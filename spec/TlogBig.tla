------------------------------ MODULE TlogBig ------------------------------
(* The Merkle tree definitions of RFC 6962 for logs of ANY size a signed     *)
(* 64-bit integer can express (C03, C09).  TLC's integers have 32 bits, so   *)
(* sizes and indexes are binary numerals here: sequences of bits, least      *)
(* significant first, without a most significant zero; zero is <<>>.         *)
(* The logs are uniform (every record has the same content), which makes the *)
(* hash of a subtree a function of its size alone:                           *)
(*      <<"S", size>>  is the hash term of the uniform tree with size leaves *)
(* and keeps printed cases small (a tree of 2^62 records is one descriptor). *)
(* What is specified: audit paths and consistency proofs as the recursive    *)
(* definitions of RFC 6962 2.1.1 / 2.1.2, the position of a stored hash, the *)
(* number of stored hashes, and which (proof, sizes, index) tuples verify.   *)
EXTENDS Integers, Sequences, FiniteSets

\* ---- binary numerals ----
Zero == <<>>
One == <<1>>
IsNum(b) == b = <<>> \/ b[Len(b)] = 1
RECURSIVE Norm(_)
Norm(b) == IF b = <<>> \/ b[Len(b)] = 1 THEN b ELSE Norm(SubSeq(b, 1, Len(b) - 1))
RECURSIVE FromInt(_)
FromInt(i) == IF i = 0 THEN <<>> ELSE <<i % 2>> \o FromInt(i \div 2)
Pow2(e) == [i \in 1..(e + 1) |-> IF i = e + 1 THEN 1 ELSE 0]
IsPow2(b) == b # <<>> /\ \A i \in 1..(Len(b) - 1) : b[i] = 0
Odd(b) == b # <<>> /\ b[1] = 1
Shr(b) == IF b = <<>> THEN <<>> ELSE Tail(b)
Shl(b, k) == IF b = <<>> THEN <<>> ELSE [i \in 1..k |-> 0] \o b
RECURSIVE Inc(_)
Inc(b) == IF b = <<>> THEN <<1>> ELSE IF b[1] = 0 THEN <<1>> \o Tail(b) ELSE <<0>> \o Inc(Tail(b))
RECURSIVE DecRaw(_)
DecRaw(b) == IF b[1] = 1 THEN <<0>> \o Tail(b) ELSE <<1>> \o DecRaw(Tail(b))     \* b > 0
Dec(b) == Norm(DecRaw(b))
RECURSIVE AddC(_, _, _)
AddC(a, b, c) ==
    IF a = <<>> /\ b = <<>> THEN (IF c = 1 THEN <<1>> ELSE <<>>)
    ELSE LET x == IF a = <<>> THEN 0 ELSE a[1]
             y == IF b = <<>> THEN 0 ELSE b[1]
             s == x + y + c
         IN <<s % 2>> \o AddC(Shr(a), Shr(b), s \div 2)
Add(a, b) == AddC(a, b, 0)
RECURSIVE SubB(_, _, _)
SubB(a, b, br) ==                                \* a >= b
    IF a = <<>> THEN <<>>
    ELSE LET y == IF b = <<>> THEN 0 ELSE b[1]
             d == a[1] - y - br
         IN <<(d + 2) % 2>> \o SubB(Tail(a), Shr(b), IF d < 0 THEN 1 ELSE 0)
Sub(a, b) == Norm(SubB(a, b, 0))
RECURSIVE LessFrom(_, _, _)
LessFrom(a, b, i) == IF i = 0 THEN FALSE ELSE IF a[i] # b[i] THEN a[i] < b[i] ELSE LessFrom(a, b, i - 1)
Less(a, b) == IF Len(a) # Len(b) THEN Len(a) < Len(b) ELSE LessFrom(a, b, Len(a))
Leq(a, b) == a = b \/ Less(a, b)
PopCount(b) == Cardinality({i \in 1..Len(b) : b[i] = 1})
TrailingOnes(b) == IF \A i \in 1..Len(b) : b[i] = 1 THEN Len(b) ELSE (CHOOSE i \in 1..Len(b) : b[i] = 0 /\ \A j \in 1..(i - 1) : b[j] = 1) - 1
\* the largest power of two strictly below n (n >= 2)
Pow2Below(n) == IF IsPow2(n) THEN Pow2(Len(n) - 2) ELSE Pow2(Len(n) - 1)
Fits63(b) == Len(b) <= 63                         \* expressible as a non-negative int64

\* ---- hash descriptors of uniform trees ----
S(size) == <<"S", size>>
J(k) == <<"J", FromInt(k)>>                       \* junk

\* ---- RFC 6962 2.1.1: audit path of record m in the uniform tree of n records (m < n) ----
\* (bottom-up order: the sibling nearest to the leaf first, as the code returns it)
RECURSIVE Path(_, _)
Path(m, n) ==
    IF n = One THEN <<>>
    ELSE LET k == Pow2Below(n) IN
         IF Less(m, k) THEN Append(Path(m, k), S(Sub(n, k)))
                       ELSE Append(Path(Sub(m, k), Sub(n, k)), S(k))

\* ---- RFC 6962 2.1.2: consistency proof of the first m records within n (1 <= m <= n) ----
RECURSIVE SubProof(_, _, _)
SubProof(m, n, b) ==
    IF m = n THEN (IF b THEN <<>> ELSE <<S(n)>>)
    ELSE LET k == Pow2Below(n) IN
         IF Leq(m, k) THEN Append(SubProof(m, k, b), S(Sub(n, k)))
                      ELSE Append(SubProof(Sub(m, k), Sub(n, k), FALSE), S(k))
Cons(m, n) == SubProof(m, n, TRUE)

\* ---- stored hashes (level, offset) -> position, and the count for n records ----
\* position of the level-0 hash of record n = 2n - popcount(n); the level-L hash of the complete subtree number K
\* follows the level-0 hash of that subtree's last record by L places
LeafPos(n) == Sub(Shl(n, 1), FromInt(PopCount(n)))
Index(L, K) == Add(LeafPos(Sub(Shl(Inc(K), L), One)), FromInt(L))
Count(n) == LeafPos(n)

\* ---- verification: what a correct checker accepts ----
\* with collision resistance, a record proof for (t, n, leaf S(1), root S(t)) verifies exactly when it is Path(n, t)
RecordVerifies(p, t, n) == Less(n, t) /\ p = Path(n, t)
TreeVerifies(p, t, n) == n # Zero /\ Leq(n, t) /\ p = Cons(n, t)
=============================================================================
