--------------------------- MODULE ModfileBulkGen ---------------------------
(* E2 generator for C16: initial requirement / use layouts x requested lists   *)
(* for SetRequire, SetRequireSeparateIndirect and SetUse.  Each state is one    *)
(* (layout, request) pair printed with what the property demands of the output. *)
EXTENDS ModfileLayout, Json, TLC
CONSTANTS Size      \* "small" | "full"
VARIABLES phase, kind, grp, lay, opname, req

R(p, v, i, cb, cs) == Req(p, v, i, cb, cs)
A == "example.com/a"
B == "example.com/b"
C2 == "example.com/c/v2"
D == "example.com/d"
\* requirement layouts: the statements holding require directives
ReqLayouts ==
    {<<>>,
     <<Line1("require", R(A, "v1.0.0", FALSE, "", ""))>>,
     <<Line1("require", R(A, "v1.0.0", TRUE, "", ""))>>,
     <<Line1("require", R(A, "v1.0.0", TRUE, "lead", "keep"))>>,
     <<Stmt("require", "block", "", <<R(B, "v1.0.0", FALSE, "", ""), R(A, "v1.0.0", TRUE, "", "")>>)>>,
     <<Stmt("require", "block", "", <<R(B, "v1.0.0", FALSE, "", ""), R(A, "v1.0.0", FALSE, "", ""), R(C2, "v2.0.0", TRUE, "", "")>>)>>,
     <<Stmt("require", "block", "blockwhy", <<R(B, "v1.0.0", FALSE, "", ""), R(A, "v1.0.0", TRUE, "", "")>>)>>,
     <<Stmt("require", "block", "", <<R(B, "v1.0.0", FALSE, "blead", ""), R(A, "v1.0.0", TRUE, "", "aeol")>>)>>,
     <<Stmt("require", "block", "", <<R(B, "v1.0.0", FALSE, "", ""), R(A, "v1.0.0", FALSE, "", "")>>),
       Stmt("require", "block", "", <<R(C2, "v2.0.0", TRUE, "", ""), R(D, "v1.0.0", TRUE, "", "")>>)>>,
     <<Line1("require", R(A, "v1.0.0", FALSE, "", "")), Stmt("require", "block", "", <<R(B, "v1.0.0", TRUE, "", ""), R(A, "v1.1.0", TRUE, "", "dup")>>)>>,
     <<Line1("require", R(A, "v1.1.0", FALSE, "", "")), Line1("require", R(A, "v1.0.0", FALSE, "first", "")), Line1("require", R(B, "v1.0.0", TRUE, "", ""))>>,
     <<Stmt("require", "block", "", <<R(A, "v1.0.0", FALSE, "", ""), R(A, "v1.1.0", FALSE, "", ""), R(B, "v1.1.0", FALSE, "", "")>>)>>,
     \* commented lines that are not the first of their block (the harness also renders them set off by an empty line)
     <<Stmt("require", "block", "", <<R(A, "v1.0.0", FALSE, "", ""), R(B, "v1.0.0", FALSE, "blead", ""), R(C2, "v2.0.0", TRUE, "clead", "ceol")>>)>>,
     \* end-of-line comments that begin like the indirect marker but are not it
     <<Stmt("require", "block", "", <<R(A, "v1.0.0", FALSE, "", "indirect;see-issue-123"), R(B, "v1.0.0", FALSE, "", "indirect;")>>)>>}
\* other directives whose blocks must come out in their documented order
Others(gov) ==
    <<Line1("module", [v |-> "example.com/m", cb |-> "", cs |-> ""])>>
    \o (IF gov = "" THEN <<>> ELSE <<Line1("go", [v |-> gov, cb |-> "", cs |-> ""])>>)
Tail1 ==
    <<Stmt("exclude", "block", "", <<Exc(B, "v1.10.0", "", ""), Exc(B, "v1.9.0", "", "xe"), Exc(A, "v1.2.0", "", "")>>),
      Stmt("retract", "block", "", <<[lo |-> "v1.0.0", hi |-> "v1.0.0", cb |-> "", cs |-> "r1"], [lo |-> "v1.1.0", hi |-> "v1.2.0", cb |-> "", cs |-> "r2"],
                                    [lo |-> "v1.1.0", hi |-> "v1.1.0", cb |-> "", cs |-> "r3"]>>),
      Stmt("replace", "block", "", <<Rep(B, "", "../b", "", "", ""), Rep(A, "v1.0.0", "../a", "", "", "")>>)>>
GoVs == IF Size = "small" THEN {"", "1.21", "1.9", "1.100"} ELSE {"", "1.20", "1.21", "1.9", "1.100"}

RL(p, v, i) == [p |-> p, v |-> v, ind |-> i]
\* requested lists: every subset of the paths, one version choice and a marking pattern per subset
PathsQ == IF Size = "small" THEN {A, B, C2} ELSE {A, B, C2, D}
VersQ(p, alt) == IF p = C2 THEN (IF alt THEN "v2.1.0" ELSE "v2.0.0") ELSE (IF alt THEN "v1.1.0" ELSE "v1.0.0")
SeqOfSet(S) == LET RECURSIVE F(_)
                   F(T) == IF T = {} THEN <<>> ELSE LET x == CHOOSE y \in T : TRUE IN <<x>> \o F(T \ {x})
               IN F(S)
Requests == {[i \in 1..Len(SeqOfSet(s)) |-> RL(SeqOfSet(s)[i], VersQ(SeqOfSet(s)[i], alt), (mark = "all") \/ (mark = "alt" /\ i % 2 = 0))] :
                s \in SUBSET PathsQ, alt \in BOOLEAN, mark \in {"none", "all", "alt"}}

UseLayouts == {<<>>, <<Line1("use", Use("./x", "", ""))>>, <<Line1("use", Use("./x", "xl", "xe")), Line1("use", Use("./x", "", ""))>>,
               <<Stmt("use", "block", "", <<Use("./y", "", ""), Use("./x", "", "xe"), Use("./y", "", "dup")>>)>>,
               <<Stmt("use", "block", "ub", <<Use("./z", "", ""), Use("./x", "", "")>>), Line1("use", Use("./y", "yl", ""))>>}
\* (a directory that has to be written in quotes: a comment opener in the middle)
UseRequests == {SeqOfSet(s) : s \in SUBSET {"./x", "./y", "./new", "./third_party//lib"}}
WorkTail == <<Stmt("replace", "block", "", <<Rep(B, "", "../b", "", "", ""), Rep(A, "v1.0.0", "../a", "", "", "")>>)>>

Init == phase = "hub" /\ kind = "" /\ grp = 0 /\ lay = <<>> /\ opname = "" /\ req = <<>>
Next ==
    \/ /\ phase = "hub" /\ phase' = "grp"
       /\ \/ (kind' = "mod" /\ grp' \in 1..Cardinality(ReqLayouts))
          \/ (kind' = "work" /\ grp' = 1)
       /\ UNCHANGED <<lay, opname, req>>
    \/ /\ phase = "grp" /\ kind = "mod" /\ phase' = "case"
       /\ \E gov \in GoVs : lay' = Others(gov) \o SeqOfSet(ReqLayouts)[grp] \o Tail1
       /\ opname' \in {"SetRequire", "SetRequireSeparateIndirect"}
       /\ req' \in Requests
       /\ UNCHANGED <<kind, grp>>
    \/ /\ phase = "grp" /\ kind = "work" /\ phase' = "case"
       /\ \E ul \in UseLayouts : lay' = <<Line1("go", [v |-> "1.21", cb |-> "", cs |-> ""])>> \o ul \o WorkTail
       /\ opname' = "SetUse"
       /\ req' \in UseRequests
       /\ UNCHANGED <<kind, grp>>

M0 == FlattenK(kind, lay)
TheOp == [name |-> opname, a |-> <<"", "", "", "">>, b |-> FALSE, l |-> req]
After == Apply(M0, TheOp).m
\* the requirement statements of the layout
ReqStmts == SelectSeq(lay, LAMBDA st : st.verb = "require")
\* "the file's only requirements are one uncommented line or block"
Separable == /\ Len(ReqStmts) = 1
             /\ ReqStmts[1].bc = ""
             /\ \A i \in 1..Len(ReqStmts[1].items) : ReqStmts[1].items[i].cb = "" /\ ReqStmts[1].items[i].cs = ""
\* comments that must survive: those of the first entry for each requested path (or directory)
KeptComments ==
    IF kind = "mod"
    THEN LET first(p) == CHOOSE i \in 1..Len(M0.require) : M0.require[i].p = p /\ \A j \in 1..(i - 1) : M0.require[j].p # p
         IN {[p |-> req[i].p, cb |-> M0.require[first(req[i].p)].cb, cs |-> M0.require[first(req[i].p)].cs] :
                i \in {j \in 1..Len(req) : \E x \in 1..Len(M0.require) : M0.require[x].p = req[j].p}}
    ELSE LET first(p) == CHOOSE i \in 1..Len(M0.use) : M0.use[i].p = p /\ \A j \in 1..(i - 1) : M0.use[j].p # p
         IN {[p |-> req[i], cb |-> M0.use[first(req[i])].cb, cs |-> M0.use[first(req[i])].cs] :
                i \in {j \in 1..Len(req) : \E x \in 1..Len(M0.use) : M0.use[x].p = req[j]}}

\* E1: on the model the collection is exactly the requested list
ExactOnModel == phase = "case" =>
    IF kind = "mod" THEN SameBag(ReqV(After.require), [i \in 1..Len(req) |-> <<req[i].p, req[i].v, req[i].ind>>])
                    ELSE SameBag(UseV(After.use), req)
Emit == phase = "case" =>
    PrintT(ToJson([w |-> "modfile", k |-> "bulk",
                   in |-> [kind |-> kind, layout |-> lay, op |-> TheOp],
                   exp |-> [after |-> After, separable |-> Separable, gov |-> M0.gov, kept |-> KeptComments]]))
=============================================================================
