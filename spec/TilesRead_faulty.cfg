CONSTANTS
  AuthFrom = "lenStx"
  Heights = {2}
  MaxN = 7
  PairMaxN = 0
  MaxCorrupt = 1
  TwoCorruptMaxN = 0
INIT Init
NEXT Next
INVARIANTS HonestReturnsTruth OkImpliesTruth SavedAreTrue
