CONSTANTS
  Keys = {"lower", "upper", "incompatible"}
  BadKeys = {"noat", "shortvers", "badescape", "rawupper"}
  H = 1
  MaxReq = 5
INIT Init
NEXT NextGen
INVARIANTS NoDuplicates Covered StableIds HeadsGrow Emit
PROPERTY AppendOnly
