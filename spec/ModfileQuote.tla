---------------------------- MODULE ModfileQuote ----------------------------
(* How the printer of go.mod / go.work makes a string one token (C02, C08):  *)
(* modfile.MustQuote / AutoQuote (rule.go) over strconv.Quote, and how the   *)
(* directive layer reads a token back (parseString over strconv.Unquote).    *)
(* The lemma under the formatting property: for every string s, the text     *)
(* AutoQuote(s) is read by the lexer of ModfileSyntax as exactly one token,  *)
(* and that token's value is s again (OneToken).  Edit operations write      *)
(* their arguments through AutoQuote, so this is what makes "the formatted   *)
(* file parses to the directives of the model" true for arbitrary strings.   *)
(* Characters are code points, -b an invalid byte b (module Chars).          *)
EXTENDS ModfileSyntax

SQ == 39
HexDigit(n) == IF n < 10 THEN 48 + n ELSE 87 + n
RECURSIVE HexN(_, _)
HexN(v, n) == IF n = 0 THEN <<>> ELSE Append(HexN(v \div 16, n - 1), HexDigit(v % 16))
HexVal1(c) == IF c >= 48 /\ c <= 57 THEN c - 48 ELSE IF c >= 97 /\ c <= 102 THEN c - 87 ELSE IF c >= 65 /\ c <= 70 THEN c - 55 ELSE -1
RECURSIVE HexVal(_)
HexVal(ds) == IF ds = <<>> THEN 0 ELSE 16 * HexVal(SubSeq(ds, 1, Len(ds) - 1)) + HexVal1(ds[Len(ds)])
AllHex(ds) == \A i \in 1..Len(ds) : HexVal1(ds[i]) >= 0

\* ---- modfile.MustQuote
Brackets == {40, 41, 91, 93, 123, 125, 44}
HasPair(s, a, b) == \E i \in 1..(Len(s) - 1) : s[i] = a /\ s[i + 1] = b
MustQuote(s) ==
    \/ s = <<>>
    \/ \E i \in 1..Len(s) : \/ s[i] \in {SP, DQ, SQ, BQ}
                            \/ s[i] \in Brackets /\ ByteLen(s) > 1
                            \/ s[i] \notin Brackets /\ ~IsPrintRune(s[i])
    \/ HasPair(s, SLASH, SLASH) \/ HasPair(s, SLASH, STAR)

\* ---- strconv.Quote, one element at a time
SimpleEsc == [c \in {7, 8, 12, 10, 13, 9, 11} |->
                 CASE c = 7 -> 97 [] c = 8 -> 98 [] c = 12 -> 102 [] c = 10 -> 110 [] c = 13 -> 114 [] c = 9 -> 116 [] c = 11 -> 118]
QuoteRune(c) ==
    IF c < 0 THEN <<BSL, 120>> \o HexN(-c, 2)                      \* invalid byte: \xHH
    ELSE IF c = DQ \/ c = BSL THEN <<BSL, c>>
    ELSE IF IsPrintRune(c) THEN <<c>>
    ELSE IF c \in DOMAIN SimpleEsc THEN <<BSL, SimpleEsc[c]>>
    ELSE IF c < 32 \/ c = 127 THEN <<BSL, 120>> \o HexN(c, 2)
    ELSE IF c < 65536 THEN <<BSL, 117>> \o HexN(c, 4)              \* \uHHHH
    ELSE <<BSL, 85>> \o HexN(c, 8)                                  \* \UHHHHHHHH
RECURSIVE QuoteBody(_)
QuoteBody(s) == IF s = <<>> THEN <<>> ELSE QuoteRune(Head(s)) \o QuoteBody(Tail(s))
GoQuote(s) == <<DQ>> \o QuoteBody(s) \o <<DQ>>
AutoQuote(s) == IF MustQuote(s) THEN GoQuote(s) ELSE s

\* ---- strconv.Unquote of a double-quoted token body (between the quotes): <<"ok", value>> or <<"err">>
UnSimple == [c \in {97, 98, 102, 110, 114, 116, 118, BSL, DQ} |->
                CASE c = 97 -> 7 [] c = 98 -> 8 [] c = 102 -> 12 [] c = 110 -> 10 [] c = 114 -> 13 [] c = 116 -> 9 [] c = 118 -> 11
                  [] c = BSL -> BSL [] c = DQ -> DQ]
ByteElem(b) == IF b < 128 THEN b ELSE -b
IsSurrogate(v) == v >= 55296 /\ v <= 57343
RECURSIVE UnBody(_, _)
UnBody(b, acc) ==
    IF b = <<>> THEN <<"ok", acc>>
    ELSE IF b[1] = DQ \/ b[1] = NL THEN <<"err">>
    ELSE IF b[1] # BSL THEN UnBody(Tail(b), Append(acc, b[1]))
    ELSE IF Len(b) < 2 THEN <<"err">>
    ELSE IF b[2] \in DOMAIN UnSimple THEN UnBody(SubSeq(b, 3, Len(b)), Append(acc, UnSimple[b[2]]))
    ELSE IF b[2] = 120
    THEN (IF Len(b) >= 4 /\ AllHex(SubSeq(b, 3, 4)) THEN UnBody(SubSeq(b, 5, Len(b)), Append(acc, ByteElem(HexVal(SubSeq(b, 3, 4))))) ELSE <<"err">>)
    ELSE IF b[2] = 117
    THEN (IF Len(b) >= 6 /\ AllHex(SubSeq(b, 3, 6)) /\ ~IsSurrogate(HexVal(SubSeq(b, 3, 6)))
          THEN UnBody(SubSeq(b, 7, Len(b)), Append(acc, HexVal(SubSeq(b, 3, 6)))) ELSE <<"err">>)
    ELSE IF b[2] = 85
    THEN (IF Len(b) >= 10 /\ AllHex(SubSeq(b, 3, 10)) /\ HexVal(SubSeq(b, 3, 10)) <= 1114111 /\ ~IsSurrogate(HexVal(SubSeq(b, 3, 10)))
          THEN UnBody(SubSeq(b, 11, Len(b)), Append(acc, HexVal(SubSeq(b, 3, 10)))) ELSE <<"err">>)
    ELSE <<"err">>         \* octal escapes and \' are outside what the generators produce: \' is an error in Go as well
\* modfile.parseString: the value of one token of the lexer
TokenValue(text) ==
    IF text # <<>> /\ text[1] = DQ
    THEN (IF Len(text) >= 2 /\ text[Len(text)] = DQ THEN UnBody(SubSeq(text, 2, Len(text) - 1), <<>>) ELSE <<"err">>)
    ELSE IF \E i \in 1..Len(text) : text[i] \in {DQ, SQ, BQ} THEN <<"err">>
    ELSE <<"ok", text>>

\* ---- the lemma
Toks(s) == Lex(AutoQuote(s))
OneTokenOf(s) ==
    LET t == Toks(s) IN
    /\ LexOK(t) /\ Len(t) = 2
    /\ t[1].kind \in {"ident", "string", "lparen", "rparen", "punct"}
    /\ t[1].text = AutoQuote(s)
    /\ TokenValue(t[1].text) = <<"ok", s>>
\* a string that needs no quoting is not changed by quoting rules it does not need: an unquoted token never starts a comment
NoCommentOf(s) == \A i \in 1..Len(Toks(s)) : "kind" \in DOMAIN Toks(s)[i] => Toks(s)[i].kind \notin {"comment", "eolcomment"}
=============================================================================
