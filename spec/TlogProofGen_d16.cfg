CONSTANTS
  TMax = 16
  Contents = {}
INIT Init
NEXT Next
INVARIANTS Complete TwoFormulationsAgree SoundWithTrueRoot JunkRejected LengthRejected EndsRejected Emit
