CONSTANTS
  MaxLen = 10
  Contents = {1, 2}
  MaxLevel = 4
  MaxK = 10
INIT Init
NEXT Next
INVARIANTS LayoutBijection ClosedFormAgrees StoreIsMTH CountMatches TreeHashIsMTH ReadsArePresent EmitState
