CONSTANTS
  MaxItems = 5
  Mode = "items"
  Alphabet = "reduced"
INIT Init
NEXT Next
INVARIANTS PositionsConsistent Emit
