------------------------------- MODULE DirHash -------------------------------
(* The h1: module content hash (C19): base64 SHA-256 of a summary with one     *)
(* line per file - hex SHA-256 of the content, two spaces, the name, newline - *)
(* sorted by name.  Content hashes are abstract (H is injective); the summary  *)
(* is modelled at text level with a fixed-width digest so that the injectivity  *)
(* of the rendering is a real statement about the line format.                 *)
EXTENDS Integers, Sequences, FiniteSets, Chars, SequencesExt

NL == 10
\* a file is [name |-> chars, content |-> id]
HexOf(c) == <<104, 48 + c, 48 + c, 48 + c>>          \* stand-in for 64 hex digits: fixed width, distinct per content
LineOf(f) == HexOf(f.content) \o <<32, 32>> \o f.name \o <<NL>>
NameLess(f, g) == CmpSeq(f.name, g.name) < 0
\* the summary of a list of files (any order)
Summary(files) == SortSeq(files, LAMBDA f, g : NameLess(f, g))
RECURSIVE RenderSeq(_)
RenderSeq(fs) == IF fs = <<>> THEN <<>> ELSE LineOf(Head(fs)) \o RenderSeq(Tail(fs))
Render(files) == RenderSeq(Summary(files))
Refused(files) == \E i \in 1..Len(files) : Contains(files[i].name, NL)
==============================================================================
