CONSTANTS
  MaxOps = 1
  LayoutSet = "small"
  Kind = "mod"
INIT Init
NEXT Next
INVARIANTS DedupIdempotent ErrorsChangeNothing BulkExact Emit
