------------------------------ MODULE TilePath ------------------------------
(* Tile coordinate paths  tile/H/L/NNN[.p/W]  (C10: coordinates and their      *)
(* path encoding are a bijection).  Path is the documented encoding; ParseOK   *)
(* states, independently of Path, which strings are encodings: canonical       *)
(* decimals, three-digit groups with an "x" on all but the last, no leading     *)
(* zero group, ".p/W" only for 0 < W < 2^H, "data" for level -1.               *)
EXTENDS Integers, Sequences, Chars, Digits, HashTerms

Slash == 47
cX == 120
DotP == S(".p")
TileLit == S("tile")
DataLit == S("data")

\* t = [h, l, n, w]; l = -1 is the data level
RECURSIVE Groups(_)
Groups(n) == IF n < 1000 THEN <<Pad3(n)>> ELSE Groups(n \div 1000) \o <<Pad3(n % 1000)>>
NElems(n) == LET g == Groups(n) IN [i \in 1..Len(g) |-> IF i < Len(g) THEN <<cX>> \o g[i] ELSE g[i]]
Path(t) ==
    LET ne == NElems(t.n)
        lastp == IF t.w # Pow2(t.h) THEN <<ne[Len(ne)] \o DotP, ToDigits(t.w)>> ELSE <<ne[Len(ne)]>>
    IN JoinWith(<<TileLit, ToDigits(t.h), IF t.l = -1 THEN DataLit ELSE ToDigits(t.l)>>
                \o SubSeq(ne, 1, Len(ne) - 1) \o lastp, Slash)

Canon(d) == IsNum(d) /\ NoLeadingZero(d)
Three(g) == Len(g) = 3 /\ AllDigits(g)
\* the fields of s, and whether the last two encode a partial width
Fields(s) == SplitOn(s, Slash)
IsPartial(f) == Len(f) >= 5 /\ HasSuffix(f[Len(f) - 1], DotP)
NPart(f) == IF IsPartial(f)
            THEN SubSeq(f, 4, Len(f) - 2) \o <<Take(f[Len(f) - 1], Len(f[Len(f) - 1]) - 2)>>
            ELSE SubSeq(f, 4, Len(f))
HVal(f) == ToNat(f[2])
RECURSIVE NDigits(_)
NDigits(np) == IF np = <<>> THEN <<>>
               ELSE LET g == Head(np) IN (IF Len(g) = 4 THEN Tail(g) ELSE g) \o NDigits(Tail(np))
ParseOK(s) ==
    LET f == Fields(s) IN
    /\ Len(f) >= 4
    /\ f[1] = TileLit
    /\ Canon(f[2]) /\ Len(f[2]) <= 2 /\ HVal(f) >= 1 /\ HVal(f) <= 30
    /\ (f[3] = DataLit \/ (Canon(f[3]) /\ Len(f[3]) <= 9))
    /\ LET np == NPart(f) m == Len(np) IN
         /\ m >= 1 /\ m <= 7
         /\ \A i \in 1..(m - 1) : Len(np[i]) = 4 /\ np[i][1] = cX /\ Three(Tail(np[i]))
         /\ Three(np[m])
         /\ (m > 1 => np[1] # S("x000"))
         /\ CmpNum(NDigits(np), S("9223372036854775807")) <= 0
    /\ (IsPartial(f) => /\ Canon(f[Len(f)]) /\ Len(f[Len(f)]) <= 10
                        /\ CmpNum(f[Len(f)], ToDigits(Pow2(HVal(f)))) < 0
                        /\ f[Len(f)] # S("0"))
\* N small enough for TLC's 32-bit integers (otherwise the value is not predicted, only the verdict)
SmallN(s) == Len(StripZeros(NDigits(NPart(Fields(s))))) <= 9
RECURSIVE GroupsVal(_)
GroupsVal(np) == IF np = <<>> THEN 0
                 ELSE LET g == np[Len(np)] d == IF Len(g) = 4 THEN Tail(g) ELSE g
                      IN 1000 * GroupsVal(SubSeq(np, 1, Len(np) - 1)) + ToNat(d)
ParseTile(s) ==
    LET f == Fields(s) IN
    [h |-> HVal(f),
     l |-> IF f[3] = DataLit THEN -1 ELSE ToNat(f[3]),
     n |-> IF SmallN(s) \/ NDigits(NPart(f)) = S("002000000000") THEN GroupsVal(NPart(f)) ELSE -1,
     w |-> IF IsPartial(f) THEN ToNat(f[Len(f)]) ELSE Pow2(HVal(f))]
=============================================================================
