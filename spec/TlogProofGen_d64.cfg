CONSTANTS
  TMax = 64
  Contents = {}
INIT Init
NEXT Next
INVARIANTS Complete TwoFormulationsAgree SoundWithTrueRoot JunkRejected LengthRejected EndsRejected Emit
