CONSTANTS
  Size = "small"
INIT Init
NEXT Next
INVARIANTS Encodes Canonical Emit
