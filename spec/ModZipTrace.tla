----------------------------- MODULE ModZipTrace -----------------------------
(* E3 for C05 / C12 / C17: random larger file lists (up to 30 files, paths of  *)
(* up to four elements) and random archives (up to 12 entries) run through the *)
(* real CheckFiles / Create / CheckZip / Unzip / CheckDir / CreateFromDir; the  *)
(* specification re-derives the three lists, the creation verdict, the archive  *)
(* verdict and the extracted tree from the logged input, and requires the       *)
(* self-consistency flags the recorder computed on the real artefacts           *)
(* (round trip, directory side = list side, zip hash = directory hash).         *)
EXTENDS ModZip, TLC, Json
VARIABLES l, bad
Trace == ndJsonDeserialize("trace.ndjson")
Prefix == S("example.com/m@v1.0.0/")
SeqSet(s) == {s[i] : i \in 1..Len(s)}
Clauses(e) ==
    IF e.k = "files" THEN
        LET fs == e["in"].files
            g == Ge124(fs)
            c == Classify(fs, g) IN
        (IF e.obs.valid = c.valid /\ e.obs.omitted = c.omitted /\ e.obs.invalid = c.invalid THEN {} ELSE {"c17:classification"})
        \cup (IF e.obs.errok THEN {} ELSE {"c17:err-inconsistent"})
        \cup (IF e.obs.createok = (c.invalid = <<>>) THEN {} ELSE {"c05:create-verdict"})
        \cup (IF e.obs.flags.roundtrip THEN {} ELSE {"c05:roundtrip"})
        \cup (IF e.obs.flags.dirlist THEN {} ELSE {"c17:dir-vs-list"})
        \cup (IF e.obs.flags.hash THEN {} ELSE {"c19:zip-vs-dir"})
    ELSE
        LET es == e["in"].entries
            c == CheckZip(es, Prefix) IN
        (IF e.obs.valid = c.valid /\ e.obs.invalid = c.invalid THEN {} ELSE {"c12:checkzip"})
        \cup (IF e.obs.sizeerr = c.sizeerr THEN {} ELSE {"c12:size-limit"})
        \cup (IF e.obs.unzipok = UnzipOK(es, Prefix) THEN {} ELSE {"c12:unzip-verdict"})
        \cup (IF e.obs.unzipok /\ UnzipOK(es, Prefix) /\ SeqSet(e.obs.tree) # UnzipTree(es, Prefix) THEN {"c12:tree"} ELSE {})
        \cup (IF e.obs.noescape THEN {} ELSE {"c12:escape"})
ExpOf(e) ==
    IF e.k = "files" THEN LET fs == e["in"].files
                              g == Ge124(fs)
                              c == Classify(fs, g) IN [valid |-> c.valid, omitted |-> c.omitted, invalid |-> c.invalid, createok |-> c.invalid = <<>> /\ ~c.sizeerr, ge124 |-> g]
    ELSE LET es == e["in"].entries IN [valid |-> CheckZip(es, Prefix).valid, invalid |-> CheckZip(es, Prefix).invalid, sizeerr |-> CheckZip(es, Prefix).sizeerr, unzipok |-> UnzipOK(es, Prefix), tree |-> UnzipTree(es, Prefix)]
Init == l = 1 /\ bad = {}
Next == /\ l <= Len(Trace)
        /\ l' = l + 1
        /\ LET cl == Clauses(Trace[l]) IN
             /\ bad' = IF cl = {} THEN bad ELSE bad \cup {l}
             /\ IF cl = {} THEN TRUE ELSE PrintT(ToJson([k |-> "bad", in |-> [l |-> l], sigs |-> cl, exp |-> ExpOf(Trace[l])]))
Done == l = Len(Trace) + 1 => PrintT(ToJson([k |-> "done", in |-> [n |-> Len(Trace), nbad |-> Cardinality(bad)]]))
===============================================================================
