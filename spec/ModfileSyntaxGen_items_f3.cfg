CONSTANTS
  MaxItems = 3
  Mode = "items"
  Alphabet = "full"
INIT Init
NEXT Next
INVARIANTS PositionsConsistent Emit
