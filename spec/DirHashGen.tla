----------------------------- MODULE DirHashGen -----------------------------
(* E1 + E2 for C19: file sets over names chosen to stress the line format      *)
(* (spaces, double spaces, case, slash, non-ASCII, newline) and two contents.  *)
EXTENDS DirHash, TLC, Json
CONSTANTS MaxFiles
VARIABLES phase, files

Names == {S("a"), S("b"), S("a/b"), S("a b"), S("a  b"), S("B"), <<233>>, <<97, 10, 98>>, S("h111  a"), S("a/c"),
          \* a newline in first and in last position, and names that a formatting routine could misread
          <<10, 97, 98>>, <<97, 10>>, S("a%20b"), S("100%"), S("%[1]x"), S("%s"),
          \* names that are not in clean form (the summary uses the names as given)
          S("./a"), S("a//b"), S("a/../b"), S("a/"),
          \* a newline inside a directory component; two names of 481 characters that differ in the last one only
          <<100, 10, 105, 114, 47, 97, 98>>, [i \in 1..481 |-> IF i = 481 THEN 49 ELSE 120], [i \in 1..481 |-> IF i = 481 THEN 50 ELSE 120]}
Contents == {1, 2}
AllFiles == {[name |-> n, content |-> c] : n \in Names, c \in Contents}
NameSet(fs) == {fs[i].name : i \in 1..Len(fs)}

Init == phase = "hub" /\ files = <<>>
Next == \/ /\ phase = "hub" /\ phase' = "set" /\ files' \in {<<f>> : f \in AllFiles}
        \/ /\ phase = "set" /\ Len(files) < MaxFiles /\ phase' = "set"
           /\ \E f \in AllFiles : f.name \notin NameSet(files) /\ CmpSeq(files[Len(files)].name, f.name) < 0 /\ files' = Append(files, f)

Perms == Permutations(1..Len(files))
Permuted(p) == [i \in 1..Len(files) |-> files[p[i]]]
\* E1
OrderIndependent == phase = "set" => \A p \in Perms : Render(Permuted(p)) = Render(files)
SortedByName == phase = "set" => \A i \in 1..(Len(files) - 1) : NameLess(Summary(files)[i], Summary(files)[i + 1])
\* different (name, content) sets render differently: compare with every one-file change and one-file removal
Injective == (phase = "set" /\ ~Refused(files)) =>
    /\ \A i \in 1..Len(files) : \A f \in AllFiles :
          (f # files[i] /\ f.name \notin (NameSet(files) \ {files[i].name}) /\ ~Contains(f.name, NL)) =>
              Render([files EXCEPT ![i] = f]) # Render(files)
    /\ \A i \in 1..Len(files) : Render(SubSeq(files, 1, i - 1) \o SubSeq(files, i + 1, Len(files))) # Render(files)
Emit == phase = "set" =>
    PrintT(ToJson([w |-> "dirhash", k |-> "set", in |-> [files |-> files],
                   exp |-> [refused |-> Refused(files), summary |-> Summary(files)]]))
=============================================================================
