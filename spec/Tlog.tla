------------------------------- MODULE Tlog -------------------------------
(* The append-only log of golang.org/x/mod/sumdb/tlog: records, the dense   *)
(* stored-hash layout, and tree hashes, against RFC 6962.                   *)
(*                                                                          *)
(* State: recs (record contents appended so far) and store (the hashes      *)
(* returned by the append operation, stored at consecutive positions).      *)
(* The layout is defined declaratively by the ORDER OF WRITES: appending    *)
(* record i writes the hash of every complete subtree that i finishes,      *)
(* lowest level first.  The closed form used by the implementation          *)
(* (Count(r) + L) is checked against it.                                    *)
EXTENDS Integers, Sequences, FiniteSets, HashTerms

CONSTANTS MaxLen,        \* bound on the number of records
          Contents,      \* record contents to choose from; {} means "record i has content i" (all distinct)
          MaxLevel, MaxK \* coordinate ranges for the layout bijection
VARIABLES recs, store

\* ---------- coordinates ----------
\* the complete subtree (L, K) covers records [K*2^L, (K+1)*2^L)
Lo(L, K) == K * Pow2(L)
Hi(L, K) == (K + 1) * Pow2(L)
\* it is finished by (written when appending) record Hi - 1
FinishedBy(L, K) == Hi(L, K) - 1

\* number of trailing one bits of i = number of levels above 0 completed by record i
RECURSIVE TrailingOnes(_)
TrailingOnes(i) == IF i % 2 = 1 THEN 1 + TrailingOnes(i \div 2) ELSE 0

\* coordinates written by record i, in order of writing
Writes(i) == [l \in 1..(TrailingOnes(i) + 1) |-> <<l - 1, i \div Pow2(l - 1)>>]
RECURSIVE WriteSeq(_)
WriteSeq(n) == IF n = 0 THEN <<>> ELSE WriteSeq(n - 1) \o Writes(n - 1)

\* declarative index: 0-based position of (L, K) in the order of writes
IndexDecl(L, K) == LET ws == WriteSeq(FinishedBy(L, K) + 1)
                   IN (CHOOSE p \in 1..Len(ws) : ws[p] = <<L, K>>) - 1

\* closed form: Count(r) hashes are written by the first r records
RECURSIVE Count(_)
Count(r) == IF r = 0 THEN 0 ELSE r + Count(r \div 2)
Index(L, K) == Count(FinishedBy(L, K)) + L
\* inverse: coordinate stored at position p (0-based) in a store of a log of n records
Coord(p, n) == WriteSeq(n)[p + 1]

\* documented count: 2n - popcount(n)
RECURSIVE PopCount(_)
PopCount(n) == IF n = 0 THEN 0 ELSE (n % 2) + PopCount(n \div 2)

\* ---------- the append operation (implementation-shaped) ----------
\* hashes read when appending record n: the left siblings of the subtrees it completes
ReadSetForAppend(n) == {Index(l, (n \div Pow2(l)) - 1) : l \in 0..(TrailingOnes(n) - 1)}
RECURSIVE NewHashesUpTo(_, _, _, _)
NewHashesUpTo(n, d, st, l) ==
    IF l = 0 THEN <<Leaf(d)>>
    ELSE LET below == NewHashesUpTo(n, d, st, l - 1)
             left  == st[Index(l - 1, (n \div Pow2(l - 1)) - 1) + 1]
         IN Append(below, Node(left, below[l]))
NewHashes(n, d, st) == NewHashesUpTo(n, d, st, TrailingOnes(n))

\* tree hash of the first m records computed from the store (binary decomposition of m,
\* right-associated as in RFC 6962)
RECURSIVE Blocks(_, _)
Blocks(lo, hi) == IF lo >= hi THEN <<>>
                  ELSE LET k == IF IsPow2(hi - lo) THEN hi - lo ELSE Pow2Below(hi - lo)
                       IN <<<<lo, lo + k>>>> \o Blocks(lo + k, hi)
RECURSIVE Log2(_)
Log2(k) == IF k = 1 THEN 0 ELSE 1 + Log2(k \div 2)
BlockIndex(b) == Index(Log2(b[2] - b[1]), b[1] \div (b[2] - b[1]))
RECURSIVE FoldHashes(_)
FoldHashes(hs) == IF Len(hs) = 1 THEN hs[1] ELSE Node(hs[1], FoldHashes(Tail(hs)))
TreeHashFromStore(m, st) ==
    IF m = 0 THEN EmptyH
    ELSE LET bs == Blocks(0, m) IN FoldHashes([i \in 1..Len(bs) |-> st[BlockIndex(bs[i]) + 1]])

\* ---------- behaviour ----------
Init == recs = <<>> /\ store = <<>>
Append1(d) == /\ Len(recs) < MaxLen
              /\ recs' = Append(recs, d)
              /\ store' = store \o NewHashes(Len(recs), d, store)
Next == IF Contents = {} THEN Append1(Len(recs)) ELSE \E d \in Contents : Append1(d)

\* ---------- properties (C09) ----------
n == Len(recs)
\* position <-> (level, offset) is a bijection onto 0..Count(n)-1, and the closed form is the declarative one
LayoutBijection ==
    LET ws == WriteSeq(n) IN
    /\ Len(ws) = Len(store)
    /\ \A p \in 1..Len(ws) : Index(ws[p][1], ws[p][2]) = p - 1
    /\ \A p, q \in 1..Len(ws) : ws[p] = ws[q] => p = q
ClosedFormAgrees ==
    \A L \in 0..MaxLevel, K \in 0..MaxK : (Hi(L, K) <= n) => Index(L, K) = IndexDecl(L, K)
\* each stored hash is the RFC 6962 hash of its complete subtree
StoreIsMTH ==
    LET ws == WriteSeq(n) IN \A p \in 1..Len(ws) : store[p] = MTH(recs, Lo(ws[p][1], ws[p][2]), Hi(ws[p][1], ws[p][2]))
\* store length is the documented count
CountMatches == Len(store) = Count(n) /\ Count(n) = 2 * n - PopCount(n)
\* the tree hash for every size m <= n
TreeHashIsMTH == \A m \in 0..n : TreeHashFromStore(m, store) = MTH(recs, 0, m)
\* only left siblings already present are read
ReadsArePresent == \A p \in ReadSetForAppend(n) : p < Len(store)
===========================================================================
