CONSTANTS
  MaxLen = 4
INIT Init
NEXT Next
INVARIANTS Laws Emit
