CONSTANTS
  Size = "full"
INIT Init
NEXT Next
INVARIANTS Recognised Recovers Between TimeMonotone Emit
