CONSTANTS
  TMax = 7
  Contents = {1, 2}
INIT Init
NEXT Next
INVARIANTS Complete TwoFormulationsAgree SoundWithTrueRoot JunkRejected LengthRejected EndsRejected Emit
