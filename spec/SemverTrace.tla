---------------------------- MODULE SemverTrace ----------------------------
(* E3 for C04/C18: events recorded from the real semver package are          *)
(* re-evaluated by the specification.  Events are independent calls, so the  *)
(* trace specification does not stop at the first mismatch: it collects the  *)
(* indices of all mismatching events and prints the expectation for each.    *)
EXTENDS SemverExp, TLC, Json
VARIABLES l, bad

Trace == ndJsonDeserialize("trace.ndjson")

ExpOf(e) ==
    CASE e.k = "str"  -> ExpStr(e.in.s, e.in.refs)
      [] e.k = "cmp"  -> ExpCmp(e.in.a, e.in.b)
      [] e.k = "sort" -> ExpSort(e.in.list)
EventOK(e) ==
    CASE e.k = "str"  -> e.obs = ExpStr(e.in.s, e.in.refs)
      [] e.k = "cmp"  -> e.obs = ExpCmp(e.in.a, e.in.b)
      [] e.k = "sort" -> SortOK(e.in.list, e.obs.out) /\ e.obs = ExpSort(e.in.list)

Init == l = 1 /\ bad = {}
Next == /\ l <= Len(Trace)
        /\ l' = l + 1
        /\ LET ok == EventOK(Trace[l]) IN
             /\ bad' = IF ok THEN bad ELSE bad \cup {l}
             /\ IF ok THEN TRUE ELSE PrintT(ToJson([k |-> "bad", in |-> [l |-> l], exp |-> ExpOf(Trace[l])]))
Done == l = Len(Trace) + 1 => PrintT(ToJson([k |-> "done", in |-> [n |-> Len(Trace), nbad |-> Cardinality(bad)]]))
============================================================================
