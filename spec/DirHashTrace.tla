----------------------------- MODULE DirHashTrace -----------------------------
(* E3 for C19: random file sets hashed by the real dirhash.Hash1; the recorder  *)
(* logs whether the result equals the documented formula applied to the names   *)
(* in the order it logs; the specification checks that this order is the        *)
(* summary order and that names with newlines are refused.                      *)
EXTENDS DirHash, TLC, Json
VARIABLES l, bad
Trace == ndJsonDeserialize("trace.ndjson")
ExpOf(e) == LET s == Summary(e.in.files) IN
            [refused |-> Refused(e.in.files), order |-> [i \in 1..Len(s) |-> s[i].name], formula |-> TRUE]
Init == l = 1 /\ bad = {}
Next == /\ l <= Len(Trace)
        /\ l' = l + 1
        /\ LET ok == Trace[l].obs = ExpOf(Trace[l]) IN
             /\ bad' = IF ok THEN bad ELSE bad \cup {l}
             /\ IF ok THEN TRUE ELSE PrintT(ToJson([k |-> "bad", in |-> [l |-> l], exp |-> ExpOf(Trace[l])]))
Done == l = Len(Trace) + 1 => PrintT(ToJson([k |-> "done", in |-> [n |-> Len(Trace), nbad |-> Cardinality(bad)]]))
===============================================================================
