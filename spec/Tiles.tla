------------------------------- MODULE Tiles -------------------------------
(* Tiles of the transparent log (C10): coordinates, true content, the        *)
(* authenticated tile reader as a state machine with an adversarial tile     *)
(* server, and the publisher.                                                *)
(*                                                                           *)
(* A stored hash has coordinates (L, K): level and offset.  A tile           *)
(* [h, tl, tn, w] holds the w hashes of level h*tl with offsets              *)
(* tn*2^h .. tn*2^h + w - 1; higher levels inside the tile are recomputed.   *)
(* Records are all distinct (record i has content i), hashes are terms.      *)
EXTENDS Integers, Sequences, FiniteSets, HashTerms

CONSTANT AuthFrom   \* "distinctTreeTiles": child tiles are checked from the first tile planned after the
                    \*    (de-duplicated) tree-hash tiles;  "lenStx": from position |subtree hashes of the tree hash|
                    \*    (the faulty variant: skips children when two tree-hash subtrees share a tile)

Recs(n) == [i \in 1..n |-> i - 1]
\* the R-suffixed operators take the record contents explicitly (used by the client model, where
\* two timelines share a prefix); the plain ones are for a log of n distinct records
TrueHashR(recs, L, K) == MTH(recs, K * Pow2(L), (K + 1) * Pow2(L))
TrueHash(n, L, K) == TrueHashR(Recs(n), L, K)

Tile(h, tl, tn, w) == [h |-> h, tl |-> tl, tn |-> tn, w |-> w]
NoTile == [h |-> 0, tl |-> 0, tn |-> 0, w |-> 0]

\* number of hashes at level L in a tree of n records
CountAt(n, L) == n \div Pow2(L)

\* the tile of least width containing (L, K), and where the hash sits inside it
LevelIn(h, L) == L - (L \div h) * h
TileOf(h, L, K) ==
    LET tl == L \div h
        lv == LevelIn(h, L)
        tn == (K * Pow2(lv)) \div Pow2(h)
        k2 == K - ((tn * Pow2(h)) \div Pow2(lv))
    IN Tile(h, tl, tn, (k2 + 1) * Pow2(lv))
\* 1-based first and last position, inside the tile data, of the hashes combined into (L, K)
SpanIn(h, L, K) ==
    LET lv == LevelIn(h, L)
        tn == (K * Pow2(lv)) \div Pow2(h)
        k2 == K - ((tn * Pow2(h)) \div Pow2(lv))
    IN <<k2 * Pow2(lv) + 1, (k2 + 1) * Pow2(lv)>>

\* the hash of the complete subtree over 2^j consecutive hashes
RECURSIVE TileHash(_)
TileHash(d) == IF Len(d) = 1 THEN d[1]
               ELSE Node(TileHash(SubSeq(d, 1, Len(d) \div 2)), TileHash(SubSeq(d, Len(d) \div 2 + 1, Len(d))))

\* the hash (L, K) taken from tile t with content d; <<FALSE, _>> if t cannot supply it
HashFromTile(t, d, L, K) ==
    LET t1 == TileOf(t.h, L, K) sp == SpanIn(t.h, L, K) IN
    IF t.tl # t1.tl \/ t.tn # t1.tn \/ t.w < t1.w \/ Len(d) < t.w THEN <<FALSE, EmptyH>>
    ELSE <<TRUE, TileHash(SubSeq(d, sp[1], sp[2]))>>

\* t's k-th parent among the tiles of a tree of n records, widened/narrowed to what the tree has
TileParent(t, k, n) ==
    LET tl == t.tl + k
        tn == t.tn \div Pow2(k * t.h)
        max == CountAt(n, tl * t.h)
        lo == tn * Pow2(t.h)
    IN IF lo >= max THEN NoTile
       ELSE IF lo + Pow2(t.h) >= max THEN Tile(t.h, tl, tn, max - lo) ELSE Tile(t.h, tl, tn, Pow2(t.h))

TrueTileR(recs, t) == [i \in 1..t.w |-> TrueHashR(recs, t.h * t.tl, t.tn * Pow2(t.h) + i - 1)]
TrueTile(n, t) == TrueTileR(Recs(n), t)

\* every tile that exists for a tree of n records (with its width for that tree)
RECURSIVE Log2Floor(_)
Log2Floor(x) == IF x <= 1 THEN 0 ELSE 1 + Log2Floor(x \div 2)
TileWidth(h, n, tl, tn) == LET c == CountAt(n, tl * h) IN IF (tn + 1) * Pow2(h) <= c THEN Pow2(h) ELSE c - tn * Pow2(h)
AllTiles(h, n) ==
    UNION {{Tile(h, tl, tn, TileWidth(h, n, tl, tn)) : tn \in 0..((CountAt(n, tl * h) - 1) \div Pow2(h))} :
              tl \in {x \in 0..Log2Floor(n) : CountAt(n, x * h) > 0}}

\* tiles a publisher must add when the tree grows from old to new: those that exist now and did not before
NewTiles(h, old, new) == AllTiles(h, new) \ AllTiles(h, old)

\* ---------- the read plan ----------
\* subtree hashes whose right-fold is the tree hash of n records: <<L, K>> coordinates, left to right
RECURSIVE Stx(_, _)
Stx(lo, hi) == IF lo >= hi THEN <<>>
               ELSE LET k == IF IsPow2(hi - lo) THEN hi - lo ELSE Pow2Below(hi - lo)
                    IN <<<<Log2Floor(k), lo \div k>>>> \o Stx(lo + k, hi)

InSeq(x, s) == \E i \in 1..Len(s) : s[i] = x
PosIn(x, s) == CHOOSE i \in 1..Len(s) : s[i] = x

\* tiles for the tree hash, de-duplicated, in order of first use
RECURSIVE PlanTreeFrom(_, _, _, _)
PlanTreeFrom(h, n, stx, acc) ==
    IF stx = <<>> THEN acc
    ELSE LET c == Head(stx) t == TileParent(TileOf(h, c[1], c[2]), 0, n)
         IN PlanTreeFrom(h, n, Tail(stx), IF InSeq(t, acc) THEN acc ELSE Append(acc, t))
PlanTree(h, n) == PlanTreeFrom(h, n, Stx(0, n), <<>>)

\* smallest k such that the k-th parent of t is already planned
RECURSIVE FirstPlanned(_, _, _, _)
FirstPlanned(t, k, n, acc) == IF InSeq(TileParent(t, k, n), acc) THEN k ELSE FirstPlanned(t, k + 1, n, acc)
\* parents first, then children, down to the tile of the index itself
RECURSIVE Descend(_, _, _, _)
Descend(t, k, n, acc) == IF k < 0 THEN acc ELSE Descend(t, k - 1, n, Append(acc, TileParent(t, k, n)))
RECURSIVE PlanIdxFrom(_, _, _, _)
PlanIdxFrom(h, n, idx, acc) ==
    IF idx = <<>> THEN acc
    ELSE LET c == Head(idx) t == TileOf(h, c[1], c[2]) k == FirstPlanned(t, 0, n, acc)
         IN PlanIdxFrom(h, n, Tail(idx), Descend(t, k - 1, n, acc))
Plan(h, n, idx) == PlanIdxFrom(h, n, idx, PlanTree(h, n))

\* position of the first planned tile that is authenticated against its parent
AuthStart(h, n) == IF AuthFrom = "lenStx" THEN Len(Stx(0, n)) + 1 ELSE Len(PlanTree(h, n)) + 1

\* ---------- corruptions of one tile's content ----------
Replace(s, i, x) == [j \in 1..Len(s) |-> IF j = i THEN x ELSE s[j]]
CorruptKinds == {"junk", "swap", "dup", "truncate", "extend", "other"}
\* c = [kind, j, k]; "other": the true content of tile number k of the same level and width
ApplyCorruption(n, t, d, c) ==
    CASE c.kind = "junk"     -> Replace(d, c.j, Junk(1))
      [] c.kind = "swap"     -> [i \in 1..Len(d) |-> IF i = c.j THEN d[c.k] ELSE IF i = c.k THEN d[c.j] ELSE d[i]]
      [] c.kind = "dup"      -> Replace(d, c.k, d[c.j])
      [] c.kind = "truncate" -> SubSeq(d, 1, Len(d) - 1)
      [] c.kind = "extend"   -> Append(d, Junk(2))
      [] c.kind = "other"    -> TrueTile(n, Tile(t.h, t.tl, c.k, t.w))
Corruptions(n, t) ==
       {[kind |-> "junk", j |-> j, k |-> 0] : j \in 1..t.w}
  \cup {[kind |-> "swap", j |-> p[1], k |-> p[2]] : p \in {q \in (1..t.w) \X (1..t.w) : q[1] < q[2]}}
  \cup {[kind |-> "dup", j |-> p[1], k |-> p[2]] : p \in {q \in (1..t.w) \X (1..t.w) : q[1] # q[2]}}
  \cup {[kind |-> "truncate", j |-> 0, k |-> 0], [kind |-> "extend", j |-> 0, k |-> 0]}
  \cup {[kind |-> "other", j |-> 0, k |-> k] : k \in {x \in 0..(CountAt(n, t.tl * t.h) \div Pow2(t.h)) :
                                                        x # t.tn /\ (x + 1) * Pow2(t.h) <= CountAt(n, t.tl * t.h) /\ t.w = Pow2(t.h)}}

\* ---------- the reader, step by step (protocol layer) ----------
\* served: content handed back for each planned tile.  Outcome: [ok, hashes, saved]
TreeHashFromTiles(h, n, tiles, served) ==   \* n: tree size only (no record contents needed)
    LET stx == Stx(0, n)
        part(i) == LET c == stx[i] t == TileParent(TileOf(h, c[1], c[2]), 0, n) p == PosIn(t, tiles)
                   IN HashFromTile(tiles[p], served[p], c[1], c[2])
        allok == \A i \in 1..Len(stx) : part(i)[1]
        F[i \in 1..Len(stx)] == IF i = Len(stx) THEN part(i)[2] ELSE Node(part(i)[2], F[i + 1])
    IN <<allok, IF allok THEN F[1] ELSE EmptyH>>

ChildOK(h, n, tiles, served, i) ==
    LET t == tiles[i] p == TileParent(t, 1, n) IN
    /\ InSeq(p, tiles)
    /\ LET j == PosIn(p, tiles) hp == HashFromTile(p, served[j], p.tl * p.h, t.tn)
       IN hp[1] /\ hp[2] = TileHash(served[i])

\* root: the trusted tree hash for size n
ReadOutcomeRoot(h, n, root, idx, tiles, served) ==
    LET lenok == \A i \in 1..Len(tiles) : Len(served[i]) = tiles[i].w
        th == IF lenok THEN TreeHashFromTiles(h, n, tiles, served) ELSE <<FALSE, EmptyH>>
        treeok == lenok /\ th[1] /\ th[2] = root
        childok == treeok /\ \A i \in AuthStart(h, n)..Len(tiles) : ChildOK(h, n, tiles, served, i)
    IN IF ~childok THEN [ok |-> FALSE, hashes |-> <<>>, saved |-> {}]
       ELSE [ok |-> TRUE,
             hashes |-> [i \in 1..Len(idx) |->
                            LET t == TileParent(TileOf(h, idx[i][1], idx[i][2]), 0, n)
                                \* the tile planned last for this coordinate
                                p == CHOOSE q \in 1..Len(tiles) : tiles[q].tl = t.tl /\ tiles[q].tn = t.tn
                            IN HashFromTile(tiles[p], served[p], idx[i][1], idx[i][2])[2]],
             saved |-> {<<tiles[i], served[i]>> : i \in 1..Len(tiles)}]

ReadOutcome(h, n, idx, tiles, served) == ReadOutcomeRoot(h, n, MTH(Recs(n), 0, n), idx, tiles, served)

\* ---------- observer predicates (the property) ----------
ReturnedTrue(n, idx, out) == out.ok => \A i \in 1..Len(idx) : out.hashes[i] = TrueHash(n, idx[i][1], idx[i][2])
SavedTrue(n, out) == \A s \in out.saved : s[2] = TrueTile(n, s[1])
=============================================================================
