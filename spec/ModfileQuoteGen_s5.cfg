CONSTANTS
  MaxLen = 5
  Alphabet = "small"
INIT Init
NEXT Next
INVARIANTS OneToken OneTokenDir NoComment Emit
