----------------------------- MODULE TlogProof -----------------------------
(* Merkle audit paths and consistency proofs (C03).                          *)
(*   - PathR / ConsR: the proofs, as the recursive definitions of RFC 6962    *)
(*     sections 2.1.1 and 2.1.2, at the level of record ranges;              *)
(*   - VerifyInclusionIter / VerifyConsistencyIter: the iterative            *)
(*     verification algorithms of RFC 9162 sections 2.1.3.2 and 2.1.4.2;     *)
(*   - VerifyInclusionRec / VerifyConsistencyRec: verifiers obtained by      *)
(*     inverting the RFC 6962 definitions (the shape of the implementation). *)
(* Hashes handed to the verifiers are described by DESCRIPTORS so that cases *)
(* stay small when printed:  <<"R", lo, hi>> = MTH(D[lo:hi]),  <<"J", k>> =  *)
(* junk.  T(recs, d) maps a descriptor to its hash term.                     *)
EXTENDS Integers, Sequences, FiniteSets, HashTerms

R(lo, hi) == <<"R", lo, hi>>
J(k) == <<"J", k>>
T(recs, d) == IF d[1] = "R" THEN MTH(recs, d[2], d[3]) ELSE Junk(d[2])
TS(recs, ds) == [i \in 1..Len(ds) |-> T(recs, ds[i])]

\* ---- RFC 6962 2.1.1: audit path for record m in D[lo:hi] ----
RECURSIVE PathR(_, _, _)
PathR(m, lo, hi) ==
    IF hi = lo + 1 THEN <<>>
    ELSE LET k == Pow2Below(hi - lo) IN
         IF m < lo + k THEN Append(PathR(m, lo, lo + k), R(lo + k, hi))
                       ELSE Append(PathR(m, lo + k, hi), R(lo, lo + k))

\* ---- RFC 6962 2.1.2: consistency proof of D[0:m] within D[lo:hi] ----
RECURSIVE SubProofR(_, _, _, _)
SubProofR(m, lo, hi, b) ==
    IF m = hi THEN (IF b THEN <<>> ELSE <<R(lo, hi)>>)
    ELSE LET k == Pow2Below(hi - lo) IN
         IF m <= lo + k THEN Append(SubProofR(m, lo, lo + k, b), R(lo + k, hi))
                        ELSE Append(SubProofR(m, lo + k, hi, FALSE), R(lo, lo + k))
ConsR(m, n) == SubProofR(m, 0, n, TRUE)

InRangeRecord(t, n) == 0 <= n /\ n < t
InRangeTree(t, n) == 1 <= n /\ n <= t

\* ---- RFC 9162 2.1.3.2: verifying an inclusion proof (iterative) ----
RECURSIVE ShiftUntil(_, _)
ShiftUntil(fn, sn) == IF fn % 2 = 1 \/ fn = 0 THEN <<fn, sn>> ELSE ShiftUntil(fn \div 2, sn \div 2)
RECURSIVE IncLoop(_, _, _, _, _)
IncLoop(p, i, fn, sn, r) ==          \* <<ok, r, sn>>
    IF i > Len(p) THEN <<TRUE, r, sn>>
    ELSE IF sn = 0 THEN <<FALSE, r, sn>>
    ELSE IF fn % 2 = 1 \/ fn = sn
         THEN LET sh == IF fn % 2 = 0 THEN ShiftUntil(fn, sn) ELSE <<fn, sn>>
              IN IncLoop(p, i + 1, sh[1] \div 2, sh[2] \div 2, Node(p[i], r))
         ELSE IncLoop(p, i + 1, fn \div 2, sn \div 2, Node(r, p[i]))
\* p: sequence of hash terms; th, h: hash terms
VerifyInclusionIter(p, t, th, n, h) ==
    /\ InRangeRecord(t, n)
    /\ LET res == IncLoop(p, 1, n, t - 1, h) IN res[1] /\ res[3] = 0 /\ res[2] = th

\* ---- RFC 9162 2.1.4.2: verifying consistency (iterative) ----
RECURSIVE ShiftWhileOdd(_, _)
ShiftWhileOdd(fn, sn) == IF fn % 2 = 1 THEN ShiftWhileOdd(fn \div 2, sn \div 2) ELSE <<fn, sn>>
RECURSIVE ConsLoop(_, _, _, _, _, _)
ConsLoop(p, i, fn, sn, fr, sr) ==    \* <<ok, fr, sr, sn>>
    IF i > Len(p) THEN <<TRUE, fr, sr, sn>>
    ELSE IF sn = 0 THEN <<FALSE, fr, sr, sn>>
    ELSE IF fn % 2 = 1 \/ fn = sn
         THEN LET sh == IF fn % 2 = 0 THEN ShiftUntil(fn, sn) ELSE <<fn, sn>>
              IN ConsLoop(p, i + 1, sh[1] \div 2, sh[2] \div 2, Node(p[i], fr), Node(p[i], sr))
         ELSE ConsLoop(p, i + 1, fn \div 2, sn \div 2, fr, Node(sr, p[i]))
\* tree of size t with hash th contains as a prefix the tree of size n with hash h
VerifyConsistencyIter(p, t, th, n, h) ==
    /\ InRangeTree(t, n)
    /\ IF n = t THEN Len(p) = 0 /\ h = th
       ELSE /\ Len(p) > 0
            /\ LET q  == IF IsPow2(n) THEN <<h>> \o p ELSE p
                   sh == ShiftWhileOdd(n - 1, t - 1)
                   res == ConsLoop(q, 2, sh[1], sh[2], q[1], q[1])
               IN res[1] /\ res[2] = h /\ res[3] = th /\ res[4] = 0

\* ---- recursive verifiers: the RFC 6962 definitions run backwards ----
RECURSIVE RunIncl(_, _, _, _, _)
RunIncl(p, lo, hi, n, leaf) ==       \* <<ok, hash>>
    IF hi = lo + 1 THEN <<Len(p) = 0, leaf>>
    ELSE IF Len(p) = 0 THEN <<FALSE, leaf>>
    ELSE LET k == Pow2Below(hi - lo)
             last == p[Len(p)]
             init == SubSeq(p, 1, Len(p) - 1)
         IN IF n < lo + k
            THEN LET r == RunIncl(init, lo, lo + k, n, leaf) IN <<r[1], Node(r[2], last)>>
            ELSE LET r == RunIncl(init, lo + k, hi, n, leaf) IN <<r[1], Node(last, r[2])>>
VerifyInclusionRec(p, t, th, n, h) ==
    /\ InRangeRecord(t, n)
    /\ LET r == RunIncl(p, 0, t, n, h) IN r[1] /\ r[2] = th

RECURSIVE RunCons(_, _, _, _, _)
RunCons(p, lo, hi, n, old) ==        \* <<ok, oldHash, newHash>>
    IF n = hi THEN (IF lo = 0 THEN <<Len(p) = 0, old, old>>
                    ELSE IF Len(p) = 1 THEN <<TRUE, p[1], p[1]>> ELSE <<FALSE, old, old>>)
    ELSE IF Len(p) = 0 THEN <<FALSE, old, old>>
    ELSE LET k == Pow2Below(hi - lo)
             last == p[Len(p)]
             init == SubSeq(p, 1, Len(p) - 1)
         IN IF n <= lo + k
            THEN LET r == RunCons(init, lo, lo + k, n, old) IN <<r[1], r[2], Node(r[3], last)>>
            ELSE LET r == RunCons(init, lo + k, hi, n, old) IN <<r[1], Node(last, r[2]), Node(last, r[3])>>
VerifyConsistencyRec(p, t, th, n, h) ==
    /\ InRangeTree(t, n)
    /\ LET r == RunCons(p, 0, t, n, h) IN r[1] /\ r[2] = h /\ r[3] = th

\* ---- mutation family (on descriptors) ----
\* a tuple is [p, t, th, n, h] with p a sequence of descriptors, th and h descriptors
Replace(s, i, x) == [j \in 1..Len(s) |-> IF j = i THEN x ELSE s[j]]
Delete(s, i) == SubSeq(s, 1, i - 1) \o SubSeq(s, i + 1, Len(s))
Dup(s, i) == SubSeq(s, 1, i) \o SubSeq(s, i, Len(s))
Swap(s, i) == [j \in 1..Len(s) |-> IF j = i THEN s[i + 1] ELSE IF j = i + 1 THEN s[i] ELSE s[j]]

\* hashes that are easy to confuse with the right ones
Pool(tu, size) ==
    {J(1)} \cup {tu.p[i] : i \in 1..Len(tu.p)} \cup {tu.th, tu.h}
    \cup {R(0, m) : m \in {x \in {tu.n, tu.n + 1, tu.t - 1, tu.t + 1} : x >= 1 /\ x <= size}}
    \cup {R(m, m + 1) : m \in {x \in {tu.n - 1, tu.n, tu.n + 1} : x >= 0 /\ x < size}}

ProofMutations(tu, size) ==
    LET pool == Pool(tu, size) L == Len(tu.p) IN
       {[tu EXCEPT !.p = Replace(tu.p, i, x)] : i \in 1..L, x \in pool}
  \cup {[tu EXCEPT !.p = Delete(tu.p, i)] : i \in 1..L}
  \cup {[tu EXCEPT !.p = Dup(tu.p, i)] : i \in 1..L}
  \cup {[tu EXCEPT !.p = Swap(tu.p, i)] : i \in 1..(L - 1)}
  \cup {[tu EXCEPT !.p = Append(tu.p, x)] : x \in pool}
  \cup {[tu EXCEPT !.p = <<x>> \o tu.p] : x \in pool}
IndexMutations(tu) ==
       {[tu EXCEPT !.n = v] : v \in (-1)..(tu.t + 1)}
  \cup {[tu EXCEPT !.t = v] : v \in (-1)..(tu.t + 2)}
HashMutations(tu, size) ==
    LET pool == Pool(tu, size) IN
       {[tu EXCEPT !.h = x] : x \in pool} \cup {[tu EXCEPT !.th = x] : x \in pool}
\* two components at once: a proof of the wrong length (or the right proof) against the all-zero root or leaf hash, J(0) -
\* the value a checker that forgets an error would compare with
ZeroMutations(tu, size) ==
    LET pool == Pool(tu, size) L == Len(tu.p)
        lens == {tu} \cup {[tu EXCEPT !.p = Delete(tu.p, i)] : i \in 1..L} \cup {[tu EXCEPT !.p = Dup(tu.p, i)] : i \in 1..L}
                     \cup {[tu EXCEPT !.p = Append(tu.p, x)] : x \in pool} \cup {[tu EXCEPT !.p = SubSeq(tu.p, 1, k)] : k \in 0..L}
    IN {[m EXCEPT !.th = J(0)] : m \in lens} \cup {[m EXCEPT !.h = J(0)] : m \in lens} \cup {[m EXCEPT !.th = J(0), !.h = J(0)] : m \in lens}
Mutations(tu, size) == (ProofMutations(tu, size) \cup IndexMutations(tu) \cup HashMutations(tu, size) \cup ZeroMutations(tu, size)) \ {tu}

RecordTuple(t, n) == [p |-> PathR(n, 0, t), t |-> t, th |-> R(0, t), n |-> n, h |-> R(n, n + 1)]
TreeTuple(t, n)   == [p |-> ConsR(n, t), t |-> t, th |-> R(0, t), n |-> n, h |-> R(0, n)]

VerdictRecord(recs, tu) ==
    IF ~InRangeRecord(tu.t, tu.n) THEN "refuse"
    ELSE IF VerifyInclusionIter(TS(recs, tu.p), tu.t, T(recs, tu.th), tu.n, T(recs, tu.h)) THEN "accept" ELSE "reject"
VerdictTree(recs, tu) ==
    IF ~InRangeTree(tu.t, tu.n) THEN "refuse"
    ELSE IF VerifyConsistencyIter(TS(recs, tu.p), tu.t, T(recs, tu.th), tu.n, T(recs, tu.h)) THEN "accept" ELSE "reject"
AgreeRecord(recs, tu) ==
    VerifyInclusionIter(TS(recs, tu.p), tu.t, T(recs, tu.th), tu.n, T(recs, tu.h))
      = VerifyInclusionRec(TS(recs, tu.p), tu.t, T(recs, tu.th), tu.n, T(recs, tu.h))
AgreeTree(recs, tu) ==
    VerifyConsistencyIter(TS(recs, tu.p), tu.t, T(recs, tu.th), tu.n, T(recs, tu.h))
      = VerifyConsistencyRec(TS(recs, tu.p), tu.t, T(recs, tu.th), tu.n, T(recs, tu.h))
=============================================================================
