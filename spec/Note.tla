-------------------------------- MODULE Note --------------------------------
(* Signed notes (C07) at line level: the format is line oriented and the      *)
(* split point between text and signatures is the last blank line.            *)
(*                                                                            *)
(* A message is a sequence of lines (each ended by a newline) plus a flag     *)
(* saying whether the last newline is present.  Lines:                        *)
(*   [k |-> "txt", id, bad]       a text line; bad: contains an ASCII control *)
(*                                character or invalid UTF-8                  *)
(*   [k |-> "blank"]              an empty line                               *)
(*   [k |-> "sig", name, nameok, hash, key, over, form, uid, bad]             *)
(*        a line "-- name base64": name (nameok: syntactically valid),        *)
(*        hash: the key hash in the first four signature bytes, key: the key  *)
(*        that made the signature (0 = nobody), over: the text it was made    *)
(*        over, form: "ok" | "short" (fewer than 5 bytes) | "notb64",         *)
(*        uid: identity of the line's bytes (equal lines have equal uid)      *)
(* Signatures are facts: a signature verifies under a key over a text iff it  *)
(* was made by that key over exactly that text.                               *)
EXTENDS Integers, Sequences, FiniteSets

Txt(id) == [k |-> "txt", id |-> id, bad |-> FALSE]
BadTxt(id) == [k |-> "txt", id |-> id, bad |-> TRUE]
Blank == [k |-> "blank"]
SigLine(name, hash, key, over, uid) ==
    [k |-> "sig", name |-> name, nameok |-> TRUE, hash |-> hash, key |-> key, over |-> over, form |-> "ok", uid |-> uid, bad |-> FALSE]

\* a key: [id, name, hash]; the hash is a function of name and key material, two keys may share both (ambiguous)
Key(id, name, hash) == [id |-> id, name |-> name, hash |-> hash]

\* ---- Sign ----
\* text: sequence of lines; existing: signature lines already on the note; signers: sequence of keys
Sign(text, existing, signers) ==
    LET replaced(s) == \E i \in 1..Len(signers) : signers[i].name = s.name /\ signers[i].hash = s.hash
        kept == SelectSeq(existing, LAMBDA s : ~replaced(s))
        new == [i \in 1..Len(signers) |-> SigLine(signers[i].name, signers[i].hash, signers[i].id, text, <<"new", signers[i].id, text>>)]
    IN [lines |-> text \o <<Blank>> \o kept \o new, finalnl |-> TRUE]

\* ---- signing a note that was opened before ----
\* Opening partitions the signature lines into verified and unverified; signing the opened note keeps the
\* verified ones, then the unverified ones, each unless replaced by a new signer, then the new signatures.
SigsOf(ls) == SelectSeq(ls, LAMBDA s : s.k = "sig")

\* ---- Open ----
\* known: [keys: set of keys trusted, liar: BOOLEAN (the Verifiers answers every lookup with a verifier of another name)]
Candidates(known, name, hash) == {v \in known.keys : v.name = name /\ v.hash = hash}

Malformed == [kind |-> "malformed", text |-> <<>>, sigs |-> <<>>, unsigs |-> <<>>]
Fail(kind) == [kind |-> kind, text |-> <<>>, sigs |-> <<>>, unsigs |-> <<>>]

\* process signature lines left to right.  st = [sigs, unsigs, seen (verified name/hash pairs), seenun (uids), n]
RECURSIVE Walk(_, _, _, _)
Walk(ls, text, known, st) ==
    IF ls = <<>> THEN (IF st.sigs = <<>> THEN [kind |-> "unverified", text |-> text, sigs |-> <<>>, unsigs |-> st.unsigs]
                       ELSE [kind |-> "ok", text |-> text, sigs |-> st.sigs, unsigs |-> st.unsigs])
    ELSE LET s == Head(ls) IN
         IF s.k # "sig" \/ ~s.nameok \/ s.form # "ok" THEN Malformed
         ELSE IF st.n + 1 > 100 THEN Malformed
         ELSE LET st1 == [st EXCEPT !.n = @ + 1]
                  cand == Candidates(known, s.name, s.hash) IN
              IF cand = {} /\ ~known.liar
              THEN IF s.uid \in st1.seenun THEN Walk(Tail(ls), text, known, st1)
                   ELSE Walk(Tail(ls), text, known, [st1 EXCEPT !.seenun = @ \cup {s.uid}, !.unsigs = Append(@, <<s.name, s.hash>>)])
              ELSE IF known.liar THEN Fail("mismatched")
              ELSE IF Cardinality(cand) > 1 THEN Fail("ambiguous")
              ELSE LET v == CHOOSE x \in cand : TRUE IN
                   IF <<s.name, s.hash>> \in st1.seen THEN Walk(Tail(ls), text, known, st1)
                   ELSE IF s.key = v.id /\ s.over = text
                        THEN Walk(Tail(ls), text, known, [st1 EXCEPT !.seen = @ \cup {<<s.name, s.hash>>}, !.sigs = Append(@, <<s.name, s.hash>>)])
                        ELSE Fail("invalid")

\* A message whose last line is empty and lacks its newline is, byte for byte, the message without that line:
\* (lines, finalnl) has two spellings for it, of which the second is the normal form.
NormMsg(msg) == IF ~msg.finalnl /\ msg.lines # <<>> /\ msg.lines[Len(msg.lines)].k = "blank"
                THEN [lines |-> SubSeq(msg.lines, 1, Len(msg.lines) - 1), finalnl |-> TRUE] ELSE msg
Open(msg0, known) ==
    LET msg == NormMsg(msg0)
        ls == msg.lines
        blanks == {j \in 2..Len(ls) : ls[j].k = "blank"} IN
    \* the whole message must be valid UTF-8 without ASCII control characters other than newline
    IF \E i \in 1..Len(ls) : ls[i].k # "blank" /\ ls[i].bad THEN Malformed
    ELSE IF blanks = {} THEN Malformed
    ELSE LET j == CHOOSE x \in blanks : \A y \in blanks : y <= x IN
         IF j = Len(ls) \/ ~msg.finalnl THEN Malformed
         ELSE Walk(SubSeq(ls, j + 1, Len(ls)), SubSeq(ls, 1, j - 1), known,
                   [sigs |-> <<>>, unsigs |-> <<>>, seen |-> {}, seenun |-> {}, n |-> 0])

\* the signature lines of Sign(Open(Sign(text, <<>>, first), known), second): honest signers, unambiguous keys
Resign(text, first, known, second) ==
    LET m0 == Sign(text, <<>>, first)
        ls == SigsOf(SubSeq(m0.lines, Len(text) + 2, Len(m0.lines)))
        isKnown(s) == Candidates(known, s.name, s.hash) # {}
        ver == SelectSeq(ls, isKnown)
        unv == SelectSeq(ls, LAMBDA s : ~isKnown(s))
        m1 == Sign(text, ver \o unv, second)
    IN SigsOf(SubSeq(m1.lines, Len(text) + 2, Len(m1.lines)))
=============================================================================
