CONSTANTS
  Size = "sizes"
  MaxList = 4
  MaxZip = 0
INIT Init
NEXT Next
INVARIANTS ExactlyOneList ValidAreSound CreateRoundTrip Emit
