CONSTANTS
  Size = "small"
INIT Init
NEXT Next
INVARIANTS ExactOnModel Emit
