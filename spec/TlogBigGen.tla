----------------------------- MODULE TlogBigGen -----------------------------
(* E1 + E2 for the 63-bit range of C03 / C09: sizes around powers of two up  *)
(* to 2^63 - 1, indexes at the boundaries, proofs and their mutations.       *)
(* E1 ties the binary-numeral definitions to the integer-level ones of       *)
(* TlogProof / Tlog on every size up to Small.                               *)
EXTENDS TlogBig, TLC, Json
CONSTANTS Small            \* sizes 1..Small are cross-checked against the integer-level specification
VARIABLES phase, t, n, mut

PR == INSTANCE TlogProof
RECURSIVE CountI(_)
CountI(r) == IF r = 0 THEN 0 ELSE r + CountI(r \div 2)
RECURSIVE P2(_)
P2(e) == IF e = 0 THEN 1 ELSE 2 * P2(e - 1)
IndexI(L, K) == CountI((K + 1) * P2(L) - 1) + L
RECURSIVE ShrN(_, _)
ShrN(b, k) == IF k = 0 THEN b ELSE ShrN(Shr(b), k - 1)

Es == {1, 2, 3, 5, 31, 32, 33, 61, 62, 63}
Val(e, d) == IF d = 0 THEN Pow2(e) ELSE IF d = 1 THEN Inc(Pow2(e)) ELSE Dec(Pow2(e))
Sizes == {v \in {Val(e, d) : e \in Es, d \in {-1, 0, 1}} : v # Zero /\ Fits63(v)}
Cands(x) == {Zero, One, Dec(x), IF x = One THEN Zero ELSE Dec(Dec(x)), Shr(x), x, Pow2(31), Pow2(32), Dec(Pow2(32)), Pow2(62), Inc(Pow2(62))}
Records(x) == {v \in Cands(x) : Less(v, x)}
Trees(x) == {v \in Cands(x) : v # Zero /\ Leq(v, x)}
Muts == {"none", "dropfirst", "droplast", "duplast", "junk1", "swap12"}
Mut(p, m) ==
    CASE m = "none" -> p
      [] m = "dropfirst" -> IF p = <<>> THEN <<J(7)>> ELSE Tail(p)
      [] m = "droplast" -> IF p = <<>> THEN <<J(8)>> ELSE SubSeq(p, 1, Len(p) - 1)
      [] m = "duplast" -> IF p = <<>> THEN <<J(9)>> ELSE Append(p, p[Len(p)])
      [] m = "junk1" -> IF p = <<>> THEN <<J(1)>> ELSE <<J(1)>> \o Tail(p)
      [] m = "swap12" -> IF Len(p) < 2 THEN p ELSE <<p[2], p[1]>> \o SubSeq(p, 3, Len(p))
\* provers and the stored-hash layout need positions that fit in 63 bits: logs of at most 2^61 records
Provable(x) == Leq(x, Pow2(61))

Init == phase = "hub" /\ t = Zero /\ n = Zero /\ mut = "none"
Next == \/ /\ phase = "hub" /\ phase' = "size" /\ t' \in Sizes /\ UNCHANGED <<n, mut>>
        \/ /\ phase = "size" /\ phase' = "record" /\ n' \in Records(t) /\ mut' \in Muts /\ UNCHANGED t
        \/ /\ phase = "size" /\ phase' = "tree" /\ n' \in Trees(t) /\ mut' \in Muts /\ UNCHANGED t
        \/ /\ phase = "size" /\ phase' = "range" /\ n' \in {t, Inc(t)} /\ Fits63(n') /\ UNCHANGED <<t, mut>>
        \/ /\ phase = "size" /\ phase' = "index" /\ n' \in {v \in Cands(t) : Leq(v, Pow2(61))} /\ UNCHANGED <<t, mut>>
        \/ /\ phase = "hub" /\ phase' = "small" /\ t' \in {FromInt(i) : i \in 1..Small} /\ UNCHANGED <<n, mut>>

\* ---- E1: the binary-numeral definitions agree with the integer-level specification ----
RECURSIVE ToInt(_)
ToInt(b) == IF b = <<>> THEN 0 ELSE b[1] + 2 * ToInt(Tail(b))
DescInt(d) == <<"R", ToInt(d[2])>>
SizesOf(p) == [i \in 1..Len(p) |-> ToInt(p[i][2])]
RSizes(p) == [i \in 1..Len(p) |-> p[i][3] - p[i][2]]
AgreesWithSmall == phase = "small" =>
    LET ti == ToInt(t) IN
    /\ \A m \in 0..(ti - 1) : SizesOf(Path(FromInt(m), t)) = RSizes(PR!PathR(m, 0, ti))
    /\ \A m \in 1..ti : SizesOf(Cons(FromInt(m), t)) = RSizes(PR!ConsR(m, ti))
    /\ ToInt(Count(t)) = CountI(ti)
    /\ \A L \in 0..3 : ToInt(Index(L, t)) = IndexI(L, ti)
    /\ ToInt(Add(t, t)) = 2 * ti /\ ToInt(Sub(Add(t, FromInt(5)), t)) = 5 /\ ToInt(Inc(t)) = ti + 1 /\ ToInt(Dec(t)) = ti - 1
    /\ ToInt(Pow2Below(Inc(t))) = PR!Pow2Below(ti + 1)
Numerals == IsNum(t) /\ IsNum(n)

\* ---- E2 ----
Emit ==
    /\ phase = "record" =>
         LET p == Mut(Path(n, t), mut) IN
         PrintT(ToJson([w |-> "tlogbig", k |-> "record", in |-> [t |-> t, n |-> n, mut |-> mut, p |-> p],
                        exp |-> [verifies |-> RecordVerifies(p, t, n), prove |-> mut = "none" /\ Provable(t)]]))
    /\ phase = "tree" =>
         LET p == Mut(Cons(n, t), mut) IN
         PrintT(ToJson([w |-> "tlogbig", k |-> "tree", in |-> [t |-> t, n |-> n, mut |-> mut, p |-> p],
                        exp |-> [verifies |-> TreeVerifies(p, t, n), prove |-> mut = "none" /\ Provable(t)]]))
    /\ phase = "range" =>
         PrintT(ToJson([w |-> "tlogbig", k |-> "range", in |-> [t |-> t, n |-> n], exp |-> [refused |-> TRUE]]))
    /\ phase = "index" =>
         PrintT(ToJson([w |-> "tlogbig", k |-> "index", in |-> [n |-> n, l |-> TrailingOnes(n)],
                        exp |-> [count |-> Count(n), leafpos |-> LeafPos(n), k |-> Dec(ShrN(Inc(n), TrailingOnes(n))),
                                 top |-> Index(TrailingOnes(n), Dec(ShrN(Inc(n), TrailingOnes(n))))]]))
=============================================================================
