---------------------------- MODULE ModfileModel ----------------------------
(* The set/map model of go.mod and go.work edit operations (C08, C15, C16).   *)
(* A file is a record of keyed collections, each a sequence in file order     *)
(* (order matters only for "the first entry is updated, later ones removed"   *)
(* and for the documented de-duplication priorities).  Every entry carries    *)
(* the identities of its leading comment (cb) and end-of-line comment (cs).    *)
(* Apply(m, op) is the documented effect of one operation.                    *)
EXTENDS Integers, Sequences, FiniteSets, TLC

\* ---------------------------------------------------------------- entries
Req(p, v, ind, cb, cs)      == [p |-> p, v |-> v, ind |-> ind, cb |-> cb, cs |-> cs]
Exc(p, v, cb, cs)           == [p |-> p, v |-> v, cb |-> cb, cs |-> cs]
Rep(op, ov, np, nv, cb, cs) == [op |-> op, ov |-> ov, np |-> np, nv |-> nv, cb |-> cb, cs |-> cs]
Ret(lo, hi, rat)            == [lo |-> lo, hi |-> hi, rat |-> rat]
Tool(p, cb, cs)             == [p |-> p, cb |-> cb, cs |-> cs]
Gdb(k, v, cb, cs)           == [k |-> k, v |-> v, cb |-> cb, cs |-> cs]
Use(p, cb, cs)              == [p |-> p, cb |-> cb, cs |-> cs]

EmptyFile(kind) == [kind |-> kind, mod |-> "", gov |-> "", tc |-> "",
                    godebug |-> <<>>, require |-> <<>>, exclude |-> <<>>, replace |-> <<>>,
                    retract |-> <<>>, tool |-> <<>>, use |-> <<>>]

\* ---------------------------------------------------------------- version rules (for the small vocabulary used)
CanonVers == {"v1.0.0", "v1.1.0", "v1.2.0", "v2.0.0", "v2.1.0"}
MajorOf(v) == IF v \in {"v2.0.0", "v2.1.0"} THEN "v2" ELSE "v1"
PathMajor(p) == IF p \in {"example.com/c/v2", "example.com/m/v2"} THEN "v2" ELSE "v1"
\* checkCanonicalVersion(path, vers): canonical, and its major version matches the path's suffix
ValidPV(p, v) == v \in CanonVers /\ MajorOf(v) = PathMajor(p)
GoVersOK(v) == v \in {"1.20", "1.21", "1.21.0", "1.22rc1"}
ToolchainOK(n) == n \in {"go1.21.0", "go1.22.1", "default"}

\* ---------------------------------------------------------------- sequence helpers
Filter(s, Keep(_)) == SelectSeq(s, Keep)
Exists(s, P(_)) == \E i \in 1..Len(s) : P(s[i])
Idx(s) == [i \in 1..Len(s) |-> i]
\* the sub-sequence of s at the positions in keep, in order
SubAt(s, keep) == LET ix == SelectSeq(Idx(s), LAMBDA i : i \in keep) IN [j \in 1..Len(ix) |-> s[ix[j]]]
\* the first element matching Match is replaced by Upd(it), later matching elements are removed
UpdFirstDropRest(s, Match(_), Upd(_), unused) ==
    LET hits == {i \in 1..Len(s) : Match(s[i])} IN
    IF hits = {} THEN s
    ELSE LET first == CHOOSE i \in hits : \A j \in hits : i <= j
             s2 == [i \in 1..Len(s) |-> IF i = first THEN Upd(s[i]) ELSE s[i]]
         IN SubAt(s2, {i \in 1..Len(s) : i = first \/ i \notin hits})
\* keep the first / the last element of every key class
KeepFirstBy(s, Key(_), unused) == SubAt(s, {i \in 1..Len(s) : \A j \in 1..(i - 1) : Key(s[j]) # Key(s[i])})
KeepLastBy(s, Key(_)) == SubAt(s, {i \in 1..Len(s) : \A j \in (i + 1)..Len(s) : Key(s[j]) # Key(s[i])})

\* ---------------------------------------------------------------- de-duplication (part of SortBlocks)
\* earlier exclude and tool directives take priority, later replace directives take priority
ExcKey(x) == <<x.p, x.v>>
RepKey(r) == <<r.op, r.ov>>
ToolKey(t) == t.p
Dedup(m) == [m EXCEPT !.exclude = IF m.kind = "mod" THEN KeepFirstBy(@, ExcKey, {}) ELSE @,
                      !.replace = KeepLastBy(@, RepKey),
                      !.tool = IF m.kind = "mod" THEN KeepFirstBy(@, ToolKey, {}) ELSE @]

\* ---------------------------------------------------------------- operations
\* op = [name, a: four strings (unused ones empty), b: boolean argument, l: list argument]; result [m, err]
Ok(m) == [m |-> m, err |-> FALSE]
Err(m) == [m |-> m, err |-> TRUE]

SetReqList(m, list) ==
    \* list: sequence of [p, v, ind] with distinct paths.  Existing entries: the first for each requested path is
    \* kept with the requested version and marking (comments kept), every other entry is removed; missing ones are added
    LET want(p) == CHOOSE i \in 1..Len(list) : list[i].p = p
        Wanted(p) == \E i \in 1..Len(list) : list[i].p = p
        kept == KeepFirstBy(Filter(m.require, LAMBDA r : Wanted(r.p)), LAMBDA r : r.p, {})
        upd == [i \in 1..Len(kept) |-> [kept[i] EXCEPT !.v = list[want(kept[i].p)].v, !.ind = list[want(kept[i].p)].ind]]
        have == {kept[i].p : i \in 1..Len(kept)}
        new == Filter(list, LAMBDA x : x.p \notin have)
    IN [m EXCEPT !.require = upd \o [i \in 1..Len(new) |-> Req(new[i].p, new[i].v, new[i].ind, "", "")]]

SetUseList(m, list) ==
    LET Wanted(p) == \E i \in 1..Len(list) : list[i] = p
        kept == KeepFirstBy(Filter(m.use, LAMBDA u : Wanted(u.p)), LAMBDA u : u.p, {})
        have == {kept[i].p : i \in 1..Len(kept)}
        new == Filter(list, LAMBDA p : p \notin have)
    IN [m EXCEPT !.use = kept \o [i \in 1..Len(new) |-> Use(new[i], "", "")]]

Apply(m, op) ==
    LET a == op.a IN
    CASE op.name = "AddModuleStmt" -> Ok([m EXCEPT !.mod = a[1]])
      [] op.name = "AddGoStmt" -> IF GoVersOK(a[1]) THEN Ok([m EXCEPT !.gov = a[1]]) ELSE Err(m)
      [] op.name = "DropGoStmt" -> Ok([m EXCEPT !.gov = ""])
      [] op.name = "AddToolchainStmt" -> IF ToolchainOK(a[1]) THEN Ok([m EXCEPT !.tc = a[1]]) ELSE Err(m)
      [] op.name = "DropToolchainStmt" -> Ok([m EXCEPT !.tc = ""])
      [] op.name = "AddGodebug" ->
            IF Exists(m.godebug, LAMBDA g : g.k = a[1])
            THEN Ok([m EXCEPT !.godebug = UpdFirstDropRest(@, LAMBDA g : g.k = a[1], LAMBDA g : [g EXCEPT !.v = a[2]], FALSE)])
            ELSE Ok([m EXCEPT !.godebug = Append(@, Gdb(a[1], a[2], "", ""))])
      [] op.name = "DropGodebug" -> Ok([m EXCEPT !.godebug = Filter(@, LAMBDA g : g.k # a[1])])
      [] op.name = "AddRequire" ->
            IF Exists(m.require, LAMBDA r : r.p = a[1])
            THEN Ok([m EXCEPT !.require = UpdFirstDropRest(@, LAMBDA r : r.p = a[1], LAMBDA r : [r EXCEPT !.v = a[2]], FALSE)])
            ELSE Ok([m EXCEPT !.require = Append(@, Req(a[1], a[2], FALSE, "", ""))])
      [] op.name = "AddNewRequire" -> Ok([m EXCEPT !.require = Append(@, Req(a[1], a[2], op.b, "", ""))])
      [] op.name = "DropRequire" -> Ok([m EXCEPT !.require = Filter(@, LAMBDA r : r.p # a[1])])
      [] op.name = "AddExclude" ->
            IF ~ValidPV(a[1], a[2]) THEN Err(m)
            ELSE IF Exists(m.exclude, LAMBDA x : x.p = a[1] /\ x.v = a[2]) THEN Ok(m)
            ELSE Ok([m EXCEPT !.exclude = Append(@, Exc(a[1], a[2], "", ""))])
      [] op.name = "DropExclude" -> Ok([m EXCEPT !.exclude = Filter(@, LAMBDA x : ~(x.p = a[1] /\ x.v = a[2]))])
      [] op.name = "AddReplace" ->
            \* with an empty old version the replacement applies to all versions: it takes the place of every
            \* existing replacement of that path; with a version, only of the replacement of exactly that version
            LET Match(r) == r.op = a[1] /\ (a[2] = "" \/ r.ov = a[2])
                Upd(r) == [r EXCEPT !.ov = a[2], !.np = a[3], !.nv = a[4]]
            IN IF Exists(m.replace, Match)
               THEN Ok([m EXCEPT !.replace = UpdFirstDropRest(@, Match, Upd, FALSE)])
               ELSE Ok([m EXCEPT !.replace = Append(@, Rep(a[1], a[2], a[3], a[4], "", ""))])
      [] op.name = "DropReplace" -> Ok([m EXCEPT !.replace = Filter(@, LAMBDA r : ~(r.op = a[1] /\ r.ov = a[2]))])
      [] op.name = "AddRetract" ->
            IF ~(ValidPV(m.mod, a[1]) /\ ValidPV(m.mod, a[2])) THEN Err(m)
            ELSE Ok([m EXCEPT !.retract = Append(@, Ret(a[1], a[2], a[3]))])
      [] op.name = "DropRetract" -> Ok([m EXCEPT !.retract = Filter(@, LAMBDA r : ~(r.lo = a[1] /\ r.hi = a[2]))])
      [] op.name = "AddTool" ->
            IF Exists(m.tool, LAMBDA t : t.p = a[1]) THEN Ok(m)
            ELSE Ok(Dedup([m EXCEPT !.tool = Append(@, Tool(a[1], "", ""))]))
      [] op.name = "DropTool" -> Ok([m EXCEPT !.tool = Filter(@, LAMBDA t : t.p # a[1])])
      [] op.name = "SortBlocks" -> Ok(Dedup(m))
      [] op.name = "Cleanup" -> Ok(m)
      [] op.name = "SetRequire" -> Ok(Dedup(SetReqList(m, op.l)))
      [] op.name = "SetRequireSeparateIndirect" -> Ok(Dedup(SetReqList(m, op.l)))
      [] op.name = "AddUse" ->
            IF Exists(m.use, LAMBDA u : u.p = a[1])
            THEN Ok([m EXCEPT !.use = UpdFirstDropRest(@, LAMBDA u : u.p = a[1], LAMBDA u : u, FALSE)])
            ELSE Ok([m EXCEPT !.use = Append(@, Use(a[1], "", ""))])
      \* AddNewUse appends without looking (the caller knows the directory is new); a duplicate stays until SetUse / SortBlocks
      [] op.name = "AddNewUse" -> Ok([m EXCEPT !.use = Append(@, Use(a[1], "", ""))])
      [] op.name = "DropUse" -> Ok([m EXCEPT !.use = Filter(@, LAMBDA u : u.p # a[1])])
      [] op.name = "SetUse" -> Ok(Dedup(SetUseList(m, op.l)))

\* ---------------------------------------------------------------- comparing with the real file
\* projections as bags: the real side reports each collection as a sequence of the same records
RECURSIVE SeqToBag(_)
SeqToBag(s) == IF s = <<>> THEN <<>> ELSE
    LET rest == SeqToBag(Tail(s)) x == Head(s)
    IN [y \in DOMAIN rest \cup {x} |-> (IF y \in DOMAIN rest THEN rest[y] ELSE 0) + (IF y = x THEN 1 ELSE 0)]
SameBag(s, t) == SeqToBag(s) = SeqToBag(t)
\* values only (no comment identities)
ReqV(s) == [i \in 1..Len(s) |-> <<s[i].p, s[i].v, s[i].ind>>]
ExcV(s) == [i \in 1..Len(s) |-> <<s[i].p, s[i].v>>]
RepV(s) == [i \in 1..Len(s) |-> <<s[i].op, s[i].ov, s[i].np, s[i].nv>>]
RetV(s) == [i \in 1..Len(s) |-> <<s[i].lo, s[i].hi, s[i].rat>>]
RetNoRat(s) == [i \in 1..Len(s) |-> <<s[i].lo, s[i].hi>>]
ToolV(s) == [i \in 1..Len(s) |-> s[i].p]
GdbV(s) == [i \in 1..Len(s) |-> <<s[i].k, s[i].v>>]
UseV(s) == [i \in 1..Len(s) |-> s[i].p]
\* which collections of projection x (same shape as a model state) differ from model state m
Differ(m, x) ==
    {c \in {"mod", "gov", "tc"} : m[c] # x[c]}
    \cup (IF SameBag(GdbV(m.godebug), GdbV(x.godebug)) THEN {} ELSE {"godebug"})
    \cup (IF SameBag(ReqV(m.require), ReqV(x.require)) THEN {} ELSE {"require"})
    \cup (IF SameBag(ExcV(m.exclude), ExcV(x.exclude)) THEN {} ELSE {"exclude"})
    \cup (IF SameBag(RepV(m.replace), RepV(x.replace)) THEN {} ELSE {"replace"})
    \cup (IF SameBag(RetNoRat(m.retract), RetNoRat(x.retract)) THEN {} ELSE {"retract"})
    \cup (IF SameBag(RetNoRat(m.retract), RetNoRat(x.retract)) /\ ~SameBag(RetV(m.retract), RetV(x.retract)) THEN {"rationale"} ELSE {})
    \cup (IF SameBag(ToolV(m.tool), ToolV(x.tool)) THEN {} ELSE {"tool"})
    \cup (IF SameBag(UseV(m.use), UseV(x.use)) THEN {} ELSE {"use"})
=============================================================================
