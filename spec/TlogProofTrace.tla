--------------------------- MODULE TlogProofTrace ---------------------------
(* E3 for C03: proofs recorded on big random trees.  Hash values are not      *)
(* logged; the specification recomputes the proof length, the stored-hash     *)
(* positions the proof is assembled from (drift level) and the fate of        *)
(* mutations that the E1 run shows are rejected for every tree.               *)
EXTENDS Tlog, TlogProof, TLC, Json, SequencesExt
VARIABLES l, bad

Trace == ndJsonDeserialize("trace.ndjson")

\* stored-hash positions read to assemble a list of range hashes, in order
RECURSIVE ReadsOf(_)
ReadsOf(ds) == IF ds = <<>> THEN <<>>
               ELSE LET bs == Blocks(Head(ds)[2], Head(ds)[3])
                    IN [i \in 1..Len(bs) |-> BlockIndex(bs[i])] \o ReadsOf(Tail(ds))
ProofOf(e) == IF e.k = "recproof" THEN PathR(e.in.n, 0, e.in.t) ELSE ConsR(e.in.n, e.in.t)
ExpOf(e) == [len |-> Len(ProofOf(e)), ok |-> TRUE, flipRejected |-> TRUE, delRejected |-> TRUE,
             appRejected |-> TRUE, leafRejected |-> TRUE, rootRejected |-> TRUE]
\* the prover reads them left to right in the tree, i.e. in increasing position
DriftOf(e) == [reads |-> SortSeq(ReadsOf(ProofOf(e)), <)]

TraceInit == l = 1 /\ bad = {} /\ recs = <<>> /\ store = <<>>
TNext == /\ l <= Len(Trace)
         /\ l' = l + 1
         /\ LET e == Trace[l] ok == e.obs = ExpOf(e) dok == e.drift = DriftOf(e) IN
              /\ bad' = IF ok THEN bad ELSE bad \cup {l}
              /\ IF ok THEN TRUE ELSE PrintT(ToJson([k |-> "bad", in |-> [l |-> l], exp |-> ExpOf(e)]))
              /\ IF dok THEN TRUE ELSE PrintT(ToJson([k |-> "drift", in |-> [l |-> l], exp |-> DriftOf(e)]))
         /\ UNCHANGED <<recs, store>>
Done == l = Len(Trace) + 1 => PrintT(ToJson([k |-> "done", in |-> [n |-> Len(Trace), nbad |-> Cardinality(bad)]]))
=============================================================================
