---------------------------- MODULE TilesPublish ----------------------------
(* The publisher of C10: a log grows step by step and after each step the     *)
(* publisher adds NewTiles(h, old, new).  Invariant: what has been published   *)
(* is exactly the set of tiles any reader of the current tree can ask for.     *)
EXTENDS Tiles, TLC, Json
CONSTANTS Heights, MaxN, MaxSteps
VARIABLES h, sizes, published

Init == h \in Heights /\ sizes = <<0>> /\ published = {}
Grow(m) == /\ Len(sizes) <= MaxSteps
           /\ m > sizes[Len(sizes)]
           /\ sizes' = Append(sizes, m)
           /\ published' = published \cup NewTiles(h, sizes[Len(sizes)], m)
           /\ UNCHANGED h
Next == \E m \in 1..MaxN : Grow(m)

cur == sizes[Len(sizes)]
\* every tile of the current tree is available with the width a reader asks for
PublishedSuffices == AllTiles(h, cur) \subseteq published
\* and every plan for a single position stays within the tiles of the tree
PlansWithinTiles == \A c \in {<<L, K>> \in (0..Log2Floor(cur)) \X (0..cur) : (K + 1) * Pow2(L) <= cur} :
                        \A i \in 1..Len(Plan(h, cur, <<c>>)) : Plan(h, cur, <<c>>)[i] \in AllTiles(h, cur)
Emit == Len(sizes) >= 2 =>
    PrintT(ToJson([w |-> "tiles", k |-> "newtiles", in |-> [h |-> h, sizes |-> sizes],
                   exp |-> [new |-> [i \in 1..(Len(sizes) - 1) |->
                                        LET ts == NewTiles(h, sizes[i], sizes[i + 1]) IN
                                        IF ts = {} THEN <<>> ELSE
                                        LET RECURSIVE ToSeq(_)
                                            ToSeq(T) == IF T = {} THEN <<>> ELSE LET x == CHOOSE y \in T : TRUE IN <<<<x.tl, x.tn, x.w>>>> \o ToSeq(T \ {x})
                                        IN ToSeq(ts)]]]))
=============================================================================
