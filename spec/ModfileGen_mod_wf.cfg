CONSTANTS
  MaxOps = 0
  LayoutSet = "wf"
  Kind = "mod"
INIT Init
NEXT Next
INVARIANTS EmitWf
