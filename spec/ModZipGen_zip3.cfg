CONSTANTS
  Size = "small"
  MaxList = 0
  MaxZip = 3
INIT Init
NEXT Next
INVARIANTS ExactlyOneList ValidAreSound OrderIndependentClass CreateRoundTrip NoEscape Emit
