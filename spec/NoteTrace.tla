------------------------------- MODULE NoteTrace -------------------------------
(* E3 for C07: byte-level mutations of signed messages opened by the real      *)
(* note.Open.  The recorder abstracts every message to lines with an           *)
(* independent splitter and classifies signature lines with crypto/ed25519      *)
(* (which key, if any, made the signature over the text before the last blank   *)
(* line); the specification's Open predicts outcome, text length and partition. *)
(* verifiedOverText is the property-level flag computed from recording          *)
(* verifiers: every listed signature was accepted by its verifier over exactly  *)
(* the returned text.                                                           *)
EXTENDS Note, TLC, Json
VARIABLES l, bad

Trace == ndJsonDeserialize("trace.ndjson")
Keys == <<Key(1, "A", 11), Key(2, "B", 22), Key(3, "A", 33), Key(4, "A", 11)>>
KnownOf(k) == [keys |-> {Keys[k.keys[i]] : i \in 1..Len(k.keys)}, liar |-> k.liar]
\* make "signed over the message's own text" concrete for this message
Conv(m) ==
    LET ls == m.lines
        blanks == {j \in 2..Len(ls) : ls[j].k = "blank"}
        j == IF blanks = {} THEN 0 ELSE CHOOSE x \in blanks : \A y \in blanks : y <= x
        Norm(x) == IF x.k = "sig" THEN [x EXCEPT !.over = <<>>] ELSE x
        text == IF j = 0 THEN <<>> ELSE [i \in 1..(j - 1) |-> Norm(ls[i])]
    IN [lines |-> [i \in 1..Len(ls) |->
                      IF ls[i].k # "sig" THEN ls[i]
                      ELSE IF i <= j THEN Norm(ls[i])
                      ELSE [ls[i] EXCEPT !.over = IF ls[i].over = "own" THEN text ELSE <<"other">>]],
        finalnl |-> m.finalnl]
ExpOf(e) ==
    LET o == Open(Conv(e.in.msg), KnownOf(e.in.known)) IN
    [kind |-> o.kind, ntext |-> IF o.kind \in {"ok", "unverified"} THEN Len(o.text) ELSE -1,
     sigs |-> o.sigs, unsigs |-> o.unsigs, verifiedOverText |-> TRUE]
Init == l = 1 /\ bad = {}
Next == /\ l <= Len(Trace)
        /\ l' = l + 1
        /\ LET ok == Trace[l].obs = ExpOf(Trace[l]) IN
             /\ bad' = IF ok THEN bad ELSE bad \cup {l}
             /\ IF ok THEN TRUE ELSE PrintT(ToJson([k |-> "bad", in |-> [l |-> l], exp |-> ExpOf(Trace[l])]))
Done == l = Len(Trace) + 1 => PrintT(ToJson([k |-> "done", in |-> [n |-> Len(Trace), nbad |-> Cardinality(bad)]]))
================================================================================
