------------------------------ MODULE TlogTrace ------------------------------
(* E3 for C09: long logs recorded from the real tlog package.  Only positions  *)
(* are logged (where the new hashes go, how many, which stored indexes were    *)
(* read), so that logs of thousands of records stay cheap; the specification   *)
(* recomputes each of them from the layout definition.                         *)
EXTENDS Tlog, TLC, Json, SequencesExt
VARIABLES l, bad

Trace == ndJsonDeserialize("trace.ndjson")

ExpOf(e) ==
    CASE e.k = "appendidx" ->
            [pos   |-> Count(e.in.n),
             nnew  |-> TrailingOnes(e.in.n) + 1,
             count |-> Count(e.in.n + 1),
             hashok |-> TRUE]       \* each new hash is the RFC 6962 hash of the subtree of 2^level records ending here
      [] e.k = "treeidx" ->
            [matchesRef |-> TRUE]
      [] e.k = "concappend" ->
            [hashok |-> TRUE]       \* logs are independent of each other, whoever writes them and when
      [] e.k = "coord" ->
            [idx |-> Index(e.in.l, e.in.k), l2 |-> e.in.l, k2 |-> e.in.k]
EventOK(e) == e.obs = ExpOf(e)
\* protocol level: which stored hashes were read (a mismatch is drift, not a violation)
DriftOf(e) ==
    CASE e.k = "appendidx" -> [reads |-> SetToSortSeq(ReadSetForAppend(e.in.n), <)]
      [] e.k = "concappend" -> [reads |-> <<>>]
      [] e.k = "treeidx" -> [reads |-> LET bs == Blocks(0, e.in.m) IN [i \in 1..Len(bs) |-> BlockIndex(bs[i])]]
DriftOK(e) == ("drift" \notin DOMAIN e) \/ e.drift = DriftOf(e)

TInit == l = 1 /\ bad = {}
TNext == /\ l <= Len(Trace)
         /\ l' = l + 1
         /\ LET ok == EventOK(Trace[l]) IN
              /\ bad' = IF ok THEN bad ELSE bad \cup {l}
              /\ IF ok THEN TRUE ELSE PrintT(ToJson([k |-> "bad", in |-> [l |-> l], exp |-> ExpOf(Trace[l])]))
              /\ IF DriftOK(Trace[l]) THEN TRUE ELSE PrintT(ToJson([k |-> "drift", in |-> [l |-> l], exp |-> DriftOf(Trace[l])]))
         /\ UNCHANGED <<recs, store>>
Done == l = Len(Trace) + 1 => PrintT(ToJson([k |-> "done", in |-> [n |-> Len(Trace), nbad |-> Cardinality(bad)]]))
TraceInit == TInit /\ recs = <<>> /\ store = <<>>
==============================================================================
