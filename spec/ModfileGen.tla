----------------------------- MODULE ModfileGen -----------------------------
(* E2 generator for C08 / C15: initial layouts x operation sequences, with    *)
(* the model state after every prefix.  A layout is a sequence of statements;  *)
(* a statement is a single line or a block of one verb, items carry comment    *)
(* identities.  Flatten gives the model state the layout denotes.              *)
EXTENDS ModfileLayout, Json
CONSTANTS MaxOps,        \* length of operation sequences
          LayoutSet,     \* "small" | "full" | "pairs"
          Kind           \* "mod" | "work"
VARIABLES phase, verb, lay, m, ops, trail

Flatten(l) == FlattenK(Kind, l)

\* ------------------------------------------------------------ the layout family
Val(v, cb, cs) == [v |-> v, cb |-> cb, cs |-> cs]
\* items of the focus verb: X and Y have different keys, X2 has X's key and another value, X3 repeats X exactly
Items(v) ==
    CASE v = "require" -> [X |-> Req("example.com/a", "v1.0.0", FALSE, "", ""), Y |-> Req("example.com/b", "v1.0.0", TRUE, "", ""),
                           X2 |-> Req("example.com/a", "v1.1.0", TRUE, "", ""), X3 |-> Req("example.com/a", "v1.0.0", FALSE, "", "")]
      [] v = "exclude" -> [X |-> Exc("example.com/a", "v1.0.0", "", ""), Y |-> Exc("example.com/b", "v1.1.0", "", ""),
                           X2 |-> Exc("example.com/a", "v1.1.0", "", ""), X3 |-> Exc("example.com/a", "v1.0.0", "", "")]
      [] v = "replace" -> [X |-> Rep("example.com/a", "v1.0.0", "example.com/x", "v1.0.0", "", ""), Y |-> Rep("example.com/b", "", "../y", "", "", ""),
                           X2 |-> Rep("example.com/a", "", "example.com/z", "v1.1.0", "", ""), X3 |-> Rep("example.com/a", "v1.0.0", "example.com/w", "v1.2.0", "", "")]
      [] v = "retract" -> [X |-> [lo |-> "v1.0.0", hi |-> "v1.0.0", cb |-> "", cs |-> ""], Y |-> [lo |-> "v1.0.0", hi |-> "v1.1.0", cb |-> "", cs |-> ""],
                           X2 |-> [lo |-> "v1.1.0", hi |-> "v1.1.0", cb |-> "", cs |-> ""], X3 |-> [lo |-> "v1.0.0", hi |-> "v1.0.0", cb |-> "", cs |-> ""]]
      [] v = "tool"    -> [X |-> Tool("example.com/t/one", "", ""), Y |-> Tool("example.com/t/two", "", ""),
                           X2 |-> Tool("example.com/t/one", "", ""), X3 |-> Tool("example.com/t/one", "", "")]
      [] v = "godebug" -> [X |-> Gdb("k1", "v1", "", ""), Y |-> Gdb("k2", "v1", "", ""), X2 |-> Gdb("k1", "v2", "", ""), X3 |-> Gdb("k1", "v1", "", "")]
      [] v = "use"     -> [X |-> Use("./x", "", ""), Y |-> Use("./y", "", ""), X2 |-> Use("./x", "", ""), X3 |-> Use("./x", "", "")]
Patterns(v) == LET i == Items(v) IN {<<i.X>>, <<i.X, i.Y>>, <<i.X, i.X2>>, <<i.X, i.Y, i.X3>>, <<i.Y, i.X2, i.X>>}
\* comment decorations: each item gets identities derived from its position
Tag(n, s) == s \o ToString(n)
Decorate(its, how) ==
    [n \in 1..Len(its) |->
        CASE how = "none" -> its[n]
          [] how = "cbfirst" -> IF n = 1 THEN [its[n] EXCEPT !.cb = Tag(n, "lead")] ELSE its[n]
          [] how = "cslast" -> IF n = Len(its) THEN [its[n] EXCEPT !.cs = Tag(n, "eol")] ELSE its[n]
          [] how = "all" -> [its[n] EXCEPT !.cb = Tag(n, "lead"), !.cs = Tag(n, "eol")]]
Forms == IF LayoutSet \in {"full", "wf"} THEN {"lines", "block", "blockc", "split"} ELSE {"lines", "blockc", "split"}
Hows == IF LayoutSet \in {"full", "wf"} THEN {"none", "cbfirst", "cslast", "all"} ELSE {"none", "all"}
Arrange(v, its, form) ==
    CASE form = "lines"  -> [n \in 1..Len(its) |-> Line1(v, its[n])]
      [] form = "block"  -> <<Stmt(v, "block", "", its)>>
      [] form = "blockc" -> <<Stmt(v, "block", "blockwhy", its)>>
      [] form = "split"  -> IF Len(its) = 1 THEN <<Stmt(v, "block", "", its)>>
                            ELSE <<Stmt(v, "block", "", <<its[1]>>), Stmt(v, "block", "", Tail(its))>>
\* other directives around the focus, so that survival of untargeted lines is observable
Before(v) == IF Kind = "mod"
             THEN <<Line1("module", Val("example.com/m", "modlead", "")), Line1("go", Val("1.21", "", "goeol"))>>
                  \o (IF v # "require" THEN <<Line1("require", Req("example.com/q", "v1.2.0", FALSE, "qlead", "qeol"))>> ELSE <<>>)
             ELSE <<Line1("go", Val("1.21", "golead", ""))>> \o (IF v # "use" THEN <<Line1("use", Use("./bg", "bglead", "bgeol"))>> ELSE <<>>)
After(v) == IF Kind = "mod"
            THEN (IF v # "exclude" THEN <<Line1("exclude", Exc("example.com/q", "v1.0.0", "", "xeol"))>> ELSE <<>>)
                 \o (IF v # "replace" THEN <<Line1("replace", Rep("example.com/q", "", "../q", "", "rlead", ""))>> ELSE <<>>)
            ELSE (IF v # "replace" THEN <<Line1("replace", Rep("example.com/q", "", "../q", "", "rlead", ""))>> ELSE <<>>)
FocusVerbs == IF Kind = "mod" THEN {"require", "exclude", "replace", "retract", "tool", "godebug"} ELSE {"use", "replace", "godebug"}
LayoutsOf(v) == {Before(v) \o Arrange(v, Decorate(p, how), form) \o After(v) : p \in Patterns(v), form \in Forms, how \in Hows}
\* a few layouts rich in every verb, used for operation pairs
Mixed == IF Kind = "mod"
    THEN {<<Line1("module", Val("example.com/m", "", "")), Line1("go", Val("1.20", "", "")),
           Stmt("require", "block", "", <<Req("example.com/a", "v1.0.0", FALSE, "l1", ""), Req("example.com/b", "v1.0.0", TRUE, "", "")>>),
           Line1("require", Req("example.com/a", "v1.1.0", FALSE, "", "e3")),
           Stmt("exclude", "block", "", <<Exc("example.com/a", "v1.0.0", "", ""), Exc("example.com/a", "v1.0.0", "", "e2")>>),
           Line1("replace", Rep("example.com/a", "v1.0.0", "example.com/x", "v1.0.0", "", "")),
           Stmt("replace", "block", "", <<Rep("example.com/a", "", "../z", "", "", "r1"), Rep("example.com/b", "", "../y", "", "", "")>>),
           Stmt("retract", "block", "", <<[lo |-> "v1.0.0", hi |-> "v1.0.0", cb |-> "why1", cs |-> ""], [lo |-> "v1.0.0", hi |-> "v1.1.0", cb |-> "", cs |-> "why2"]>>),
           Line1("tool", Tool("example.com/t/one", "", "")), Line1("godebug", Gdb("k1", "v1", "", "g1"))>>,
          <<Line1("module", Val("example.com/m", "", "")),
           Line1("require", Req("example.com/a", "v1.0.0", TRUE, "", "")),
           Line1("replace", Rep("example.com/a", "v1.0.0", "example.com/x", "v1.0.0", "", "")),
           Line1("replace", Rep("example.com/a", "v1.1.0", "example.com/x", "v1.1.0", "", "")),
           Stmt("tool", "block", "", <<Tool("example.com/t/two", "", ""), Tool("example.com/t/one", "", "t1")>>),
           Stmt("godebug", "block", "", <<Gdb("k1", "v1", "", ""), Gdb("k1", "v2", "", ""), Gdb("k2", "v1", "", "")>>)>>}
    ELSE {<<Line1("go", Val("1.21", "", "")), Stmt("use", "block", "", <<Use("./x", "u1", ""), Use("./y", "", "u2"), Use("./x", "", "")>>),
           Line1("replace", Rep("example.com/a", "v1.0.0", "example.com/x", "v1.0.0", "", "")),
           Stmt("replace", "block", "", <<Rep("example.com/a", "", "../z", "", "", "r1"), Rep("example.com/a", "v1.0.0", "../w", "", "", "")>>),
           Stmt("godebug", "block", "", <<Gdb("k1", "v1", "", ""), Gdb("k1", "v2", "", "")>>)>>}

\* well-formed files for C02 / C20: the layout with the directive values it denotes
Special == IF Kind = "mod"
    THEN {<<Stmt("require", "block", "", <<Req("module", "v1.0.0", FALSE, "", "")>>), Line1("module", Val("example.com/m", "", ""))>>,
          <<Stmt("exclude", "block", "", <<Exc("example.com/a", "v1.0.0", "", ""), Exc("module", "v1.1.0", "", "")>>), Line1("module", Val("example.com/m", "", "")), Line1("go", Val("1.21", "", ""))>>,
          <<Line1("go", Val("1.20", "", "")), Stmt("replace", "block", "", <<Rep("module", "", "../m", "", "", "")>>), Line1("module", Val("example.com/m/v2", "", "modeol"))>>,
          <<Line1("module", Val("example.com/m", "", "")), Stmt("require", "block", "", <<Req("module", "v1.0.0", TRUE, "", "")>>)>>,
          \* the module directive written as a block, alone and with other statements
          <<Stmt("module", "block", "", <<Val("example.com/m", "", "")>>)>>,
          <<Stmt("module", "block", "mb", <<Val("example.com/m", "ml", "")>>), Line1("require", Req("example.com/a", "v1.0.0", FALSE, "", ""))>>}
    ELSE {\* directories whose names need quoting
          <<Line1("go", Val("1.21", "", "")), Line1("use", Use("./my dir", "", "")), Line1("use", Use("./x", "", "xe"))>>,
          <<Line1("go", Val("1.21", "", "")), Stmt("use", "block", "", <<Use("./x", "", ""), Use("./my dir", "ml", "")>>)>>}

\* ------------------------------------------------------------ operation instances
Pad4(a) == [i \in 1..4 |-> IF i <= Len(a) THEN a[i] ELSE ""]
Op(n, a) == [name |-> n, a |-> Pad4(a), b |-> FALSE, l |-> <<>>]
OpB(n, a, b) == [name |-> n, a |-> Pad4(a), b |-> b, l |-> <<>>]
OpL(n, l) == [name |-> n, a |-> Pad4(<<>>), b |-> FALSE, l |-> l]
ReqPaths == {"example.com/a", "example.com/b", "example.com/c/v2"}
VersFor(p) == IF p = "example.com/c/v2" THEN {"v2.0.0", "v2.1.0"} ELSE {"v1.0.0", "v1.1.0"}
RL(p, v, i) == [p |-> p, v |-> v, ind |-> i]
ReqLists == {<<>>, <<RL("example.com/a", "v1.1.0", FALSE)>>, <<RL("example.com/b", "v1.0.0", FALSE), RL("example.com/a", "v1.0.0", TRUE)>>,
             <<RL("example.com/c/v2", "v2.0.0", TRUE), RL("example.com/q", "v1.2.0", TRUE), RL("example.com/a", "v1.0.0", FALSE)>>}
ModOps ==
       {Op("AddModuleStmt", <<p>>) : p \in {"example.com/m", "example.com/n"}}
  \cup {Op("AddGoStmt", <<v>>) : v \in {"1.20", "1.21", "1.x"}} \cup {Op("DropGoStmt", <<>>)}
  \cup {Op("AddToolchainStmt", <<n>>) : n \in {"go1.21.0", "bad"}} \cup {Op("DropToolchainStmt", <<>>)}
  \cup {Op("AddGodebug", <<k, v>>) : k \in {"k1", "k2"}, v \in {"v1", "v3"}} \cup {Op("DropGodebug", <<k>>) : k \in {"k1", "k2"}}
  \cup UNION {{Op("AddRequire", <<p, v>>) : v \in VersFor(p)} : p \in ReqPaths}
  \cup {OpB("AddNewRequire", <<"example.com/a", "v1.1.0">>, TRUE), OpB("AddNewRequire", <<"example.com/d", "v1.0.0">>, FALSE)}
  \cup {Op("DropRequire", <<p>>) : p \in ReqPaths}
  \cup UNION {{Op("AddExclude", <<p, v>>) : v \in VersFor(p)} : p \in ReqPaths}
  \cup {Op("AddExclude", <<"example.com/a", "v1.0">>), Op("AddExclude", <<"example.com/c/v2", "v1.0.0">>), Op("AddExclude", <<"example.com/a", "">>)}
  \cup {Op("DropExclude", <<p, v>>) : p \in {"example.com/a", "example.com/b"}, v \in {"v1.0.0", "v1.1.0"}}
  \cup {Op("AddReplace", <<p, ov, "example.com/new", "v1.2.0">>) : p \in {"example.com/a", "example.com/b"}, ov \in {"", "v1.0.0"}}
  \cup {Op("AddReplace", <<"example.com/a", ov, "../local", "">>) : ov \in {"", "v1.1.0"}}
  \cup {Op("AddReplace", <<"example.com/b", "", "../o'neil/b", "">>)}
  \cup {Op("DropReplace", <<p, ov>>) : p \in {"example.com/a", "example.com/b"}, ov \in {"", "v1.0.0"}}
  \cup {Op("AddRetract", <<lo, hi, r>>) : lo \in {"v1.0.0"}, hi \in {"v1.0.0", "v1.1.0"}, r \in {"", "newwhy", "two\nlines", "para one\n\npara two"}}
  \cup {Op("AddRetract", <<"v1.2.0", "v1.2.0", "">>), Op("AddRetract", <<"v2.0.0", "v2.0.0", "">>), Op("AddRetract", <<"v1.0", "v1.0.0", "x">>)}
  \cup {Op("DropRetract", <<lo, hi>>) : lo \in {"v1.0.0"}, hi \in {"v1.0.0", "v1.1.0"}} \cup {Op("DropRetract", <<"v1.1.0", "v1.1.0">>)}
  \cup {Op("AddTool", <<p>>) : p \in {"example.com/t/one", "example.com/t/three"}} \cup {Op("DropTool", <<p>>) : p \in {"example.com/t/one", "example.com/t/two"}}
  \cup {Op("SortBlocks", <<>>)}
  \cup {OpL(n, l) : n \in {"SetRequire", "SetRequireSeparateIndirect"}, l \in ReqLists}
WorkOps ==
       {Op("AddGoStmt", <<v>>) : v \in {"1.20", "1.x"}} \cup {Op("DropGoStmt", <<>>)}
  \cup {Op("AddToolchainStmt", <<"go1.21.0">>), Op("DropToolchainStmt", <<>>)}
  \cup {Op("AddGodebug", <<k, v>>) : k \in {"k1", "k2"}, v \in {"v1", "v3"}} \cup {Op("DropGodebug", <<k>>) : k \in {"k1", "k2"}}
  \cup {Op("AddUse", <<p>>) : p \in {"./x", "./y", "./new", "./o'brien", "./my dir"}} \cup {Op("DropUse", <<p>>) : p \in {"./x", "./y"}}
  \cup {Op("AddNewUse", <<p>>) : p \in {"./x", "./new"}}
  \cup {OpL("SetUse", l) : l \in {<<>>, <<"./x">>, <<"./y", "./x">>, <<"./new", "./x", "../z">>}}
  \cup {Op("AddReplace", <<p, ov, "example.com/new", "v1.2.0">>) : p \in {"example.com/a", "example.com/b"}, ov \in {"", "v1.0.0"}}
  \cup {Op("DropReplace", <<p, ov>>) : p \in {"example.com/a"}, ov \in {"", "v1.0.0"}}
  \cup {Op("SortBlocks", <<>>)}
AllOps == IF Kind = "mod" THEN ModOps ELSE WorkOps

\* ------------------------------------------------------------ behaviour
Init == phase = "hub" /\ verb = "" /\ lay = <<>> /\ m = EmptyFile(Kind) /\ ops = <<>> /\ trail = <<>>
Next ==
    \/ /\ phase = "hub" /\ phase' = "verb"
       /\ verb' \in (IF LayoutSet = "pairs" THEN {"mixed"} ELSE IF LayoutSet = "wf" THEN FocusVerbs \cup {"mixed"} ELSE FocusVerbs)
       /\ UNCHANGED <<lay, m, ops, trail>>
    \/ /\ phase = "verb" /\ phase' = "run"
       /\ lay' \in (IF verb = "mixed" THEN Mixed \cup Special ELSE LayoutsOf(verb))
       /\ m' = Flatten(lay')
       /\ UNCHANGED <<verb, ops, trail>>
    \/ /\ phase = "run" /\ Len(ops) < MaxOps
       /\ \E o \in AllOps :
            LET r == Apply(m, o) IN
            /\ m' = r.m
            /\ ops' = Append(ops, o)
            /\ trail' = Append(trail, [err |-> r.err, m |-> r.m])
       /\ UNCHANGED <<phase, verb, lay>>

\* E1: properties of the model itself
\* de-duplication is idempotent and operations with invalid arguments change nothing
DedupIdempotent == phase = "run" => Dedup(Dedup(m)) = Dedup(m)
ErrorsChangeNothing == \A i \in 1..Len(trail) : trail[i].err => trail[i].m = (IF i = 1 THEN Flatten(lay) ELSE trail[i - 1].m)
\* after a bulk set the collection is exactly the requested list, one entry per path
BulkExact == (phase = "run" /\ Len(ops) >= 1 /\ ops[Len(ops)].name \in {"SetRequire", "SetRequireSeparateIndirect"}) =>
    LET l == ops[Len(ops)].l IN
    /\ SameBag(ReqV(m.require), [i \in 1..Len(l) |-> <<l[i].p, l[i].v, l[i].ind>>])

EmitWf == (phase = "run" /\ Len(ops) = 0) =>
    PrintT(ToJson([w |-> "modsyntax", k |-> "wf", in |-> [kind |-> Kind, layout |-> lay], exp |-> [m |-> Flatten(lay)]]))

Emit == (phase = "run" /\ Len(ops) >= 1) =>
    PrintT(ToJson([w |-> "modfile", k |-> "session", in |-> [kind |-> Kind, layout |-> lay, ops |-> ops], exp |-> [init |-> Flatten(lay), after |-> trail]]))
=============================================================================
