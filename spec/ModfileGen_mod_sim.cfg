CONSTANTS
  MaxOps = 6
  LayoutSet = "full"
  Kind = "mod"
INIT Init
NEXT Next
INVARIANTS DedupIdempotent ErrorsChangeNothing BulkExact Emit
