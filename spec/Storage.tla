------------------------------ MODULE Storage ------------------------------
(* sumdb/storage: a transactional key-value store (storage.Mem).  A          *)
(* transaction is a function run zero or more times to no effect and then    *)
(* once to effect: reads see the committed table (never the transaction's    *)
(* own buffered writes), buffered writes are applied together when the       *)
(* function returns nil, not at all when it returns an error; an empty value *)
(* deletes the key; a read-only transaction cannot buffer writes.            *)
(* Transactions are serializable: concurrent ones take effect one at a time. *)
EXTENDS Integers, Sequences, FiniteSets

CONSTANTS Keys, Vals, MaxTx
VARIABLES table,        \* committed state: [Keys -> Vals \cup {""}]
          hist          \* <<transaction, outcome>> in commit order

vars == <<table, hist>>
Empty == ""
\* a transaction body: a sequence of steps [op, k, v]; op "read" | "write" | "fail" (return an error here)
Step(op, k, v) == [op |-> op, k |-> k, v |-> v]
Bodies == LET S == {Step("read", k, Empty) : k \in Keys} \cup {Step("write", k, v) : k \in Keys, v \in Vals \cup {Empty}} \cup {Step("fail", "", Empty)}
              All == {<<a>> : a \in S} \cup {<<a, b>> : a \in S, b \in S} \cup {<<a, b, c>> : a \in {Step("read", k, Empty) : k \in Keys}, b \in S, c \in S}
          \* (the behaviour of two buffered writes to one key is documented as undefined: not generated)
          IN {b \in All : \A i, j \in 1..Len(b) : (i < j /\ b[i].op = "write" /\ b[j].op = "write") => b[i].k # b[j].k}

\* running a body against a committed table: what each read returns, whether it fails, which writes are buffered
RECURSIVE Run(_, _, _, _)
Run(body, tbl, reads, writes) ==
    IF body = <<>> THEN [ok |-> TRUE, reads |-> reads, writes |-> writes]
    ELSE LET s == Head(body) IN
         IF s.op = "fail" THEN [ok |-> FALSE, reads |-> reads, writes |-> <<>>]
         ELSE IF s.op = "read" THEN Run(Tail(body), tbl, Append(reads, tbl[s.k]), writes)
         ELSE Run(Tail(body), tbl, reads, Append(writes, <<s.k, s.v>>))
RECURSIVE Apply(_, _)
Apply(tbl, ws) == IF ws = <<>> THEN tbl ELSE Apply([tbl EXCEPT ![Head(ws)[1]] = Head(ws)[2]], Tail(ws))

Init == table = [k \in Keys |-> Empty] /\ hist = <<>>
ReadWrite(body) ==
    LET r == Run(body, table, <<>>, <<>>) IN
    /\ table' = IF r.ok THEN Apply(table, r.writes) ELSE table
    /\ hist' = Append(hist, [kind |-> "rw", body |-> body, ok |-> r.ok, reads |-> r.reads, after |-> table'])
ReadOnly(body) ==
    LET r == Run(body, table, <<>>, <<>>) IN
    /\ \A i \in 1..Len(body) : body[i].op # "write"
    /\ UNCHANGED table
    /\ hist' = Append(hist, [kind |-> "ro", body |-> body, ok |-> r.ok, reads |-> r.reads, after |-> table])
Next == Len(hist) < MaxTx /\ \E b \in Bodies : ReadWrite(b) \/ ReadOnly(b)
Spec == Init /\ [][Next]_vars

\* ---- E1 ----
\* a failed transaction leaves no trace; reads never see the transaction's own writes
FailedLeavesNothing == \A i \in 1..Len(hist) : ~hist[i].ok => hist[i].after = (IF i = 1 THEN [k \in Keys |-> Empty] ELSE hist[i - 1].after)
ReadsSeeCommitted == \A i \in 1..Len(hist) :
    LET before == IF i = 1 THEN [k \in Keys |-> Empty] ELSE hist[i - 1].after
        rs == SelectSeq(hist[i].body, LAMBDA s : s.op = "read")
    IN \A j \in 1..Len(hist[i].reads) : hist[i].reads[j] = before[rs[j].k]
=============================================================================
