CONSTANTS
  MaxOps = 6
  LayoutSet = "pairs"
  Kind = "mod"
INIT Init
NEXT Next
INVARIANTS DedupIdempotent ErrorsChangeNothing BulkExact Emit
