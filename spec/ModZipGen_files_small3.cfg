CONSTANTS
  Size = "small"
  MaxList = 3
  MaxZip = 0
INIT Init
NEXT Next
INVARIANTS ExactlyOneList ValidAreSound OrderIndependentClass CreateRoundTrip NoEscape Emit
