---------------------------- MODULE SemverExp ----------------------------
(* Expected observables of the semver API for one input, shared by the     *)
(* generator (E2: printed with the case) and the trace specification (E3:  *)
(* compared with what the real code returned).                             *)
EXTENDS Semver, SequencesExt

ExpStr(x, refs) ==
    [valid    |-> Valid(x),
     canon    |-> Canonical(x),
     major    |-> Major(x),
     mm       |-> MajorMinor(x),
     pre      |-> Prerelease(x),
     build    |-> Build(x),
     modcanon |-> ModuleCanonical(x),
     cmpref   |-> [i \in 1..Len(refs) |-> Cmp(x, refs[i])]]

ExpCmp(a, b) == [cmp |-> Cmp(a, b), rcmp |-> Cmp(b, a), max |-> Max(a, b)]

IsPermOf(a, b) ==
    /\ Len(a) = Len(b)
    /\ \A i \in 1..Len(a) :
          Cardinality({j \in 1..Len(a) : a[j] = a[i]}) = Cardinality({j \in 1..Len(b) : b[j] = a[i]})
\* the result of semver.Sort: a permutation ordered by Cmp then by string
SortOK(list, out) ==
    /\ IsPermOf(out, list)
    /\ \A i \in 1..(Len(out) - 1) : ~Less(out[i + 1], out[i])
ExpSort(list) == [out |-> SortSeq(list, Less)]
==========================================================================
