CONSTANTS
  AuthFrom = "distinctTreeTiles"
INIT Init
NEXT Next
INVARIANT Done
