CONSTANTS
  MaxArgs = 2
INIT Init
NEXT Next
INVARIANT Emit
