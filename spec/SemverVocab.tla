---------------------------- MODULE SemverVocab ----------------------------
(* E1 for C04: on a vocabulary V of version strings (valid and invalid) TLC *)
(* checks that the specification's Cmp is the SemVer total preorder the      *)
(* property names, and (E2c) prints every element with its rank so that the  *)
(* harness can compare semver.Compare on ALL pairs with sign(rank difference).*)
EXTENDS SemverExp, TLC, Json, SequencesExt
CONSTANTS Size          \* "small" | "full"
VARIABLES phase, idx, row, col

Majors == IF Size = "small" THEN {S("0"), S("1"), S("10"), S("12345678901234567890")}
          ELSE {S("0"), S("1"), S("10"), S("12345678901234567890"), S("01")}
Minors == IF Size = "small" THEN {S("0"), S("2")}
          ELSE {S("0"), S("9"), S("99999999999999999999")}
Pres   == IF Size = "small"
          THEN {<<>>, S("-0"), S("-1"), S("-10"), S("-a"), S("-A"), S("-a.0"), S("-a.a"), S("-1.a"), S("--"), S("-01"), S("-a..b"),
                \* a hyphen is part of an identifier, not a separator: rc-9 > rc-10 > rc-2a as ASCII strings
                S("-rc-9"), S("-rc-10"), S("-rc-2a"), S("-9"), S("-19"), S("-rc.9")}
          ELSE {<<>>, S("-0"), S("-1"), S("-2"), S("-10"), S("-a"), S("-A"), S("-a.0"), S("-a.1"), S("-a.a"), S("-1.a"),
                S("-a-b"), S("--"), S("-01"), S("-a..b"), S("-0a"), S("-1234567890123456789012345"),
                S("-1234567890123456789012346"), S("-a.1234567890123456789012345"), S("-rc.1"), S("-rc.10"), S("-rc.2"),
                S("-rc-9"), S("-rc-10"), S("-rc-2a"), S("-x.rc-9"), S("-x.rc-10"), S("-a-1.2"), S("-a-1.10"), S("-9"), S("-19"), S("-rc.9"), S("-99999999999999999999"), S("-100000000000000000000")}
Builds == IF Size = "small" THEN {<<>>, S("+b"), S("+incompatible")}
          ELSE {<<>>, S("+b"), S("+incompatible"), S("+"), S("+01.-")}

Cores == {<<cV>> \o m : m \in Majors}
         \cup {<<cV>> \o m \o <<cDot>> \o n : m \in Majors, n \in Minors}
         \cup {<<cV>> \o m \o <<cDot>> \o n \o <<cDot>> \o p : m \in Majors, n \in Minors, p \in Minors}
\* suffixes are attached to shortened forms too (those must be invalid)
VSet == {c \o p \o b : c \in Cores, p \in Pres, b \in Builds} \cup {<<>>, S("1.0.0"), S("v"), S("v1.0.0.0"), S("V1.0.0")}

\* deterministic enumeration of VSet (SetToSeq: CommunityModules SequencesExt)
V == SetToSeq(VSet)
N == Len(V)
GroupSize == 16
NGroups == (N + GroupSize - 1) \div GroupSize

\* the semver section 11 example chain
Chain == <<S("v1.0.0-alpha"), S("v1.0.0-alpha.1"), S("v1.0.0-alpha.beta"), S("v1.0.0-beta"),
           S("v1.0.0-beta.2"), S("v1.0.0-beta.11"), S("v1.0.0-rc.1"), S("v1.0.0")>>
ASSUME \A i \in 1..(Len(Chain) - 1) : Cmp(Chain[i], Chain[i + 1]) = -1
ASSUME Cmp(S("v1.0.0"), S("v2.0.0")) = -1 /\ Cmp(S("v2.0.0"), S("v2.1.0")) = -1 /\ Cmp(S("v2.1.0"), S("v2.1.1")) = -1

\* transitivity on a sub-vocabulary through a precomputed matrix
SubN == IF N < 160 THEN N ELSE 160
Stride == IF N < 160 THEN 1 ELSE N \div 160
Sub(i) == V[1 + (((i - 1) * Stride) % N)]
CmpM == [i \in 1..SubN |-> [j \in 1..SubN |-> Cmp(Sub(i), Sub(j))]]

\* memoized validity, parts and canonical forms of the vocabulary (constant-level, computed once)
VOK == [i \in 1..N |-> Valid(V[i])]
VP  == [i \in 1..N |-> IF VOK[i] THEN Parts(V[i]) ELSE <<>>]
VC  == [i \in 1..N |-> Canonical(V[i])]
CmpI(i, j) == CmpWith(VOK[i], VP[i], VOK[j], VP[j])      \* = Cmp(V[i], V[j])

Init == phase = "hub" /\ idx = 0 /\ row = <<>> /\ col = <<>>
Next == \/ /\ phase = "hub"
           /\ phase' = "grp"
           /\ idx' \in 1..NGroups
           /\ UNCHANGED <<row, col>>
        \/ /\ phase = "grp"
           /\ phase' = "elem"
           /\ idx' \in {i \in 1..N : (i - 1) \div GroupSize = idx - 1}
           /\ row' = [j \in 1..N |-> CmpI(idx', j)]
           /\ col' = [j \in 1..N |-> CmpI(j, idx')]
        \/ /\ phase = "grp"
           /\ idx <= SubN
           /\ phase' = "tri"
           /\ idx' \in {i \in 1..SubN : (i - 1) \div GroupSize = idx - 1}
           /\ UNCHANGED <<row, col>>

a == V[idx]
\* ---- E1: the preorder properties, for element a against every b ----
Reflexive == phase = "elem" => row[idx] = 0 /\ Cmp(a, a) = 0
Antisymmetric == phase = "elem" => \A j \in 1..N : row[j] = -col[j]
Total == phase = "elem" => \A j \in 1..N : row[j] \in {-1, 0, 1}
ZeroIffCanonical == phase = "elem" => \A j \in 1..N : (row[j] = 0) <=> (VC[idx] = VC[j])
InvalidLowest == phase = "elem" => \A j \in 1..N : (~VOK[idx] /\ VOK[j]) => row[j] = -1
CanonicalFixed == phase = "elem" => (Valid(a) => Valid(Canonical(a)) /\ Canonical(Canonical(a)) = Canonical(a) /\ Cmp(a, Canonical(a)) = 0)
\* the memoized comparison is the plain one (spot check on a stride of the row)
MemoAgrees == phase = "elem" => \A j \in {k \in 1..N : k % 37 = idx % 37} : row[j] = Cmp(a, V[j])
Transitive == phase = "tri" => \A j, k \in 1..SubN :
                 (CmpM[idx][j] <= 0 /\ CmpM[j][k] <= 0) => (CmpM[idx][k] <= 0 /\ (CmpM[idx][j] < 0 \/ CmpM[j][k] < 0 => CmpM[idx][k] < 0))

\* ---- E2c: rank = number of Cmp-classes strictly below ----
Rank == Cardinality({VC[j] : j \in {i \in 1..N : col[i] < 0}})
EmitRank == phase = "elem" => PrintT(ToJson([w |-> "semver", k |-> "rank", in |-> [s |-> a], exp |-> [rank |-> Rank, valid |-> VOK[idx]]]))
============================================================================
