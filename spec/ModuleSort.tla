---------------------------- MODULE ModuleSort ----------------------------
(* module.Sort (module/module.go): the order in which go.sum lines and       *)
(* requirement lists are written.  A list of (path, version) records is      *)
(* ordered by path as a byte string, then by the version up to the first     *)
(* slash under semver precedence (Semver.Cmp), then by the rest ("/go.mod")  *)
(* as a byte string.  The harness replays every generated list through the   *)
(* real function.                                                            *)
(*                                                                           *)
(* Observation recorded with the specification (not a listed property): the  *)
(* relation is a strict partial order but not a strict WEAK order when two   *)
(* versions are different strings of equal precedence (build metadata, or    *)
(* two invalid versions): v1.0.0+a/z and v1.0.0+b/a are unordered, so are    *)
(* v1.0.0+b/a and v1.0.0+a/a, but v1.0.0+a/a sorts before v1.0.0+a/z.  On    *)
(* such lists the result of a comparison sort depends on the input order;    *)
(* the generator marks them (total = FALSE) and the harness then only        *)
(* demands a permutation in which no adjacent pair is out of order.          *)
EXTENDS Semver, TLC, Json
CONSTANTS MaxLen
VARIABLES list

SlashC == 47
MV(p, v) == [path |-> p, version |-> v]
SplitFile(v) == LET k == IndexFirst(v, SlashC) IN IF k = 0 THEN <<v, <<>>>> ELSE <<Take(v, k - 1), Drop(v, k - 1)>>
LessMV(a, b) ==
    IF a.path # b.path THEN CmpSeq(a.path, b.path) < 0
    ELSE LET x == SplitFile(a.version) y == SplitFile(b.version) IN
         IF x[1] # y[1] THEN Cmp(x[1], y[1]) < 0 ELSE CmpSeq(x[2], y[2]) < 0

Paths == {S("a.example/m"), S("a.example/m/v2"), S("b.example")}
Versions == {S("v1.0.0"), S("v1.0.0/go.mod"), S("v1.2.0"), S("v1.10.0/go.mod"), S("v1.0.0-pre"), S("v1.0.0-pre/go.mod"),
             S("v1.0.0+meta"), S("v1.0.0+meta/go.mod"), S("v1.0"), S("bad"), S("bad/go.mod"), <<>>}
Elems == {MV(p, v) : p \in Paths, v \in Versions}

Init == list = <<>>
Next == Len(list) < MaxLen /\ \E e \in Elems : (\A i \in 1..Len(list) : list[i] # e) /\ list' = Append(list, e)

Total(l) == \A i, j \in 1..Len(l) : i # j => LessMV(l[i], l[j]) \/ LessMV(l[j], l[i])
Sorted(l) == SortSeq(l, LessMV)
CaseOf == [w |-> "semver", k |-> "modsort",
           in |-> [list |-> [i \in 1..Len(list) |-> <<list[i].path, list[i].version>>]],
           exp |-> [total |-> Total(list),
                    out |-> IF Total(list) THEN [i \in 1..Len(list) |-> <<Sorted(list)[i].path, Sorted(list)[i].version>>] ELSE <<>>]]
Emit == PrintT(ToJson(CaseOf))

\* E1: the relation is a strict partial order on the vocabulary, and total lists have one sorted form
Irreflexive == \A i \in 1..Len(list) : ~LessMV(list[i], list[i])
Asymmetric == \A i, j \in 1..Len(list) : LessMV(list[i], list[j]) => ~LessMV(list[j], list[i])
Transitive == \A i, j, k \in 1..Len(list) : LessMV(list[i], list[j]) /\ LessMV(list[j], list[k]) => LessMV(list[i], list[k])
SortedIsOrdered == Total(list) => \A i, j \in 1..Len(list) : i < j => LessMV(Sorted(list)[i], Sorted(list)[j])
\* NOT an invariant (see the observation above): incomparability is not transitive
WeakOrder == \A i, j, k \in 1..Len(list) :
    (~LessMV(list[i], list[j]) /\ ~LessMV(list[j], list[i]) /\ ~LessMV(list[j], list[k]) /\ ~LessMV(list[k], list[j]))
        => (~LessMV(list[i], list[k]) /\ ~LessMV(list[k], list[i]))
=============================================================================
