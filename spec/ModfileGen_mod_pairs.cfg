CONSTANTS
  MaxOps = 2
  LayoutSet = "pairs"
  Kind = "mod"
INIT Init
NEXT Next
INVARIANTS DedupIdempotent ErrorsChangeNothing BulkExact Emit
