CONSTANTS
  MaxLen = 4
  Alphabet = "full"
INIT Init
NEXT Next
INVARIANTS OneToken OneTokenDir NoComment Emit
