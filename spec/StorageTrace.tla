---------------------------- MODULE StorageTrace ----------------------------
(* E3 for sumdb/storage: g goroutines each run n read-modify-write           *)
(* transactions on one counter.  Transactions are serializable, so no        *)
(* increment is lost: the counter ends at g * n, whatever the interleaving   *)
(* and however often the store makes a transaction run again.               *)
EXTENDS Integers, Sequences, FiniteSets, TLC, Json
VARIABLES l, bad
Trace == ndJsonDeserialize("trace.ndjson")
ExpOf(e) == [final |-> e.in.g * e.in.n, leaked |-> FALSE]
Init == l = 1 /\ bad = {}
Next == /\ l <= Len(Trace)
        /\ l' = l + 1
        /\ LET ok == Trace[l].obs = ExpOf(Trace[l]) IN
             /\ bad' = IF ok THEN bad ELSE bad \cup {l}
             /\ IF ok THEN TRUE ELSE PrintT(ToJson([k |-> "bad", in |-> [l |-> l], exp |-> ExpOf(Trace[l])]))
Done == l = Len(Trace) + 1 => PrintT(ToJson([k |-> "done", in |-> [n |-> Len(Trace), nbad |-> Cardinality(bad)]]))
=============================================================================
