--------------------------- MODULE ModulePathExp ---------------------------
(* Expected observables of the path API for one input, shared by the         *)
(* generators (E2) and the trace specification (E3).                         *)
EXTENDS Escape

ExpPathV(p, versions) ==
    LET sp == Split(p) IN
    [mod |-> CheckPathOK(p), imp |-> CheckImportPathOK(p), file |-> CheckFilePathOK(p),
     split |-> [prefix |-> sp.prefix, suffix |-> sp.suffix, ok |-> sp.ok],
     check |-> [i \in 1..Len(versions) |-> CheckOK(p, versions[i])],
     major |-> [i \in 1..Len(versions) |-> CheckPathMajorOK(versions[i], sp.suffix)]]
ExpGlob(globs, target) == [match |-> MatchPrefixPatterns(globs, target)]
=============================================================================
