CONSTANTS
  MaxOps = 0
  LayoutSet = "wf"
  Kind = "work"
INIT Init
NEXT Next
INVARIANTS EmitWf
