-------------------------- MODULE ModfileModelTrace --------------------------
(* E3 for C08 / C15: random edit sessions recorded from the real modfile        *)
(* package.  A Reset event carries the projection of the initial file; every    *)
(* step event carries one operation and, for the prefix ending there (Cleanup   *)
(* before bulk setters and at the end, format, strict re-parse): whether the    *)
(* operation returned an error, the projection of the re-parsed file, the       *)
(* projection of the exported fields, and the lists holding cleared entries.    *)
(* The model replays the operations through ModfileModel!Apply.                 *)
EXTENDS ModfileModel, Json
VARIABLES l, m, trail, nbad

Trace == ndJsonDeserialize("trace.ndjson")
e == Trace[l]

IsTail(a, b) == a = "" \/ a = b \/ (Len(b) > Len(a) /\ SubSeq(b, Len(b) - Len(a) + 1, Len(b)) = a /\ SubSeq(b, Len(b) - Len(a), Len(b) - Len(a)) = "\n")
RationalesKept(ms, fs) == \A i \in 1..Len(ms) : \E j \in 1..Len(fs) : fs[j].lo = ms[i].lo /\ fs[j].hi = ms[i].hi /\ IsTail(ms[i].rat, fs[j].rat)

Init == l = 1 /\ m = EmptyFile("mod") /\ trail = <<>> /\ nbad = 0
Reset == /\ e.k = "Reset"
         /\ m' = e.in.init
         /\ trail' = <<>>
         /\ UNCHANGED nbad
Step == /\ e.k = "step"
        /\ LET r == Apply(m, e.in.op)
               \* C08: a retraction keeps its own comments; a block comment may legitimately be added in front of them
               \* when a one-line block is collapsed, so the model's rationale must be the tail of the file's
               c08 == (Differ(r.m, e.obs.file) \ {"rationale"}) \cup (IF r.err # e.obs.err THEN {"error"} ELSE {})
                      \cup (IF RationalesKept(r.m.retract, e.obs.file.retract) THEN {} ELSE {"rationale"})
               c15 == Differ(e.obs.struct, e.obs.file) \cup {"placeholder-" \o h : h \in {e.obs.holes[i] : i \in 1..Len(e.obs.holes)}}
               t2 == Append(trail, [err |-> r.err, m |-> r.m])
           IN /\ m' = r.m
              /\ trail' = t2
              /\ nbad' = nbad + (IF c08 \cup c15 = {} THEN 0 ELSE 1)
              /\ IF c08 \cup c15 = {} THEN TRUE
                 ELSE PrintT(ToJson([k |-> "bad", in |-> [l |-> l, c08 |-> c08, c15 |-> c15], exp |-> [after |-> t2]]))
Next == l <= Len(Trace) /\ l' = l + 1 /\ (Reset \/ Step)
Done == l = Len(Trace) + 1 => PrintT(ToJson([k |-> "done", in |-> [n |-> Len(Trace), nbad |-> nbad]]))
==============================================================================
