CONSTANTS
  MaxLen = 60
  Mode = "tokens"
INIT Init
NEXT Next
VIEW View
