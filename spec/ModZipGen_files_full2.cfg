CONSTANTS
  Size = "full"
  MaxList = 2
  MaxZip = 0
INIT Init
NEXT Next
INVARIANTS ExactlyOneList ValidAreSound OrderIndependentClass CreateRoundTrip NoEscape Emit
