---------------------------- MODULE ModfileLayout ----------------------------
(* Layouts of go.mod / go.work files: a sequence of statements, each a single  *)
(* line or a block of one verb; items carry comment identities.  FlattenK      *)
(* gives the model state (ModfileModel) a layout denotes.                      *)
EXTENDS ModfileModel

Stmt(v, form, bc, items) == [verb |-> v, form |-> form, bc |-> bc, items |-> items]
Line1(v, item) == Stmt(v, "line", "", <<item>>)

\* ------------------------------------------------------------ flatten a layout into a model state
JoinNL(a, b) == IF a = "" THEN b ELSE IF b = "" THEN a ELSE a \o "\n" \o b
RatOf(st, it) == LET own == JoinNL(it.cb, it.cs) IN IF own # "" THEN own ELSE IF st.form = "block" THEN st.bc ELSE ""
AddItem(mm, st, it) ==
    CASE st.verb = "module"    -> [mm EXCEPT !.mod = it.v]
      [] st.verb = "go"        -> [mm EXCEPT !.gov = it.v]
      [] st.verb = "toolchain" -> [mm EXCEPT !.tc = it.v]
      [] st.verb = "require"   -> [mm EXCEPT !.require = Append(@, it)]
      [] st.verb = "exclude"   -> [mm EXCEPT !.exclude = Append(@, it)]
      [] st.verb = "replace"   -> [mm EXCEPT !.replace = Append(@, it)]
      [] st.verb = "retract"   -> [mm EXCEPT !.retract = Append(@, Ret(it.lo, it.hi, RatOf(st, it)))]
      [] st.verb = "tool"      -> [mm EXCEPT !.tool = Append(@, it)]
      [] st.verb = "godebug"   -> [mm EXCEPT !.godebug = Append(@, it)]
      [] st.verb = "use"       -> [mm EXCEPT !.use = Append(@, it)]
RECURSIVE AddItems(_, _, _)
AddItems(mm, st, its) == IF its = <<>> THEN mm ELSE AddItems(AddItem(mm, st, Head(its)), st, Tail(its))
RECURSIVE FlattenFrom(_, _)
FlattenFrom(mm, l) == IF l = <<>> THEN mm ELSE FlattenFrom(AddItems(mm, Head(l), Head(l).items), Tail(l))
FlattenK(kind, l) == FlattenFrom(EmptyFile(kind), l)

=============================================================================
