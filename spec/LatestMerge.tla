---------------------------- MODULE LatestMerge ----------------------------
(* The heart of C13 / C14 without bounds: any number of goroutines of one    *)
(* client merge tree heads of any size into the in-memory head (compare and  *)
(* set under a lock) and flush it to the configuration file (compare and     *)
(* swap), as sumdb.Client.mergeLatest / mergeLatestMem do.  Heads are sizes  *)
(* of one honest log (so any two are consistent); what is proved is that     *)
(* neither the in-memory head nor the stored head ever moves backwards and   *)
(* that the stored head never overtakes the in-memory one.                   *)
(*                                                                           *)
(* Checked three ways: TLC on small constants (LatestMerge.cfg), Apalache as *)
(* an inductive invariant over unbounded integers (IndInit / IndInv), and    *)
(* TLAPS for any set of threads (the theorems at the end).                   *)
EXTENDS Integers

CONSTANT
    \* @type: Set(Str);
    Threads

VARIABLES
    \* @type: Int;
    mem,        \* size of the in-memory latest head (c.latest)
    \* @type: Int;
    cfg,        \* size of the head stored in the configuration file
    \* @type: Str -> Str;
    pc,
    \* @type: Str -> Int;
    tree,       \* the head a thread is merging
    \* @type: Str -> Int;
    snap,       \* its snapshot of mem (taken under the lock)
    \* @type: Str -> Int;
    cread,      \* what it read from the configuration file
    \* @type: Str -> Int;
    lsnap       \* its snapshot of latestMsg before WriteConfig

vars == <<mem, cfg, pc, tree, snap, cread, lsnap>>
SmallHeads == 0..3
Heads == Nat          \* sizes a signed head may have (TLC: overridden by a finite range)

TypeOK ==
    /\ mem \in Nat /\ cfg \in Nat
    /\ pc \in [Threads -> {"idle", "snap", "install", "readcfg", "mergecfg", "cfgsnap", "write"}]
    /\ tree \in [Threads -> Nat] /\ snap \in [Threads -> Nat]
    /\ cread \in [Threads -> Nat] /\ lsnap \in [Threads -> Nat]

Init ==
    /\ mem = 0 /\ cfg = 0
    /\ pc = [t \in Threads |-> "idle"]
    /\ tree = [t \in Threads |-> 0] /\ snap = [t \in Threads |-> 0]
    /\ cread = [t \in Threads |-> 0] /\ lsnap = [t \in Threads |-> 0]

\* a lookup response arrives with a signed head of some size
Start(t) == /\ pc[t] = "idle"
            /\ \E n \in Heads : tree' = [tree EXCEPT ![t] = n]
            /\ pc' = [pc EXCEPT ![t] = "snap"]
            /\ UNCHANGED <<mem, cfg, snap, cread, lsnap>>
\* mergeLatestMem: snapshot under the lock
Snap(t) == /\ pc[t] = "snap"
           /\ snap' = [snap EXCEPT ![t] = mem]
           /\ pc' = [pc EXCEPT ![t] = IF tree[t] <= mem THEN "idle" ELSE "install"]
           /\ UNCHANGED <<mem, cfg, tree, cread, lsnap>>
\* compare and set under the lock; on failure go around again
Install(t) == /\ pc[t] = "install"
              /\ IF mem = snap[t]
                 THEN mem' = tree[t] /\ pc' = [pc EXCEPT ![t] = "readcfg"]
                 ELSE UNCHANGED mem /\ pc' = [pc EXCEPT ![t] = "snap"]
              /\ UNCHANGED <<cfg, tree, snap, cread, lsnap>>
\* mergeLatest: read the configuration file ...
ReadCfg(t) == /\ pc[t] = "readcfg"
              /\ cread' = [cread EXCEPT ![t] = cfg]
              /\ pc' = [pc EXCEPT ![t] = "mergecfg"]
              /\ UNCHANGED <<mem, cfg, tree, snap, lsnap>>
\* ... merge it into memory (a larger stored head is installed; compare and set elided: it is Install again)
MergeCfg(t) == /\ pc[t] = "mergecfg"
               /\ IF cread[t] > mem
                  THEN mem' = cread[t] /\ pc' = [pc EXCEPT ![t] = "idle"]
                  ELSE /\ UNCHANGED mem
                       /\ pc' = [pc EXCEPT ![t] = IF cread[t] = mem THEN "idle" ELSE "cfgsnap"]
               /\ UNCHANGED <<cfg, tree, snap, cread, lsnap>>
\* the stored head is in the past: snapshot latestMsg under the lock ...
CfgSnap(t) == /\ pc[t] = "cfgsnap"
              /\ lsnap' = [lsnap EXCEPT ![t] = mem]
              /\ pc' = [pc EXCEPT ![t] = "write"]
              /\ UNCHANGED <<mem, cfg, tree, snap, cread>>
\* ... and compare-and-swap it into the file; on conflict read again
Write(t) == /\ pc[t] = "write"
            /\ IF cfg = cread[t]
               THEN cfg' = lsnap[t] /\ pc' = [pc EXCEPT ![t] = "idle"]
               ELSE UNCHANGED cfg /\ pc' = [pc EXCEPT ![t] = "readcfg"]
            /\ UNCHANGED <<mem, tree, snap, cread, lsnap>>

Step(t) == Start(t) \/ Snap(t) \/ Install(t) \/ ReadCfg(t) \/ MergeCfg(t) \/ CfgSnap(t) \/ Write(t)
Next == \E t \in Threads : Step(t)
Spec == Init /\ [][Next]_vars

\* ---- what is claimed ----
NeverBackwards == [][mem' >= mem /\ cfg' >= cfg]_vars
StoredNotAhead == cfg <= mem

\* ---- the inductive invariant ----
IndInv ==
    /\ TypeOK
    /\ cfg <= mem
    /\ \A t \in Threads :
         /\ (pc[t] = "install") => (snap[t] < tree[t] /\ snap[t] <= mem)
         /\ (pc[t] \in {"mergecfg", "cfgsnap", "write"}) => cread[t] <= cfg
         /\ (pc[t] = "cfgsnap") => cread[t] < mem
         /\ (pc[t] = "write") => (cread[t] < lsnap[t] /\ lsnap[t] <= mem)

\* for Apalache: three threads, unbounded integers
CInit == Threads = {"t1", "t2", "t3"}
\* for Apalache: any state satisfying the invariant (length-0 check of IndInit => IndInv is trivial)
IndInit == IndInv

-----------------------------------------------------------------------------
THEOREM InitInv == Init => IndInv
  BY DEF Init, IndInv, TypeOK

THEOREM StepInv == IndInv /\ [Next]_vars => IndInv'
<1> SUFFICES ASSUME IndInv, [Next]_vars PROVE IndInv'
  OBVIOUS
<1>1. CASE UNCHANGED vars
  BY <1>1 DEF IndInv, TypeOK, vars
<1>2. ASSUME NEW t \in Threads, Start(t) PROVE IndInv'
  BY <1>2 DEF IndInv, TypeOK, Start, Heads
<1>3. ASSUME NEW t \in Threads, Snap(t) PROVE IndInv'
  BY <1>3 DEF IndInv, TypeOK, Snap
<1>4. ASSUME NEW t \in Threads, Install(t) PROVE IndInv'
  BY <1>4 DEF IndInv, TypeOK, Install
<1>5. ASSUME NEW t \in Threads, ReadCfg(t) PROVE IndInv'
  BY <1>5 DEF IndInv, TypeOK, ReadCfg
<1>6. ASSUME NEW t \in Threads, MergeCfg(t) PROVE IndInv'
  BY <1>6 DEF IndInv, TypeOK, MergeCfg
<1>7. ASSUME NEW t \in Threads, CfgSnap(t) PROVE IndInv'
  BY <1>7 DEF IndInv, TypeOK, CfgSnap
<1>8. ASSUME NEW t \in Threads, Write(t) PROVE IndInv'
  BY <1>8 DEF IndInv, TypeOK, Write
<1> QED
  BY <1>1, <1>2, <1>3, <1>4, <1>5, <1>6, <1>7, <1>8 DEF Next, Step

THEOREM StepMonotone == IndInv /\ [Next]_vars => (mem' >= mem /\ cfg' >= cfg)
<1> SUFFICES ASSUME IndInv, [Next]_vars PROVE mem' >= mem /\ cfg' >= cfg
  OBVIOUS
<1>1. CASE UNCHANGED vars
  BY <1>1 DEF IndInv, TypeOK, vars
<1>2. ASSUME NEW t \in Threads, Step(t) PROVE mem' >= mem /\ cfg' >= cfg
  BY <1>2 DEF IndInv, TypeOK, Step, Start, Snap, Install, ReadCfg, MergeCfg, CfgSnap, Write, Heads
<1> QED
  BY <1>1, <1>2 DEF Next
=============================================================================
