CONSTANTS
  MaxLen = 6
INIT Init
NEXT Next
INVARIANTS RoundTrip DocImpliesLenient EmitText EmitIds EmitTrees
