CONSTANTS
  MaxLen = 64
  Contents = {}
  MaxLevel = 7
  MaxK = 64
INIT Init
NEXT Next
INVARIANTS LayoutBijection ClosedFormAgrees StoreIsMTH CountMatches TreeHashIsMTH ReadsArePresent EmitState
