CONSTANTS
  MaxLen = 5
  Mode = "chars"
INIT Init
NEXT Next
INVARIANT Emit
