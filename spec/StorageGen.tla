----------------------------- MODULE StorageGen -----------------------------
(* E1 + E2 for sumdb/storage: every sequence of MaxTx transactions over two   *)
(* keys and two values, with the reads each transaction must see and the      *)
(* table after it.                                                           *)
EXTENDS Storage, TLC, Json
Emit == Len(hist) = MaxTx =>
    PrintT(ToJson([w |-> "storage", k |-> "session",
                   in |-> [txs |-> [i \in 1..Len(hist) |-> [kind |-> hist[i].kind, body |-> hist[i].body]]],
                   exp |-> [outcomes |-> [i \in 1..Len(hist) |-> [ok |-> hist[i].ok, reads |-> hist[i].reads, after |-> hist[i].after]]]]))
=============================================================================
