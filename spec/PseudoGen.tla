------------------------------ MODULE PseudoGen ------------------------------
(* E1 + E2 for C18: bases x times x revisions.                                *)
EXTENDS Pseudo, TLC, Json
CONSTANTS Size
VARIABLES phase, bi, ti, ri

Bases == <<<<>>, S("v1.2.3"), S("v1.2"), S("v1"), S("v0.0.0"), S("v1.2.9"), S("v1.2.99"), S("v1.2.9999999999999999999999999"),
           S("v1.2.3-pre"), S("v1.2.3-0"), S("v1.2.3-a-b"), S("v1.2.3-pre.1"), S("v2.0.0+incompatible"), S("v1.2.3+meta"),
           S("v1.2.3-rc.1+incompatible"), S("v10.20.30"), S("v1.2.3-0.0"), S("bad"), S("v1.2.3-01"),
           \* build metadata may contain hyphens and dots
           S("v1.2.3+build-7"), S("v1.2.3+linux-amd64.cgo"), S("v1.2.3-rc.1+meta-pre"), S("v1.2+a-b")>>
Times == IF Size = "small"
         THEN <<<<1, 1, 1, 0, 0, 0>>, <<999, 12, 31, 23, 59, 59>>, <<2019, 10, 11, 19, 15, 35>>, <<2019, 10, 11, 19, 15, 36>>, <<9999, 12, 31, 23, 59, 59>>>>
         ELSE <<<<1, 1, 1, 0, 0, 0>>, <<999, 12, 31, 23, 59, 59>>, <<1000, 1, 1, 0, 0, 0>>, <<2019, 10, 11, 19, 15, 35>>, <<2019, 10, 11, 19, 15, 36>>,
                <<2020, 2, 29, 12, 0, 0>>, <<2100, 1, 1, 0, 0, 0>>, <<9999, 12, 31, 23, 59, 59>>>>
Revs == <<S("0"), S("abc"), S("abcdef123456"), S("ABCdef"), S("zzzzzzzzzzzz"), S("000000000000"),
          \* a full SHA-1 and a full SHA-256 in hexadecimal, and a 13-character one: the revision is recovered as given, whatever its length
          S("0123456789abcdef0123456789abcdef01234567"), S("0123456789abcdef0123456789abcdef0123456789abcdef0123456789abcdef"), S("abcdef1234567")>>
MajorFor(older, k) == IF Valid(older) THEN Major(older) ELSE <<<<>>, S("v0"), S("v1"), S("v2")>>[1 + (k % 4)]

Init == phase = "hub" /\ bi = 0 /\ ti = 0 /\ ri = 0
Next == \/ /\ phase = "hub" /\ phase' = "base" /\ bi' \in 1..Len(Bases) /\ UNCHANGED <<ti, ri>>
        \/ /\ phase = "base" /\ phase' = "case" /\ ti' \in 1..Len(Times) /\ ri' \in 1..Len(Revs) /\ UNCHANGED bi

Older == Bases[bi]
Mj == MajorFor(Older, ti + ri)
E == ExpPseudo(Mj, Older, Times[ti], Revs[ri])
\* E1
Recognised == phase = "case" => E.valid /\ E.ispseudo
Recovers == phase = "case" =>
    /\ E.ts = Stamp(Times[ti]) /\ E.rev = Revs[ri]
    /\ (Valid(Older) => E.baseok /\ E.base = CanonWithBuild(Older))
    /\ (~Valid(Older) => E.baseok /\ E.base = <<>>)
Between == phase = "case" => (Valid(Older) => E.cmpbase = -1) /\ E.cmpnext = -1
\* a later time gives a higher version whatever the revisions are
TimeMonotone == phase = "case" =>
    \A t2 \in 1..Len(Times), r2 \in 1..Len(Revs) :
        CmpSeq(Stamp(Times[ti]), Stamp(Times[t2])) < 0 => Cmp(E.pv, Make(Mj, Older, Stamp(Times[t2]), Revs[r2])) = -1
Emit == phase = "case" =>
    PrintT(ToJson([w |-> "pseudo", k |-> "make",
                   in |-> [major |-> Mj, older |-> Older, t |-> Times[ti], zone |-> ((((ti * 7 + ri * 13) % 27) - 13) * 60) + (IF (ri % 2) = 0 THEN 30 ELSE 0),
                           ns |-> IF (ri % 3) = 0 THEN 999999999 ELSE 0, rev |-> Revs[ri],
                           next |-> IF Valid(Older) THEN NextRelease(Older) ELSE (IF Mj = <<>> THEN S("v0") ELSE Mj) \o S(".0.0"),
                           later |-> [t2 \in 1..Len(Times) |-> Make(Mj, Older, Stamp(Times[t2]), Revs[1 + ((ri + t2) % Len(Revs))])]],
                   exp |-> E]))
=============================================================================
